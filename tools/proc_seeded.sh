#!/bin/bash
# dev helper: verify a seeded-change deliverable and run the property's check (plus extra checks) against it
# usage: tools/proc_seeded.sh <round> <Cxx> [more checks]
r=$1; id=$2; shift 2
d=/tmp/mut$r-$id-out
echo "##### $id"
/verif/tools/verify_seeded.sh $d 2>&1 | grep -v "^unit" | tail -2 | cut -c1-100
/verif/tools/verify_seeded.sh $d 2>&1 | grep "^unit" | grep -o "[0-9]* passed" | tr '\n' ' '; echo
/verif/tools/try_seeded.sh $d/patch.diff $id "$@" 2>&1 | grep "^== " | cut -c1-260
