#!/bin/bash
# Run checks against a seeded change in an ISOLATED copy (scratch worktree + harness copy + scratch VERIF_ROOT),
# so that /repo and /verif are not touched. usage: try_seeded.sh <patch.diff> <Cxx> [Cyy ...]
# (the registered procedure - git -C /repo apply; ./check; git -C /repo checkout -- . - gives the same verdicts)
set -u
PATCH="$1"; shift
SFX="${TRY_SFX:-}"; WT=/tmp/mutwt$SFX; HM=/tmp/h-mut$SFX; TG=/tmp/h-mut-target$SFX; VR=/tmp/mut-root$SFX
if [ ! -d $WT ]; then git -C /repo worktree add -f $WT HEAD >/dev/null 2>&1; fi
git -C $WT checkout -q --detach $(git -C /repo rev-parse HEAD) 2>/dev/null
git -C $WT checkout -- . ; git -C $WT clean -fdq -e target
if [ -n "$PATCH" ] && [ "$PATCH" != "none" ]; then
  git -C $WT apply "$PATCH" || { echo "PATCH DOES NOT APPLY to current HEAD"; exit 3; }
fi
mkdir -p $HM; rsync -a --delete --exclude target --exclude 'fuzz/target' --exclude 'fuzz/corpus' /verif/harness/ $HM/
sed -i "s#/repo/#$WT/#g" $HM/*/Cargo.toml
rm -rf $VR; mkdir -p $VR/evidence; cp /verif/known_findings.json $VR/; mkdir -p $VR/replays
for d in /verif/replays/*; do id=$(basename $d); mkdir -p $VR/replays/$id; for s in regress known; do [ -d $d/$s ] && cp -r $d/$s $VR/replays/$id/; done; done
( cd $HM && CARGO_TARGET_DIR=$TG cargo build --release --offline -p checks --bin svcheck 2>&1 | grep -E "^error" -A8 | head -20 )
if [ ! -x $TG/release/svcheck ]; then echo "BUILD FAILED"; exit 3; fi
# C16 and C20 run the real driver binary: built from the changed worktree as well
case " $* " in *" C16 "*|*" C20 "*) ( cd $WT && cargo build --release --offline -p sylt --bin sylt 2>&1 | grep -E "^error" -A8 | head -20 );; esac
export SYLT_BIN=$WT/target/release/sylt SYLT_LUA_DIR=/verif/harness/target/release
for id in "$@"; do
  out=$(VERIF_ROOT=$VR NO_COLOR=1 $TG/release/svcheck $id quick 2>&1); rc=$?
  echo "== $id rc=$rc $(echo "$out" | grep -c '^VIOLATION') violation line(s): $(echo "$out" | grep '^violation' | head -3 | tr '\n' ';' | cut -c1-300)"
  echo "$out" | tail -1 | cut -c1-260
done
