#!/usr/bin/env python3
"""mk_seeded_prompts.py <round> <outdir> -- writes one prompt per property for a fresh sub-agent that is to produce a
seeded change (sees only the property text and a scratch worktree /tmp/mut<round>-<ID>). From round 2 on the prompt
lists, in one sentence each, the changes already delivered for that property (from seeded/*/meta.json) and asks for a
different mechanism. Needs /tmp/tools/lua (a copy of harness/target/release/lua) for the sub-agents."""
import json, glob, sys, os
rnd, out = sys.argv[1], sys.argv[2]
os.makedirs(out, exist_ok=True)
tpl = open("/verif/tools/seeded_prompt_template.txt").read()
props = [json.loads(l) for l in open("/verif/properties.jsonl")]
prev = {}
for d in sorted(glob.glob("/verif/seeded/*/meta.json")):
    m = json.load(open(d)); prev.setdefault(m["property"], []).append(m)
for p in props:
    wt = f"/tmp/mut{rnd if rnd != '1' else ''}-{p['id']}"
    t = tpl.replace("{WT}", wt).replace("{ID}", p["id"]).replace("{TITLE}", p["title"]).replace("{STATEMENT}", p["statement"]).replace("{QUANT}", p["quantifier"]["text"])
    if rnd != "1" and prev.get(p["id"]):
        t += "\n\nIMPORTANT — other engineers already delivered these changes for the same property:\n"
        for m in prev[p["id"]]:
            t += f"  * \"{m['breaks']}\" (it needs: {m['needs_to_manifest']})\n"
        t += "Your change must use a DIFFERENT mechanism from all of them, in a different part of the code (a different compiler stage, construct, operator, library function or driver path where possible), and a different kind of trigger. Prefer parts of the property's statement that the changes above do not touch.\n"
    open(f"{out}/{p['id']}.txt", "w").write(t)
print("wrote", len(props), "prompts to", out)
