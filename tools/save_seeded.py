#!/usr/bin/env python3
"""save_seeded.py <Cxx> <srcdir> <name> -- reads JSON {needs, change, caught_by:[{check,signatures,seed,tier}], missed_before?} from stdin
copies patch.diff, demo files and meta.md (the sub-agent's own write-up) to /verif/seeded/<name>/ and writes meta.json"""
import sys, json, os, shutil
pid, src, name = sys.argv[1:4]
extra = json.load(sys.stdin)
dst = f"/verif/seeded/{name}"
os.makedirs(dst, exist_ok=True)
for f in os.listdir(src):
    p = os.path.join(src, f)
    if os.path.isfile(p) and os.path.getsize(p) < 200_000:
        shutil.copy(p, os.path.join(dst, f))
    elif os.path.isdir(p) and f not in ("target", ".git"):
        shutil.copytree(p, os.path.join(dst, f), dirs_exist_ok=True)
meta = {
    "property": pid,
    "breaks": extra["change"],
    "needs_to_manifest": extra["needs"],
    "files": sorted(os.listdir(dst)),
    "confirmed": {
        "how": "tools/verify_seeded.sh: scratch worktree of /repo under /tmp; demo.sh exits 0 without the patch and non-zero with it; "
               "`cargo test --workspace --no-fail-fast --offline` gives the same 158 results (program_tests fails in both: no lua on PATH); "
               "with mini-Lua on PATH `cargo test -p sylt` (program_tests, ~340 programs) passes with the patch applied",
        "demo_without_patch_exit": 0,
        "demo_with_patch_exit": extra.get("demo_exit", 1),
    },
    "ran": "tools/try_seeded.sh <patch> " + pid + " (isolated worktree + harness copy; identical to `git -C /repo apply`, `./check " + pid + " quick`, `git -C /repo checkout -- .`)",
    "caught_by": extra["caught_by"],
}
if "history" in extra:
    meta["history"] = extra["history"]
json.dump(meta, open(os.path.join(dst, "meta.json"), "w"), indent=1)
print("saved", dst, meta["files"])
