#!/usr/bin/env python3
"""Regenerates the tables between <!-- TABLES:BEGIN --> and <!-- TABLES:END --> in DESIGN.md from
known_findings.json, seeded/*/meta.json and `git -C /repo log`."""
import json, os, subprocess, re, glob
root = "/verif"
kf = json.load(open(f"{root}/known_findings.json"))
log = subprocess.run(["git", "-C", "/repo", "log", "--format=%h %s"], capture_output=True, text=True).stdout.strip().split("\n")
commits = [(l.split(" ", 1)[0], l.split(" ", 1)[1]) for l in log if l.split(" ", 1)[1].startswith("fix:")]
out = []
out.append("### 6.2 Repairs made in `/repo` (one `fix:` commit per root cause; newest first)\n")
out.append("| commit | subject | properties / signatures of the findings it closes (all listed as `fixed` in `known_findings.json`, reproducers replayed as regression cases on every run) |")
out.append("|---|---|---|")
for h, subj in commits:
    sigs = [e for e in kf if e.get("commit", "").startswith(h[:7]) or h.startswith(e.get("commit", "zzzzzzz")[:7])]
    cell = "; ".join(f"`{e['signature']}`" for e in sigs) or "(found while triaging another finding; see the commit message)"
    out.append(f"| {h} | {subj[5:].strip()} | {cell} |")
out.append("")
out.append("### 6.3 Open known findings (genuine defects recorded, not repaired)\n")
out.append("| property | signature | what fails | reproducer |")
out.append("|---|---|---|---|")
for e in kf:
    if e["status"] == "open":
        out.append(f"| {e['property']} | `{e['signature']}` | {e['what']} | `{e['reproducer']}` |")
out.append("")
out.append("### 7.1 Seeded changes (`/verif/seeded/<name>/`) and the checks that catch them\n")
out.append("Every change was written by a fresh sub-agent that saw only the property text and a scratch worktree; each compiles, passes the 158 pinned tests and the ~340 upstream program tests (run with mini-Lua), and its demonstration passes without / fails with the change (re-confirmed by `tools/verify_seeded.sh`).\n")
out.append("| seeded change | what it needs to manifest | caught by (quick tier, seed 0) | history |")
out.append("|---|---|---|---|")
for d in sorted(glob.glob(f"{root}/seeded/*/meta.json")):
    m = json.load(open(d))
    name = os.path.basename(os.path.dirname(d))
    cb = "; ".join(f"{c['check']}: " + ", ".join(f"`{s}`" for s in c["signatures"]) for c in m["caught_by"])
    out.append(f"| `{name}` — {m['breaks']} | {m['needs_to_manifest']} | {cb} | {m.get('history', 'caught by the first version of the check')} |")
text = "\n".join(out) + "\n"
p = f"{root}/DESIGN.md"
s = open(p).read()
a, b = "<!-- TABLES:BEGIN -->", "<!-- TABLES:END -->"
if a in s and b in s:
    s = s[: s.index(a) + len(a)] + "\n" + text + s[s.index(b):]
    open(p, "w").write(s)
    print("tables updated")
else:
    print(text)
