#!/bin/bash
# Confirms a seeded change: compiles, the pinned suite passes, its demonstration passes without and fails with it.
# usage: verify_seeded.sh <dir with patch.diff and demo.sh>
set -u
D="$1"; WT=/tmp/mutwt
if [ ! -d $WT ]; then git -C /repo worktree add -f $WT HEAD >/dev/null 2>&1; fi
git -C $WT checkout -q --detach $(git -C /repo rev-parse HEAD) 2>/dev/null
git -C $WT checkout -- . ; git -C $WT clean -fdq -e target
( cd $WT && cargo build --release --offline -p sylt 2>&1 | grep -E "^error" -A5 | head )
bash $D/demo.sh $WT >/tmp/w/demo_base.log 2>&1; base=$?
git -C $WT apply $D/patch.diff || { echo "PATCH DOES NOT APPLY"; exit 3; }
( cd $WT && cargo build --release --offline -p sylt 2>&1 | grep -E "^error" -A5 | head )
tests=$( cd $WT && cargo test --workspace --no-fail-fast --offline 2>&1 | grep -E "^test result" | tr '\n' ' ' )
prog=$( cd $WT && PATH=/tmp/tools:$PATH cargo test -p sylt --offline 2>&1 | grep -E "^test result" | tail -1 )
bash $D/demo.sh $WT >/tmp/w/demo_mut.log 2>&1; mut=$?
echo "demo without change: exit $base (want 0); with change: exit $mut (want != 0)"
echo "unit tests: $tests"
echo "program tests with lua: $prog"
