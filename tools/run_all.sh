#!/bin/bash
# dev helper: run every quick check with the given seeds using the already built svcheck; print a line per run
# usage: tools/run_all.sh "1 2 3" [Cxx ...]
seeds="$1"; shift
ids="${@:-C01 C02 C03 C04 C05 C06 C07 C08 C09 C10 C11 C12 C13 C14 C15 C16 C17 C18 C19 C20}"
for s in $seeds; do for id in $ids; do
  out=$(VERIF_SEED=$s /verif/harness/target/release/svcheck $id quick 2>&1); rc=$?
  echo "seed=$s $id rc=$rc $(echo "$out" | grep -E '^(VIOLATION|violation|INFRA|note)' | cut -c1-220 | tr '\n' '|') $(echo "$out" | tail -1 | grep -o 'evaluations=.*' | cut -c1-200)"
done; done
