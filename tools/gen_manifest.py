#!/usr/bin/env python3
"""Regenerates /verif/MANIFEST.json from the table below (checks that exist) + properties.jsonl."""
import json, os, sys
ROOT = "/verif"
props = [json.loads(l) for l in open(f"{ROOT}/properties.jsonl")]

CHECKS = {
 "C01": ("differential testing against a reference interpreter over generated programs",
         "Random well-typed Sylt programs (type-directed generation from a seeded byte tape, proptest + structural shrinking) are compiled by the real pipeline; the trace of mini-Lua running the emitted chunk must equal the trace of an independent reference interpreter of the source. Held on every generated case; says nothing about shapes the generator does not produce.",
         "trusted: the reference interpreter (harness/syltmodel/src/interp.rs) as the definition of the source's meaning, mini-Lua (harness/minilua) as Lua 5.3 on the subset used (validated by ./check selftest against the repository's own 220 positive test programs and by upstream's program_tests), the printer's rendering of GenAST to text"),
 "C02": ("property-based perturbation of well-typed programs + strict (tag-checking) reference run + Lua error class",
         "Well-typed generated programs are perturbed into almost-well-typed ones (13 perturbation kinds); whatever the checker still accepts is executed under a strict reference interpreter that checks operand tags, and under mini-Lua; a dynamic type error, a Lua error other than assert/<!>, or a trace disagreement is a violation.",
         "trusted: strict reference interpreter's typing rules (arith/compare/call/field/variant/cond/unbound), mini-Lua; rejections by the compiler are not judged"),
 "C03": ("generated planted-fault search (one definite mismatch at a generated placement must be rejected; legal twin must stay accepted)",
         "A well-typed generated base program plus one definite type mismatch (operators on literals of incompatible types, unary -/not, wrong arity/argument types of an annotated function, values contradicting annotations of variables/parameters/returns/fields, non-bool conditions, heterogeneous lists, calls of non-functions, void as a value) planted at a generated statement or expression site (function, closure, method, branch, arm, loop, do block, global initialiser, imported module): the unplanted base and the legal twin must be accepted, the planted program rejected with a type error and no output.",
         "trusted: the catalogue's spellings are mismatches under the documented typing rules; rejection is attributed to the plant because the twin differing only there is accepted"),
 "C04": ("generated planted-fault search (one constness/purity violation at generated nesting must be rejected; legal twin accepted)",
         "A generated base program with one forbidden construct planted below 0-4 generated nesting levels: assignment to a constant (local, alias, parameter, case binding, global, imported), or inside a `pu` function an assignment / mutable definition / read of a mutable / call of an impure function, or an impure function where a `pu` type is declared. Base and legal twin accepted, violation rejected with a type error and zero bytes written. One open finding (an impure function passed through an `fn`-annotated parameter to a `pu` type) is excluded by signature.",
         "an `fn` annotation is treated as 'purity not known'; any TypeError satisfies the property (the variant is recorded as a label)"),
 "C05": ("generated planted-fault search (shape-rule violations over generated blob/enum declarations; legal twin accepted and loads)",
         "Generated blob/enum declarations (1-6 members, type parameters) inside a generated base program plus one of 38 shape violations (missing/unknown field, unknown variant, non-exhaustive or over-complete case, tuple index past the end, tuple length mismatch, externblob instantiation, break/continue outside a loop, missing or malformed start) at a generated placement, directly or through unannotated parameters/returns/type parameters, in the main file or an imported module; violation and legal twin are rendered from the same choices: twin accepted and loadable, violation rejected with zero bytes written.",
         "trusted: mini-Lua's loader for the twin; signature names kind and access path, not the placement"),
 "C06": ("generated programs with lexical corner cases checked against the Lua 5.3 loader rules (validity predicate)",
         "Generated programs with Lua-keyword field names, arbitrary string contents, extreme numerals, unused expressions, statements after ret, long bodies and many globals: whenever the compiler accepts, mini-Lua's loader (a port of lparser.c's rules incl. the 200-locals / 255-upvalues / C-levels limits) must accept the emitted chunk. Two open findings (200-locals limits) are excluded by exact signature.",
         "trusted: mini-Lua's loader equals luaL_loadbuffer on this subset; register/C-level estimates near the limit are treated as inconclusive"),
 "C07": ("fuzzing for totality: token soup, corpus/generated-program mutation, misplaced statements, broken multi-file projects; crash/abort/hang oracle in child processes",
         "Each case is compiled in a child process with an address-space limit and a per-case watchdog; a panic, an empty error list, an error that does not render, bytes written on failure, or a dead child (OOM at 2 GiB RSS / 30 s) is a violation, shrunk by deleting lines/blocks/files.",
         "hang rule: 30 s or 2 GiB for inputs <= 8 KB counts as non-termination/resource exhaustion; nesting bounded by the generators"),
 "C08": ("metamorphic testing: annotation subsets of one generated program must all be accepted and emit identical bytes",
         "One generated program is rendered fully annotated, unannotated and with 2-4 random annotation subsets; if the fully annotated one is accepted all must be accepted with byte-identical Lua. One open finding (unannotated blob parameter whose function field is called) is excluded by signature.",
         "trusted: the printer writes correct annotations (they are the generator's types); function-typed parameters are always annotated"),
 "C09": ("metamorphic testing: consistent renamings (distinct vs maximal legal shadowing) emit identical bytes; planted out-of-scope uses are rejected",
         "An independent model of lexical resolution drives a greedy maximal-shadowing renaming of every binder; distinct-name and shadowing renderings must compile to identical bytes. A quarter of the cases plant a use of a binder at a statement position where it is not in scope and demand rejection.",
         "trusted: the lexical scope model (harness/syltmodel/src/scope.rs) as the statement of 'innermost enclosing declaration visible at that point'"),
 "C10": ("differential testing against the reference interpreter on a recursion/closure-dense generator profile",
         "Same oracle as C01 on programs built to hold values across re-entrant calls (if/case/operand values combined with a recursive call of the same function) and to call closures after their creating activation/iteration has ended (closure lists built in loops, sibling closures, closure factories, captured case bindings).",
         "as C01; interleavings are those of sequential evaluation"),
 "C11": ("metamorphic + differential testing over permutations of the top-level items; planted dependency cycles must be rejected in every order",
         "Programs of a top-level profile (initialisers calling functions, at most one initialiser with effects) are rendered in identity, reverse, rotated and random orders; every order must be accepted with the reference trace; planted value/function cycles must be rejected in every order.",
         "as C01; order-independence of the generated programs under the documented semantics is by construction (single effectful initialiser, pure initialisers cannot read mutable globals)"),
 "C12": ("metamorphic + differential testing over partitions of a program into files with generated import styles; negative import cases",
         "The globals/types of a generated program are partitioned over 1-5 files in up to three folder levels; every cross-file reference uses the style drawn for that file pair (use / use as / from use / from use as, relative, rooted, folder exports.sy, parenthesised lists); the project must be accepted and behave as the reference says; deleting a needed import or importing a missing name/file must be rejected.",
         "as C01; every non-empty module is imported by main so that 'loaded once' is observable through the single effectful initialiser"),
 "C13": ("exhaustive enumeration to a depth bound + random generation of expression trees; round trip through the real parser and value comparison",
         "All expression trees of operator depth <= 2 (quick) / <= 3 over a reduced set (thorough) plus random trees to depth 6 are rendered with only the parentheses the documented table requires and fully parenthesised; both must parse to the generating tree, and well-typed ones must evaluate to the model's value.",
         "where the table is silent (unary next to * /, unary on unary) parentheses are always written; trusted: own evaluator for the value part, mini-Lua"),
 "C14": ("metamorphic testing: two surface renderings (sugar/layout plans) of one generated program must emit identical bytes",
         "Default rendering vs a random plan choosing per site: call form (paren / prime / arrow), ret vs trailing expression, loop do vs loop true do, redundant parentheses, comments, blank lines, indentation, line breaks inside brackets, CRLF; both accepted, Lua identical up to the line number inside <!> messages.",
         "trusted: the printer only uses sugar where the grammar documents it as equivalent (prime calls where the greedy argument list cannot swallow anything, arrow calls for plain-name callees)"),
 "C15": ("generated planted-fault search over multi-file projects: first error must name the planted file and line",
         "Valid 1-3 file projects built from line-oriented pieces (so every line number is known by construction) with generated preceding text shapes (long and non-ASCII comments, non-ASCII and multi-line string literals, multi-line constructs, blank runs, CRLF, tabs, trailing blanks) and one local error of 12 kinds planted at a generated file/line/context: the legal twin must compile, the planted project must be rejected and its first error must carry the planted file and line (either definition for duplicates). One open finding (top-level non-definition statement reported at the following token) is excluded by signature.",
         "spellings whose natural location is elsewhere (open brackets, stray end/else, unterminated strings) are not planted; `use missing` (no span at all) is not judged"),
 "C16": ("invariant over repetitions: N in-process and cross-process compiles of generated (multi-error) inputs must be identical",
         "1-4 file projects from 15 classes (valid generated, wide declarations, import cycles/diamonds; several independent errors: unresolvable member types, unresolved names with equidistant candidates, duplicates, type errors, syntax errors, missing files, mutated corpus programs) are compiled 8 (accepted) / 24 (rejected) times in-process - after unrelated compilations, on a fresh thread, from another directory - and 3 times by the real `sylt` binary with a scrubbed different environment: Lua bytes, or every error field incl. rendered text and order, exit status, stdout and stderr must be identical.",
         "probabilistic oracle: a hash-order dependence choosing among k>=2 results per compile is missed with probability k^(1-N) per case; stored cases are repeated 1024 times"),
 "C17": ("exhaustive enumeration of short strings + random token-fragment concatenations against an independent maximal-munch lexer and line index",
         "Every string of length <= 5 (quick) / <= 6 (thorough) over a 23-symbol alphabet covering every token class, all concatenations of <= 2/3 of 270 token fragments, and random fragment concatenations: tokens must tile the text, agree with the reference lexer in kind/payload/extent and carry exact line/column ranges. One open finding (a `D.` numeral before certain non-ASCII characters) is excluded by signature.",
         "trusted: the reference lexer's reading of the documented token regexes; the extent of Error tokens is only loosely constrained"),
 "C18": ("model-based (stateful) testing: generated operation histories on lists/dicts/sets/Maybe/math rendered as Sylt programs vs Rust model containers",
         "Histories of up to 40 operations over int/str/tuple elements and keys are rendered as one program that prints an observation after each operation; printed lines must equal the model's (Vec/BTreeMap/BTreeSet/Option). Pairs of distinct tuple keys that print the same text are planted (former findings, repaired); inputs whose contract the docs leave open are excluded and counted.",
         "trusted: the model's reading of the std signatures; mini-Lua"),
 "C19": ("differential testing of composite-value operators against a structural model + algebraic laws on observed booleans",
         "Random nested types (tuples, lists, blobs, enums) with 2-3 biased values: every admitted operator is printed and compared with a structural model; reflexivity, symmetry, complement, trichotomy, transitivity are checked on the observed results independently of the model.",
         "operators the checker does not admit (unary - on tuples, <= >= between int and float) are not judged; no NaN, no overflow, no zero divisors"),
 "C20": ("generated configuration sweep of the real sylt binary with a differential oracle against the library",
         "Flag x program-class x output-path configurations run the real binary (mini-Lua as `lua` for run mode): exit status, printed errors, -o FILE all-or-nothing (incl. size-limited and unwritable targets), -o - vs file bytes, exactly one require after the preamble, --no-std neutrality.",
         "trusted: vcore's in-process compile of the same files as the reference; the mini-Lua CLI's stderr/exit convention for run mode"),
}
SECTION = {k: f"DESIGN.md section 5, {k}" for k in CHECKS}

def built(pid):
    src = f"{ROOT}/harness/checks/src/{pid.lower()}.rs"
    try:
        return "not built yet (stub" not in open(src).read()
    except OSError:
        return False

checks, na = [], []
for p in props:
    pid = p["id"]
    if built(pid) and CHECKS[pid][1]:
        tech, text, note = CHECKS[pid]
        checks.append({
            "property_id": pid,
            "quick_cmd": f"./check {pid} quick",
            "thorough_cmd": f"./check {pid} thorough",
            "evidence_file": f"/verif/evidence/{pid}.json",
            "replay_cmd_template": f"./check {pid} --replay {{path}}",
            "engine": "svcheck",
            "level_claimed": {"category": "exploration", "text": text, "design_ref": SECTION[pid]},
            "level_note": note,
            "technique": tech,
        })
    else:
        na.append({"property_id": pid, "reason": "check under construction in this round (property-based planted-fault / repetition check, see DESIGN.md section 5); not claimed until it is silent on the unchanged tree"})

m = {
 "version": 1,
 "setup_cmd": "./check setup",
 "hooks": {"guard": "--cfg sylt_lang_sylt_lang_verif", "enable": "no hooks: every API the checks use is public; the harness links /repo's crates by path and rebuilds them from the working tree", "baseline_off_cmd": "cd /repo && cargo test --workspace --no-fail-fast --offline", "source_commits": [], "add_only": True},
 "engines": [{"name": "svcheck", "path": "harness/checks", "serves_properties": [c["property_id"] for c in checks], "kind_free_text": "Rust: proptest-driven byte tapes decoded with arbitrary::Unstructured into cases, child-process isolation, structural shrinking, replay files, known-findings handling (harness/vcore); GenAST generator/printer/reference interpreter (harness/syltmodel); Lua 5.3-subset interpreter (harness/minilua)"}, {"name": "libfuzzer", "path": "harness/fuzz", "serves_properties": [c["property_id"] for c in checks], "kind_free_text": "cargo-fuzz / libFuzzer targets fz_cNN = vcore::fuzz_one(check, tape): coverage-guided mutation of the choice tape, same generator and oracle in-target; runs after the random search in every thorough tier (tools/fuzz_phase.sh), artifacts are triaged by `svcheck Cxx thorough --tape FILE` before anything is reported"}],
 "checks": checks,
 "notes": "All checks are property-based testing / fuzzing (generated-input search against an explicit oracle). Exit 0 = held on everything explored, exit 1 + VIOLATION line = violation, exit 2 = infrastructure. Open findings are listed in known_findings.json and printed as KNOWN-FINDING lines; repairs of genuine defects are 'fix:' commits in /repo recorded in the same file. Quick tiers are fixed-work (1-30 s each after a warm build); thorough tiers run 10-100x the cases and then a libFuzzer campaign (VERIF_FUZZ_SECS, default 300 s). /verif/seeded holds 60+ seeded changes by independent authors with the checks that catch them (DESIGN.md section 7, seeded/MATRIX.md).",
 "not_applicable": na,
}
json.dump(m, open(f"{ROOT}/MANIFEST.json", "w"), indent=1)
print("checks:", [c["property_id"] for c in checks]); print("not claimed:", [n["property_id"] for n in na])
