#!/bin/bash
# Coverage-guided phase of the thorough tier: libFuzzer (cargo-fuzz target fz_cNN) mutates the choice tape that the
# check's own generator decodes; the check's own oracle judges every case in-process (vcore::fuzz_one aborts on a
# violation candidate). Every artifact (crash / oom / timeout input) is then triaged by `svcheck Cxx thorough --tape F`,
# which decodes the tape the same way, evaluates the case in a child process under the usual limits and applies the
# known-findings file. Only confirmed violations are reported.
# usage: fuzz_phase.sh Cxx   (env: VERIF_SEED, VERIF_FUZZ_SECS [default 300], VERIF_FUZZ_JOBS [default 16])
# exit 0 = nothing found, 1 = violation (VIOLATION line printed), 2 = infrastructure problem
set -u
id="$1"; n="${id#C}"; tgt="fz_c$n"
secs="${VERIF_FUZZ_SECS:-300}"; seed="${VERIF_SEED:-0}"; jobs="${VERIF_FUZZ_JOBS:-16}"
ROOT="${VERIF_ROOT:-/verif}"
FZ="$ROOT/harness/fuzz"
SV="$ROOT/harness/target/release/svcheck"
export CARGO_NET_OFFLINE=true
LOG=$(mktemp /tmp/verif-fuzz.XXXXXX)
work="$FZ/work/$tgt.$$"
trap 'rm -rf "$LOG" "$work"' EXIT
if [ ! -f "$FZ/fuzz_targets/$tgt.rs" ]; then echo "fuzz: no target for $id"; exit 0; fi
( cd $FZ && cargo +nightly fuzz build -O -s none "$tgt" ) >"$LOG" 2>&1 || { echo "INFRA: fuzz target build failed"; tail -30 "$LOG"; exit 2; }
bin="$FZ/target/x86_64-unknown-linux-gnu/release/$tgt"
[ -x "$bin" ] || { echo "INFRA: fuzz binary missing: $bin"; exit 2; }
mkdir -p "$work/corpus" "$work/artifacts"
# starting corpus: a few pseudo-random tapes of different lengths (a pure function of the seed) and the empty tape
python3 - "$work/corpus" "$seed" <<'E'
import sys, random
d, seed = sys.argv[1], int(sys.argv[2])
r = random.Random(seed * 7919 + 13)
open(d + "/empty", "wb").close()
for i, n in enumerate([64, 256, 512, 1024, 2048, 3072, 4096, 4096, 1500, 800, 400, 200]):
    open("%s/seed%02d" % (d, i), "wb").write(bytes(r.getrandbits(8) for _ in range(n)))
E
t0=$(date +%s)
# N independent libFuzzer campaigns with different seeds, each with its own copy of the starting corpus;
# each stops at its first crash, which on a tree that holds the property does not happen
for j in $(seq 1 "$jobs"); do
  cp -r "$work/corpus" "$work/corpus.$j"
  # (hard wall-clock limit: libFuzzer's own timeout handler allocates and can dead-lock when the alarm fires inside malloc)
  timeout -s KILL $((secs + 120)) "$bin" "$work/corpus.$j" -seed=$((seed * 64 + j)) -max_len=4096 -len_control=0 -max_total_time="$secs" -reload=0 \
    -rss_limit_mb=3072 -timeout=40 -artifact_prefix="$work/artifacts/" -print_final_stats=1 >"$work/log.$j" 2>&1 &
done
wait
t1=$(date +%s)
execs=0; cov=0; ft=0
for j in $(seq 1 "$jobs"); do
  e=$(grep -E '^stat::number_of_executed_units:' "$work/log.$j" | awk '{print $2}'); execs=$((execs + ${e:-0}))
  last=$(grep -E '^#[0-9]+.* cov: ' "$work/log.$j" | tail -1)
  c=$(echo "$last" | sed -nE 's/.* cov: ([0-9]+).*/\1/p'); f=$(echo "$last" | sed -nE 's/.* ft: ([0-9]+).*/\1/p')
  [ "${c:-0}" -gt "$cov" ] && cov=$c
  [ "${f:-0}" -gt "$ft" ] && ft=$f
done
cat "$work"/log.* > "$LOG" 2>/dev/null
frc=0
corp=$(ls "$work"/corpus.* | wc -l)
nart=$(ls "$work/artifacts" 2>/dev/null | wc -l)
if [ "$execs" = "0" ]; then echo "INFRA: fuzzer made no progress (exit $frc)"; tail -20 "$LOG"; exit 2; fi
viol=0; confirmed=0; triaged=0
declare -A seen
for a in "$work"/artifacts/*; do
  [ -f "$a" ] || continue
  triaged=$((triaged + 1))
  [ "$triaged" -gt 200 ] && break
  out=$("$SV" "$id" thorough --tape "$a" 2>&1); rc=$?
  if [ $rc -eq 1 ]; then
    sig=$(echo "$out" | grep '^violation: ' | head -1)
    if [ -z "${seen[$sig]:-}" ]; then
      seen[$sig]=1
      echo "$out" | grep -E '^(violation: |VIOLATION )'
      confirmed=$((confirmed + 1))
    fi
    viol=1
  fi
done
echo "fuzz: $id target=$tgt execs=$execs cov=$cov ft=$ft corpus=$corp artifacts=$nart triaged=$triaged confirmed_violations=$confirmed wall=$((t1 - t0))s"
# record the phase in the evidence file written by the random-search phase
python3 - "$id" "$execs" "$cov" "$ft" "$corp" "$nart" "$confirmed" "$((t1 - t0))" "$secs" "$jobs" <<'E'
import json, sys
id, execs, cov, ft, corp, nart, conf, wall, secs, jobs = sys.argv[1:]
import os
p = os.environ.get("VERIF_ROOT", "/verif") + "/evidence/%s.json" % id
try:
    d = json.load(open(p))
except Exception:
    sys.exit(0)
d["coverage"]["fuzz"] = {
    "engine": "libFuzzer (cargo-fuzz), %s independent campaigns with different seeds, %s s budget each" % (jobs, secs),
    "target": "fz_c" + id[1:],
    "executions": int(execs), "edges_covered": int(cov), "features": int(ft), "corpus_files": int(corp),
    "artifacts": int(nart), "confirmed_violations": int(conf), "wall_s": int(wall),
    "note": "executions are cases decoded from mutated choice tapes and judged by the same oracle; artifacts are crash/oom/timeout inputs, each triaged by `svcheck %s thorough --tape`" % id,
}
d["violations"] = int(d.get("violations", 0)) + int(conf)
json.dump(d, open(p, "w"), indent=1)
E
exit $viol
