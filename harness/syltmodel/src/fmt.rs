//! Number formatting of the target (Lua 5.3 `tostring`): `%d` for ints, `%.14g` (+ ".0" when it looks like an
//! int) for floats. Written independently of mini-Lua on purpose.

/// C's `%.{p}g` for finite non-zero or zero values.
pub fn fmt_g(x: f64, p: usize) -> String {
    if x.is_nan() {
        return if x.is_sign_negative() { "-nan".into() } else { "nan".into() };
    }
    if x.is_infinite() {
        return if x < 0.0 { "-inf".into() } else { "inf".into() };
    }
    if x == 0.0 {
        return if x.is_sign_negative() { "-0".into() } else { "0".into() };
    }
    let p = p.max(1);
    let sci = format!("{:.*e}", p - 1, x);
    let (mant, exp) = sci.split_once('e').expect("exponent");
    let exp: i32 = exp.parse().expect("exp int");
    if exp >= -4 && exp < p as i32 {
        let prec = (p as i32 - 1 - exp).max(0) as usize;
        let s = format!("{:.*}", prec, x);
        strip_zeros(&s)
    } else {
        let m = strip_zeros(mant);
        let sign = if exp < 0 { '-' } else { '+' };
        format!("{}e{}{:02}", m, sign, exp.abs())
    }
}

fn strip_zeros(s: &str) -> String {
    if !s.contains('.') {
        return s.to_string();
    }
    let t = s.trim_end_matches('0');
    let t = t.trim_end_matches('.');
    t.to_string()
}

pub fn lua_float(x: f64) -> String {
    let s = fmt_g(x, 14);
    if s.bytes().all(|b| b == b'-' || b.is_ascii_digit()) {
        format!("{}.0", s)
    } else {
        s
    }
}

pub fn lua_int(i: i64) -> String {
    format!("{}", i)
}

/// exact comparison of an integer with a float (Lua 5.3 semantics): returns Some(ordering) or None for NaN
pub fn cmp_int_float(i: i64, f: f64) -> Option<std::cmp::Ordering> {
    use std::cmp::Ordering::*;
    if f.is_nan() {
        return None;
    }
    if f >= 9223372036854775808.0 {
        return Some(Less);
    }
    if f < -9223372036854775808.0 {
        return Some(Greater);
    }
    // f is within i64 range (as a real number)
    let fl = f.floor();
    let fi = fl as i64; // exact: fl is integral and in range
    if i < fi {
        Some(Less)
    } else if i > fi {
        Some(Greater)
    } else if f > fl {
        Some(Less)
    } else {
        Some(Equal)
    }
}

#[cfg(test)]
mod tests {
    use super::*;
    #[test]
    fn g14() {
        assert_eq!(lua_float(1.0), "1.0");
        assert_eq!(lua_float(-0.0), "-0.0");
        assert_eq!(lua_float(0.1), "0.1");
        assert_eq!(lua_float(100.0), "100.0");
        assert_eq!(lua_float(1e15), "1e+15");
        assert_eq!(lua_float(1e14), "1e+14");
        assert_eq!(lua_float(1e13), "10000000000000.0");
        assert_eq!(lua_float(9007199254740992.0), "9.007199254741e+15");
        assert_eq!(lua_float(1e100), "1e+100");
        assert_eq!(lua_float(1.0 / 3.0), "0.33333333333333");
        assert_eq!(lua_float(2.0 / 3.0), "0.66666666666667");
        assert_eq!(lua_float(1e-5), "1e-05");
        assert_eq!(lua_float(0.0001), "0.0001");
        assert_eq!(lua_float(123456.789), "123456.789");
        assert_eq!(lua_float(f64::INFINITY), "inf");
        assert_eq!(lua_float(3.14159265358979), "3.1415926535898");
        assert_eq!(lua_float(5e-324), "4.9406564584125e-324");
        assert_eq!(lua_float(0.5), "0.5");
        assert_eq!(lua_float(99999999999999.5), "1e+14");
    }
    #[test]
    fn cmp() {
        use std::cmp::Ordering::*;
        assert_eq!(cmp_int_float(9007199254740993, 9007199254740992.0), Some(Greater));
        assert_eq!(cmp_int_float(1, 1.5), Some(Less));
        assert_eq!(cmp_int_float(-1, -1.5), Some(Greater));
        assert_eq!(cmp_int_float(i64::MAX, 9223372036854775808.0), Some(Less));
        assert_eq!(cmp_int_float(2, 2.0), Some(Equal));
    }
}
