pub mod ast;
pub mod fmt;
pub mod gen;
pub mod interp;
pub mod plant;
pub mod print;
pub mod shrink;
pub mod walk;
