//! Planting: enumerate the places of a GenAST program where a statement can be inserted or an
//! expression replaced, with the context a planted construct needs (placement class, nesting, visible
//! variables, purity, loop), and apply an insertion / replacement at a chosen site.
use crate::ast::*;
use serde::{Deserialize, Serialize};

#[derive(Clone, Copy, Debug, PartialEq, Eq, Hash, Serialize, Deserialize, PartialOrd, Ord)]
pub enum Placement {
    /// directly in the body of a global function (incl. `start`)
    FnBody,
    /// in the body of a function literal nested in another function
    Closure,
    /// in a method (function-valued field of a blob literal)
    Method,
    /// in a branch of an if (statement or expression)
    Branch,
    /// in a case arm / else block
    CaseArm,
    /// in a loop body
    LoopBody,
    /// in a `do` block
    DoBlock,
    /// expression sites only: initialiser of a global value
    GlobalInit,
    /// expression sites only
    Argument,
    Operand,
    FieldInit,
    Condition,
    DefValue,
    Element,
    ReturnValue,
}

#[derive(Clone, Debug)]
pub struct Ctx {
    /// innermost placement
    pub placement: Placement,
    /// block/function nesting depth below the enclosing global function
    pub depth: usize,
    /// number of function literals entered below the global one
    pub closure_depth: usize,
    /// inside a `pu` function (at any depth)
    pub in_pure: bool,
    /// nesting depth (blocks) below the innermost `pu` function literal, when in_pure
    pub pure_depth: usize,
    /// inside a loop of the *same* function
    pub in_loop: bool,
    /// inside a loop of an *enclosing* function (but not of the current one)
    pub in_outer_loop_only: bool,
    /// return type of the innermost function
    pub ret: Ty,
    /// variables in scope (innermost last); globals are not listed
    pub scope: Vec<VarId>,
    /// the global whose definition contains the site
    pub global: VarId,
    /// the global function is called from somewhere (false = unused function)
    pub global_is_start: bool,
}

#[derive(Clone, Debug)]
pub struct StmtSite {
    pub ctx: Ctx,
    /// position inside its block (0 = before the first statement)
    pub pos: usize,
    pub block_len: usize,
}

#[derive(Clone, Debug)]
pub struct ExprSite {
    pub ctx: Ctx,
    pub ty: Ty,
    /// the expression currently there is a literal / variable (cheap to replace)
    pub is_leaf: bool,
}

enum Action<'a> {
    Collect { stmts: &'a mut Vec<StmtSite>, exprs: &'a mut Vec<ExprSite> },
    InsertStmt { target: usize, stmt: Option<Stmt>, counter: usize },
    ReplaceExpr { target: usize, expr: Option<Expr>, counter: usize },
    GetExpr { target: usize, out: Option<Expr>, counter: usize },
}

struct W<'a> {
    act: Action<'a>,
}

impl<'a> W<'a> {
    fn done(&self) -> bool {
        match &self.act {
            Action::Collect { .. } => false,
            Action::InsertStmt { stmt, .. } => stmt.is_none(),
            Action::ReplaceExpr { expr, .. } => expr.is_none(),
            Action::GetExpr { out, .. } => out.is_some(),
        }
    }

    fn block(&mut self, b: &mut Block, ctx: &mut Ctx) {
        let scope0 = ctx.scope.len();
        let mut i = 0;
        loop {
            // a statement site before statement i (and after the last one)
            match &mut self.act {
                Action::Collect { stmts, .. } => stmts.push(StmtSite { ctx: ctx.clone(), pos: i, block_len: b.stmts.len() }),
                Action::InsertStmt { target, stmt, counter } => {
                    if *counter == *target {
                        if let Some(s) = stmt.take() {
                            b.stmts.insert(i, s);
                        }
                        ctx.scope.truncate(scope0);
                        return;
                    }
                    *counter += 1;
                }
                Action::ReplaceExpr { .. } | Action::GetExpr { .. } => {}
            }
            if i >= b.stmts.len() {
                break;
            }
            // split borrow: take the statement out while we walk it
            let mut s = std::mem::replace(&mut b.stmts[i], Stmt::Break);
            self.stmt(&mut s, ctx);
            b.stmts[i] = s;
            if self.done() {
                ctx.scope.truncate(scope0);
                return;
            }
            i += 1;
        }
        if let Some(v) = &mut b.value {
            let saved = ctx.placement;
            ctx.placement = Placement::ReturnValue;
            self.expr(v, ctx);
            ctx.placement = saved;
        }
        ctx.scope.truncate(scope0);
    }

    fn nested_block(&mut self, b: &mut Block, ctx: &mut Ctx, placement: Placement) {
        let saved = (ctx.placement, ctx.depth, ctx.pure_depth);
        ctx.placement = placement;
        ctx.depth += 1;
        if ctx.in_pure {
            ctx.pure_depth += 1;
        }
        self.block(b, ctx);
        ctx.placement = saved.0;
        ctx.depth = saved.1;
        ctx.pure_depth = saved.2;
    }

    fn stmt(&mut self, s: &mut Stmt, ctx: &mut Ctx) {
        match s {
            Stmt::Def { var, value, .. } => {
                let is_fn = matches!(value.kind, EKind::Lambda(_));
                if is_fn {
                    ctx.scope.push(*var);
                }
                let saved = ctx.placement;
                ctx.placement = Placement::DefValue;
                self.expr(value, ctx);
                ctx.placement = saved;
                if !is_fn {
                    ctx.scope.push(*var);
                }
            }
            Stmt::Assign { target, value, .. } => {
                let saved = ctx.placement;
                ctx.placement = Placement::Operand;
                if let LValue::Field(o, _) = target {
                    self.expr(o, ctx);
                }
                ctx.placement = Placement::DefValue;
                if !self.done() {
                    self.expr(value, ctx);
                }
                ctx.placement = saved;
            }
            Stmt::Expr(x) => self.expr(x, ctx),
            Stmt::Loop { cond, body } => {
                if let Some(c) = cond {
                    let saved = ctx.placement;
                    ctx.placement = Placement::Condition;
                    self.expr(c, ctx);
                    ctx.placement = saved;
                }
                if !self.done() {
                    let saved = (ctx.in_loop, ctx.in_outer_loop_only);
                    ctx.in_loop = true;
                    ctx.in_outer_loop_only = false;
                    self.nested_block(body, ctx, Placement::LoopBody);
                    ctx.in_loop = saved.0;
                    ctx.in_outer_loop_only = saved.1;
                }
            }
            Stmt::Ret(Some(x)) => {
                let saved = ctx.placement;
                ctx.placement = Placement::ReturnValue;
                self.expr(x, ctx);
                ctx.placement = saved;
            }
            Stmt::Block(b) => self.nested_block(b, ctx, Placement::DoBlock),
            Stmt::Assert(a, b) => {
                let saved = ctx.placement;
                ctx.placement = Placement::Operand;
                self.expr(a, ctx);
                if !self.done() {
                    self.expr(b, ctx);
                }
                ctx.placement = saved;
            }
            Stmt::Break | Stmt::Continue | Stmt::Ret(None) | Stmt::Unreachable(_) | Stmt::Raw(_) => {}
        }
    }

    fn sub(&mut self, x: &mut Expr, ctx: &mut Ctx, placement: Placement) {
        if self.done() {
            return;
        }
        let saved = ctx.placement;
        ctx.placement = placement;
        self.expr(x, ctx);
        ctx.placement = saved;
    }

    fn expr(&mut self, x: &mut Expr, ctx: &mut Ctx) {
        if self.done() {
            return;
        }
        match &mut self.act {
            Action::Collect { exprs, .. } => {
                if x.ty != Ty::Void {
                    let is_leaf = matches!(x.kind, EKind::Int(_) | EKind::Float(_) | EKind::Str(_) | EKind::Bool(_) | EKind::Var(_));
                    exprs.push(ExprSite { ctx: ctx.clone(), ty: x.ty.clone(), is_leaf });
                }
            }
            Action::ReplaceExpr { target, expr, counter } => {
                if x.ty != Ty::Void {
                    if *counter == *target {
                        if let Some(e) = expr.take() {
                            *x = e;
                        }
                        return;
                    }
                    *counter += 1;
                }
            }
            Action::GetExpr { target, out, counter } => {
                if x.ty != Ty::Void {
                    if *counter == *target {
                        *out = Some(x.clone());
                        return;
                    }
                    *counter += 1;
                }
            }
            Action::InsertStmt { .. } => {}
        }
        match &mut x.kind {
            EKind::Int(_) | EKind::Float(_) | EKind::Str(_) | EKind::Bool(_) | EKind::Var(_) | EKind::MaybeNone | EKind::Raw(_) => {}
            EKind::Bin(_, a, b) | EKind::AssertEq(a, b) => {
                self.sub(a, ctx, Placement::Operand);
                self.sub(b, ctx, Placement::Operand);
            }
            EKind::Neg(a) | EKind::Not(a) | EKind::Field(a, _) | EKind::TupleIdx(a, _) | EKind::MaybeJust(a) | EKind::Mark(a) => {
                self.sub(a, ctx, Placement::Operand)
            }
            EKind::If(bs, d) => {
                for (c, b) in bs.iter_mut() {
                    self.sub(c, ctx, Placement::Condition);
                    if self.done() {
                        return;
                    }
                    self.nested_block(b, ctx, Placement::Branch);
                    if self.done() {
                        return;
                    }
                }
                if let Some(d) = d {
                    self.nested_block(d, ctx, Placement::Branch);
                }
            }
            EKind::Case { scrut, arms, default } => {
                self.sub(scrut, ctx, Placement::Condition);
                for a in arms.iter_mut() {
                    if self.done() {
                        return;
                    }
                    let n = ctx.scope.len();
                    if let Some(b) = a.bind {
                        ctx.scope.push(b);
                    }
                    self.nested_block(&mut a.body, ctx, Placement::CaseArm);
                    ctx.scope.truncate(n);
                }
                if let Some(d) = default {
                    if !self.done() {
                        self.nested_block(d, ctx, Placement::CaseArm);
                    }
                }
            }
            EKind::Call(f, args) => {
                self.sub(f, ctx, Placement::Operand);
                for a in args.iter_mut() {
                    self.sub(a, ctx, Placement::Argument);
                }
            }
            EKind::Std(_, args) => {
                for a in args.iter_mut() {
                    self.sub(a, ctx, Placement::Argument);
                }
            }
            EKind::Tuple(args) | EKind::List(args) => {
                for a in args.iter_mut() {
                    self.sub(a, ctx, Placement::Element);
                }
            }
            EKind::Lambda(def) => self.function(def, ctx, Placement::Closure),
            EKind::BlobNew { self_var, fields, .. } => {
                for (_, fx) in fields.iter_mut() {
                    if self.done() {
                        return;
                    }
                    if let EKind::Lambda(def) = &mut fx.kind {
                        let n = ctx.scope.len();
                        ctx.scope.push(*self_var);
                        self.function(def, ctx, Placement::Method);
                        ctx.scope.truncate(n);
                    } else {
                        self.sub(fx, ctx, Placement::FieldInit);
                    }
                }
            }
            EKind::Variant(_, _, p) => {
                if let Some(p) = p {
                    self.sub(p, ctx, Placement::Operand);
                }
            }
        }
    }

    fn function(&mut self, def: &mut FnDef, ctx: &mut Ctx, placement: Placement) {
        let saved = ctx.clone();
        ctx.scope.extend(def.params.iter().copied());
        ctx.placement = placement;
        ctx.depth += 1;
        ctx.closure_depth += 1;
        if def.pure && !ctx.in_pure {
            ctx.in_pure = true;
            ctx.pure_depth = 0;
        } else if ctx.in_pure {
            ctx.pure_depth += 1;
        }
        ctx.in_outer_loop_only = ctx.in_loop || ctx.in_outer_loop_only;
        ctx.in_loop = false;
        ctx.ret = def.ret.clone();
        self.block(&mut def.body, ctx);
        *ctx = saved;
    }

    fn program(&mut self, p: &mut Program) {
        let n = p.globals.len();
        for gi in 0..n {
            if self.done() {
                return;
            }
            let var = p.globals[gi].var;
            let is_start = p.var(var).name == "start";
            let mut value = std::mem::replace(&mut p.globals[gi].value, int(0));
            let mut ctx = Ctx {
                placement: Placement::GlobalInit,
                depth: 0,
                closure_depth: 0,
                in_pure: false,
                pure_depth: 0,
                in_loop: false,
                in_outer_loop_only: false,
                ret: Ty::Void,
                scope: Vec::new(),
                global: var,
                global_is_start: is_start,
            };
            if let EKind::Lambda(def) = &mut value.kind {
                ctx.scope.extend(def.params.iter().copied());
                ctx.placement = Placement::FnBody;
                ctx.in_pure = def.pure;
                ctx.ret = def.ret.clone();
                self.block(&mut def.body, &mut ctx);
            } else {
                self.expr(&mut value, &mut ctx);
            }
            p.globals[gi].value = value;
        }
    }
}

pub fn sites(p: &Program) -> (Vec<StmtSite>, Vec<ExprSite>) {
    let mut q = p.clone();
    let mut stmts = Vec::new();
    let mut exprs = Vec::new();
    {
        let mut w = W { act: Action::Collect { stmts: &mut stmts, exprs: &mut exprs } };
        w.program(&mut q);
    }
    (stmts, exprs)
}

pub fn insert_stmt(p: &Program, site: usize, stmt: Stmt) -> Program {
    let mut q = p.clone();
    let mut w = W { act: Action::InsertStmt { target: site, stmt: Some(stmt), counter: 0 } };
    w.program(&mut q);
    q
}

pub fn replace_expr(p: &Program, site: usize, expr: Expr) -> Program {
    let mut q = p.clone();
    let mut w = W { act: Action::ReplaceExpr { target: site, expr: Some(expr), counter: 0 } };
    w.program(&mut q);
    q
}

/// the expressions at all expression sites, in site order (clones)
pub fn exprs(p: &Program) -> Vec<Expr> {
    let (_, sites) = sites(p);
    (0..sites.len()).filter_map(|i| expr_at(p, i)).collect()
}

pub fn expr_at(p: &Program, site: usize) -> Option<Expr> {
    let mut q = p.clone();
    let mut w = W { act: Action::GetExpr { target: site, out: None, counter: 0 } };
    w.program(&mut q);
    match w.act {
        Action::GetExpr { out, .. } => out,
        _ => None,
    }
}

/// is the global function `g` referenced from another global (i.e. not an unused function)?
pub fn global_is_used(p: &Program, g: VarId) -> bool {
    let mut used = false;
    for other in &p.globals {
        if other.var == g {
            continue;
        }
        crate::walk::walk_expr(&other.value, &mut |e| {
            if let EKind::Var(v) = &e.kind {
                if *v == g {
                    used = true;
                }
            }
        });
    }
    used
}
