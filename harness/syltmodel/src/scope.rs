//! Independent model of Sylt's lexical name resolution over GenAST, used to build consistent renamings:
//! an identifier refers to the innermost enclosing declaration of that name visible at that point
//! (parameters, block-, branch-, arm- and loop-local variables, case bindings; a function-valued
//! definition is visible in its own body, any other local only after its definition), then module globals.
use crate::ast::*;
use crate::print::{STD_NAMES, SYLT_KEYWORDS};
use std::collections::HashMap;
use vcore::Tape;

struct R<'a> {
    p: &'a Program,
    names: &'a [String],
    globals: HashMap<&'a str, VarId>,
    stack: Vec<VarId>,
    ok: bool,
    /// number of references that resolve *past* at least one same-named outer/earlier binder still on the stack
    pub shadowed_refs: usize,
    pub max_shadow_depth: usize,
}

impl<'a> R<'a> {
    fn name(&self, v: VarId) -> &'a str {
        if self.p.var(v).kind == VarKind::SelfVar {
            "self"
        } else {
            &self.names[v as usize]
        }
    }
    fn reference(&mut self, v: VarId) {
        let n = self.name(v);
        let mut same = 0;
        let mut found: Option<VarId> = None;
        for &b in self.stack.iter().rev() {
            if self.name(b) == n {
                if found.is_none() {
                    found = Some(b);
                }
                same += 1;
            }
        }
        match found {
            Some(b) => {
                if b != v {
                    self.ok = false;
                }
                let hidden = same - 1 + if self.globals.contains_key(n) { 1 } else { 0 };
                if hidden > 0 {
                    self.shadowed_refs += 1;
                    self.max_shadow_depth = self.max_shadow_depth.max(self.stack.len());
                }
            }
            None => match self.globals.get(n) {
                Some(g) if *g == v => {}
                _ => self.ok = false,
            },
        }
    }
    fn block(&mut self, b: &Block) {
        let n = self.stack.len();
        for s in &b.stmts {
            self.stmt(s);
        }
        if let Some(v) = &b.value {
            self.expr(v);
        }
        self.stack.truncate(n);
    }
    fn stmt(&mut self, s: &Stmt) {
        match s {
            Stmt::Def { var, value, .. } => {
                if matches!(value.kind, EKind::Lambda(_)) {
                    self.stack.push(*var);
                    self.expr(value);
                } else {
                    self.expr(value);
                    self.stack.push(*var);
                }
            }
            Stmt::Assign { target, value, .. } => {
                // the compiler resolves the value first, then the target
                self.expr(value);
                match target {
                    LValue::Var(v) => self.reference(*v),
                    LValue::Field(o, _) => self.expr(o),
                }
            }
            Stmt::Expr(x) => self.expr(x),
            Stmt::Loop { cond, body } => {
                if let Some(c) = cond {
                    self.expr(c);
                }
                self.block(body);
            }
            Stmt::Ret(Some(x)) => self.expr(x),
            Stmt::Block(b) => self.block(b),
            Stmt::Assert(a, b) => {
                self.expr(a);
                self.expr(b);
            }
            Stmt::Break | Stmt::Continue | Stmt::Ret(None) | Stmt::Unreachable(_) | Stmt::Raw(_) => {}
        }
    }
    fn expr(&mut self, x: &Expr) {
        match &x.kind {
            EKind::Int(_) | EKind::Float(_) | EKind::Str(_) | EKind::Bool(_) | EKind::MaybeNone | EKind::Raw(_) => {}
            EKind::Var(v) => self.reference(*v),
            EKind::Bin(_, a, b) | EKind::AssertEq(a, b) => {
                self.expr(a);
                self.expr(b);
            }
            EKind::Neg(a) | EKind::Not(a) | EKind::Field(a, _) | EKind::TupleIdx(a, _) | EKind::MaybeJust(a) | EKind::Mark(a) => self.expr(a),
            EKind::If(bs, d) => {
                for (c, b) in bs {
                    self.expr(c);
                    self.block(b);
                }
                if let Some(d) = d {
                    self.block(d);
                }
            }
            EKind::Case { scrut, arms, default } => {
                self.expr(scrut);
                for a in arms {
                    let n = self.stack.len();
                    if let Some(b) = a.bind {
                        self.stack.push(b);
                    }
                    self.block(&a.body);
                    self.stack.truncate(n);
                }
                if let Some(d) = default {
                    self.block(d);
                }
            }
            EKind::Call(f, args) => {
                self.expr(f);
                for a in args {
                    self.expr(a);
                }
            }
            EKind::Std(_, args) | EKind::Tuple(args) | EKind::List(args) => {
                for a in args {
                    self.expr(a);
                }
            }
            EKind::Lambda(def) => {
                let n = self.stack.len();
                for p in &def.params {
                    self.stack.push(*p);
                }
                self.block(&def.body);
                self.stack.truncate(n);
            }
            EKind::BlobNew { self_var, fields, .. } => {
                for (_, fx) in fields {
                    let n = self.stack.len();
                    if matches!(fx.kind, EKind::Lambda(_)) {
                        self.stack.push(*self_var);
                    }
                    self.expr(fx);
                    self.stack.truncate(n);
                }
            }
            EKind::Variant(_, _, p) => {
                if let Some(p) = p {
                    self.expr(p);
                }
            }
        }
    }
}

pub struct ScopeReport {
    pub ok: bool,
    pub shadowed_refs: usize,
    pub max_shadow_depth: usize,
}

/// Do all references resolve, by name, to their intended binders under `names`?
pub fn check(p: &Program, names: &[String]) -> ScopeReport {
    let mut globals: HashMap<&str, VarId> = HashMap::new();
    let mut ok = true;
    for g in &p.globals {
        let n = names[g.var as usize].as_str();
        if globals.insert(n, g.var).is_some() {
            ok = false; // duplicate global names are an error in Sylt
        }
    }
    let mut r = R { p, names, globals, stack: Vec::new(), ok, shadowed_refs: 0, max_shadow_depth: 0 };
    for g in &p.globals {
        r.stack.clear();
        r.expr(&g.value);
    }
    // parameters of one function must be pairwise distinct
    crate::walk::walk_program(p, &mut |e| {
        if let EKind::Lambda(d) = &e.kind {
            for i in 0..d.params.len() {
                for j in 0..i {
                    if names[d.params[i] as usize] == names[d.params[j] as usize] {
                        r.ok = false;
                    }
                }
            }
        }
    });
    ScopeReport { ok: r.ok, shadowed_refs: r.shadowed_refs, max_shadow_depth: r.max_shadow_depth }
}

/// all binders that may be renamed (everything except `start` and `self`)
pub fn renamable(p: &Program) -> Vec<VarId> {
    let mut used = vec![false; p.vars.len()];
    for g in &p.globals {
        used[g.var as usize] = true;
    }
    fn blk(b: &Block, used: &mut Vec<bool>) {
        for s in &b.stmts {
            match s {
                Stmt::Def { var, .. } => used[*var as usize] = true,
                Stmt::Loop { body, .. } => blk(body, used),
                Stmt::Block(b) => blk(b, used),
                _ => {}
            }
        }
    }
    crate::walk::walk_program(p, &mut |e| match &e.kind {
        EKind::Lambda(d) => {
            for p in &d.params {
                used[*p as usize] = true;
            }
            blk(&d.body, &mut used);
        }
        EKind::If(bs, d) => {
            for (_, b) in bs {
                blk(b, &mut used);
            }
            if let Some(d) = d {
                blk(d, &mut used);
            }
        }
        EKind::Case { arms, default, .. } => {
            for a in arms {
                if let Some(b) = a.bind {
                    used[b as usize] = true;
                }
                blk(&a.body, &mut used);
            }
            if let Some(d) = default {
                blk(d, &mut used);
            }
        }
        _ => {}
    });
    (0..p.vars.len() as VarId)
        .filter(|v| used[*v as usize] && p.var(*v).kind != VarKind::SelfVar && p.var(*v).name != "start")
        .collect()
}

/// maximal legal shadowing, greedily: every binder tries to take the name of another binder
pub fn shadow_plan(t: &mut Tape, p: &Program) -> (Vec<String>, usize) {
    let mut names: Vec<String> = p.vars.iter().map(|v| v.name.clone()).collect();
    let ren = renamable(p);
    if ren.is_empty() {
        return (names, 0);
    }
    let mut renamed = 0;
    // a few fresh-but-odd names as well
    let extra = ["x", "i", "tmp", "value", "a1", "_q", "n"];
    let rounds = ren.len() * 2;
    for _ in 0..rounds {
        let b = *t.pick(&ren);
        let cand: String = if t.chance(1, 6) {
            extra[t.below(extra.len())].to_string()
        } else {
            let o = *t.pick(&ren);
            if o == b {
                continue;
            }
            names[o as usize].clone()
        };
        if cand == names[b as usize] || SYLT_KEYWORDS.contains(&cand.as_str()) || STD_NAMES.contains(&cand.as_str()) {
            continue;
        }
        // type / variant names start with an upper-case letter, case captures with a lower-case one
        let old = std::mem::replace(&mut names[b as usize], cand);
        if check(p, &names).ok {
            renamed += 1;
        } else {
            names[b as usize] = old;
        }
    }
    (names, renamed)
}

