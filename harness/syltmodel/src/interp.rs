//! Reference interpreter for GenAST: the independent definition of "what the source denotes".
//! Values are tagged, every primitive checks its operand tags (strict), closures capture binder->cell
//! snapshots (by reference cells), every activation / loop iteration allocates fresh cells.
//! Reads of mutable *locations* (fields, compound-assignment targets) whose timing relative to a later
//! write inside the same sequence region is unspecified are detected dynamically (`ambiguous`).
use crate::ast::*;
use crate::fmt::{cmp_int_float, lua_float};
use std::collections::HashMap;
use std::rc::Rc;

#[derive(Clone, Debug)]
pub enum Val {
    Nil,
    Void,
    Int(i64),
    Float(f64),
    Str(Rc<str>),
    Bool(bool),
    Tuple(Rc<Vec<Val>>),
    List(u32),
    Blob(u32),
    Variant(Rc<str>, Option<Rc<Val>>),
    Closure(u32),
}

impl Val {
    pub fn tag(&self) -> &'static str {
        match self {
            Val::Nil => "nil",
            Val::Void => "void",
            Val::Int(_) => "int",
            Val::Float(_) => "float",
            Val::Str(_) => "str",
            Val::Bool(_) => "bool",
            Val::Tuple(_) => "tuple",
            Val::List(_) => "list",
            Val::Blob(_) => "blob",
            Val::Variant(..) => "variant",
            Val::Closure(_) => "fn",
        }
    }
}

#[derive(Clone, Debug, PartialEq)]
pub enum Stop {
    AssertFailed,
    Unreachable(u32),
    /// dynamic type error: (kind, description)
    Dyn(String, String),
    Budget(String),
}

pub enum Abort {
    Break,
    Continue,
    Return(Val),
    Stop(Stop),
}
type R<T> = Result<T, Abort>;

fn dynerr<T>(kind: &str, what: String) -> R<T> {
    if what == "__budget_memory__" {
        return Err(Abort::Stop(Stop::Budget("memory".into())));
    }
    Err(Abort::Stop(Stop::Dyn(kind.to_string(), what)))
}

#[derive(Clone, Copy, PartialEq, Eq, Debug)]
enum Loc {
    Cell(u32),
    Field(u32, u32), // blob id, field slot
}

struct Closure<'p> {
    def: &'p FnDef,
    env: Vec<(VarId, u32)>,
}

pub const COV_NAMES: [&str; 24] = [
    "int-arith", "float-arith", "str-concat", "tuple-arith", "compare", "tuple-compare", "and-or", "if-expr",
    "if-stmt", "case", "loop", "break", "continue", "early-ret", "user-call", "closure-call", "captured-write",
    "blob-field", "method-self", "enum-variant", "list-op", "global-write", "recursion", "higher-order",
];
#[derive(Clone, Copy)]
#[repr(usize)]
pub enum Cov {
    IntArith, FloatArith, StrConcat, TupleArith, Compare, TupleCompare, AndOr, IfExpr,
    IfStmt, Case, Loop, Break, Continue, EarlyRet, UserCall, ClosureCall, CapturedWrite,
    BlobField, MethodSelf, EnumVariant, ListOp, GlobalWrite, Recursion, HigherOrder,
}

/// A heap object as seen by the initialisation-order analysis.
#[derive(Clone, Copy, PartialEq, Eq, Hash, Debug)]
enum Obj {
    Cell(u32),
    Blob(u32),
    List(u32),
}

/// Which global initialiser touched which heap object. The language fixes the order of two initialisers only
/// when one depends on the other; an object that one initialiser *mutates* (without having created it) and
/// another initialiser reads or mutates makes the program's meaning depend on an order the language leaves
/// open, and so do two initialisers that both print. Conservative: dependencies between the two are not looked at.
#[derive(Default)]
struct InitLog {
    /// index of the initialiser being run (None: before / after initialisation)
    current: Option<usize>,
    n_globals: usize,
    /// (cells, blobs, lists) allocated before initialiser i started
    starts: Vec<(usize, usize, usize)>,
    mutated: HashMap<Obj, usize>,
    read: HashMap<Obj, Vec<usize>>,
    printed_by: Vec<usize>,
    conflict: bool,
}

impl InitLog {
    fn creator(&self, o: Obj) -> Option<usize> {
        let (id, which) = match o {
            Obj::Cell(c) => {
                if (c as usize) < self.n_globals {
                    return Some(c as usize);
                }
                (c as usize, 0)
            }
            Obj::Blob(b) => (b as usize, 1),
            Obj::List(l) => (l as usize, 2),
        };
        let mut owner = None;
        for (i, st) in self.starts.iter().enumerate() {
            let start = [st.0, st.1, st.2][which];
            if id >= start {
                owner = Some(i);
            }
        }
        owner
    }
    fn touch(&mut self, o: Obj, write: bool) {
        let cur = match self.current {
            Some(c) => c,
            None => return,
        };
        if self.creator(o) == Some(cur) {
            return;
        }
        if write {
            match self.mutated.get(&o) {
                Some(x) if *x != cur => self.conflict = true,
                Some(_) => {}
                None => {
                    self.mutated.insert(o, cur);
                }
            }
            if self.read.get(&o).map(|r| r.iter().any(|y| *y != cur)).unwrap_or(false) {
                self.conflict = true;
            }
        } else {
            if matches!(self.mutated.get(&o), Some(x) if *x != cur) {
                self.conflict = true;
            }
            let r = self.read.entry(o).or_default();
            if !r.contains(&cur) {
                r.push(cur);
            }
        }
    }
}

pub struct Interp<'p> {
    init: std::cell::RefCell<InitLog>,
    p: &'p Program,
    cells: Vec<Val>,
    cell_owner: Vec<u32>, // activation id that created the cell
    lists: Vec<Vec<Val>>,
    blobs: Vec<(usize, Vec<(String, Val)>)>,
    closures: Vec<Closure<'p>>,
    globals: HashMap<VarId, u32>,
    pub out: Vec<String>,
    pub steps: u64,
    pub max_steps: u64,
    str_bytes: usize,
    depth: usize,
    pub max_depth: usize,
    activation: u32,
    next_activation: u32,
    active_defs: Vec<*const FnDef>,
    outstanding: Vec<Loc>,
    iterating: Vec<u32>,
    pub ambiguous: bool,
    pub nan_seen: bool,
    nan_compared: std::cell::Cell<bool>,
    pub unprintable_seen: bool,
    pub cov: [u32; 24],
    /// C10 classification: a value held while a re-entrant call of the same function ran
    pub held_across_reentry: u32,
    /// closures invoked after the activation/iteration that created them has ended
    pub escaped_closure_calls: u32,
    activation_live: Vec<bool>,
    closure_born_in: Vec<u32>,
    /// number of compound expressions currently holding already-evaluated operands
    pending: u32,
    pub mark_hits: u32,
}

pub struct RunResult {
    pub out: Vec<String>,
    pub stop: Option<Stop>,
    pub ambiguous: bool,
    pub nan_seen: bool,
    pub unprintable_seen: bool,
    pub steps: u64,
    pub cov: [u32; 24],
    pub held_across_reentry: u32,
    pub escaped_closure_calls: u32,
    pub mark_hits: u32,
}

pub fn run_program(p: &Program, max_steps: u64) -> RunResult {
    let mut it = Interp::new(p, max_steps);
    let stop = it.run();
    RunResult {
        out: std::mem::take(&mut it.out),
        stop,
        ambiguous: it.ambiguous,
        nan_seen: it.nan_seen || it.nan_compared.get(),
        unprintable_seen: it.unprintable_seen,
        steps: it.steps,
        cov: it.cov,
        held_across_reentry: it.held_across_reentry,
        escaped_closure_calls: it.escaped_closure_calls,
        mark_hits: it.mark_hits,
    }
}

impl<'p> Interp<'p> {
    pub fn new(p: &'p Program, max_steps: u64) -> Self {
        Interp {
            init: std::cell::RefCell::new(InitLog::default()),
            p,
            cells: Vec::new(),
            cell_owner: Vec::new(),
            lists: Vec::new(),
            blobs: Vec::new(),
            closures: Vec::new(),
            globals: HashMap::new(),
            out: Vec::new(),
            steps: 0,
            max_steps,
            str_bytes: 0,
            depth: 0,
            max_depth: 120,
            activation: 0,
            next_activation: 1,
            active_defs: Vec::new(),
            outstanding: Vec::new(),
            iterating: Vec::new(),
            ambiguous: false,
            nan_seen: false,
            nan_compared: std::cell::Cell::new(false),
            unprintable_seen: false,
            cov: [0; 24],
            held_across_reentry: 0,
            escaped_closure_calls: 0,
            activation_live: vec![true],
            closure_born_in: Vec::new(),
            pending: 0,
            mark_hits: 0,
        }
    }

    fn hit(&mut self, c: Cov) {
        self.cov[c as usize] += 1;
    }

    fn step(&mut self) -> R<()> {
        self.steps += 1;
        if self.steps > self.max_steps {
            return Err(Abort::Stop(Stop::Budget("steps".into())));
        }
        Ok(())
    }

    fn new_cell(&mut self, v: Val) -> u32 {
        self.cells.push(v);
        self.cell_owner.push(self.activation);
        (self.cells.len() - 1) as u32
    }

    /// Run all global initialisers in the program's order, then call `start`.
    pub fn run(&mut self) -> Option<Stop> {
        let p = self.p;
        // every global gets its cell up front (functions may refer to later globals)
        for g in &p.globals {
            let c = self.new_cell(Val::Nil);
            self.globals.insert(g.var, c);
        }
        let mut start = None;
        self.init.borrow_mut().n_globals = p.globals.len();
        for (gi, g) in p.globals.iter().enumerate() {
            {
                let mut log = self.init.borrow_mut();
                log.current = Some(gi);
                log.starts.push((self.cells.len(), self.blobs.len(), self.lists.len()));
            }
            let mut frame = Vec::new();
            let mark = self.outstanding.len();
            let r = self.eval(&g.value, &mut frame);
            self.outstanding.truncate(mark);
            self.init.borrow_mut().current = None;
            match r {
                Ok(v) => {
                    let c = self.globals[&g.var];
                    self.cells[c as usize] = v;
                    if p.var(g.var).name == "start" {
                        start = Some(c);
                    }
                }
                Err(Abort::Stop(s)) => return Some(s),
                Err(_) => return Some(Stop::Dyn("control".into(), "break/continue/ret at top level".into())),
            }
        }
        if self.init.borrow().conflict {
            self.ambiguous = true;
        }
        let start = match start {
            Some(c) => self.cells[c as usize].clone(),
            None => return Some(Stop::Dyn("no-start".into(), "no start".into())),
        };
        match self.call_value(start, Vec::new()) {
            Ok(_) => None,
            Err(Abort::Stop(s)) => Some(s),
            Err(_) => Some(Stop::Dyn("control".into(), "break/continue escaped start".into())),
        }
    }

    fn lookup(&self, v: VarId, frame: &[(VarId, u32)]) -> Option<u32> {
        for (id, c) in frame.iter().rev() {
            if *id == v {
                return Some(*c);
            }
        }
        self.globals.get(&v).copied()
    }

    fn write_cell(&mut self, c: u32, v: Val) {
        self.init.borrow_mut().touch(Obj::Cell(c), true);
        if self.outstanding.contains(&Loc::Cell(c)) {
            self.ambiguous = true;
        }
        if self.cell_owner[c as usize] != self.activation {
            if self.cell_owner[c as usize] == 0 {
                self.hit(Cov::GlobalWrite);
            } else {
                self.hit(Cov::CapturedWrite);
            }
        }
        self.cells[c as usize] = v;
    }

    fn field_slot(&self, blob: u32, name: &str) -> Option<usize> {
        self.blobs[blob as usize].1.iter().position(|(n, _)| n == name)
    }

    pub fn to_str(&mut self, v: &Val) -> String {
        match v {
            Val::Nil | Val::Void => "nil".into(),
            Val::Int(i) => format!("{}", i),
            Val::Float(f) => {
                if f.is_nan() {
                    self.nan_seen = true;
                }
                lua_float(*f)
            }
            Val::Str(s) => s.to_string(),
            Val::Bool(b) => format!("{}", b),
            Val::Tuple(xs) => {
                let parts: Vec<String> = xs.iter().map(|x| self.to_str(x)).collect();
                if parts.len() == 1 {
                    format!("({},)", parts[0])
                } else {
                    format!("({})", parts.join(", "))
                }
            }
            Val::List(l) => {
                self.init.borrow_mut().touch(Obj::List(*l), false);
                let items = self.lists[*l as usize].clone();
                let parts: Vec<String> = items.iter().map(|x| self.to_str(x)).collect();
                format!("[{}]", parts.join(", "))
            }
            Val::Variant(tag, payload) => {
                let p = match payload {
                    Some(x) => self.to_str(x),
                    None => "nil".to_string(),
                };
                format!("{} {}", tag, p)
            }
            Val::Blob(_) => {
                self.unprintable_seen = true;
                "blob {...}".into()
            }
            Val::Closure(_) => {
                self.unprintable_seen = true;
                "function".into()
            }
        }
    }

    fn val_eq(&self, a: &Val, b: &Val) -> bool {
        match (a, b) {
            (Val::Nil, Val::Nil) | (Val::Void, Val::Void) => true,
            (Val::Int(x), Val::Int(y)) => x == y,
            (Val::Float(x), Val::Float(y)) => {
                // NaN inside compared values: whether two references to the same composite value are equal depends on
                // identity short cuts of the runtime, which the language does not specify
                if x.is_nan() || y.is_nan() {
                    self.nan_compared.set(true);
                }
                x == y
            }
            (Val::Int(x), Val::Float(y)) | (Val::Float(y), Val::Int(x)) => {
                cmp_int_float(*x, *y) == Some(std::cmp::Ordering::Equal)
            }
            (Val::Str(x), Val::Str(y)) => x == y,
            (Val::Bool(x), Val::Bool(y)) => x == y,
            (Val::Tuple(x), Val::Tuple(y)) => {
                x.len() == y.len() && x.iter().zip(y.iter()).all(|(a, b)| self.val_eq(a, b))
            }
            (Val::List(x), Val::List(y)) => {
                if x == y {
                    return true;
                }
                self.init.borrow_mut().touch(Obj::List(*x), false);
                self.init.borrow_mut().touch(Obj::List(*y), false);
                let (lx, ly) = (&self.lists[*x as usize], &self.lists[*y as usize]);
                lx.len() == ly.len() && lx.iter().zip(ly.iter()).all(|(a, b)| self.val_eq(a, b))
            }
            (Val::Blob(x), Val::Blob(y)) => {
                if x == y {
                    return true;
                }
                self.init.borrow_mut().touch(Obj::Blob(*x), false);
                self.init.borrow_mut().touch(Obj::Blob(*y), false);
                let (bx, by) = (&self.blobs[*x as usize], &self.blobs[*y as usize]);
                bx.1.len() == by.1.len()
                    && bx.1.iter().all(|(n, v)| by.1.iter().any(|(m, w)| n == m && self.val_eq(v, w)))
            }
            (Val::Variant(t1, p1), Val::Variant(t2, p2)) => {
                t1 == t2
                    && match (p1, p2) {
                        (None, None) => true,
                        (Some(a), Some(b)) => self.val_eq(a, b),
                        _ => false,
                    }
            }
            (Val::Closure(x), Val::Closure(y)) => x == y,
            _ => false,
        }
    }

    /// strict `<` ; Err = dynamic type error
    fn val_lt(&self, a: &Val, b: &Val) -> Result<bool, String> {
        use std::cmp::Ordering::*;
        match (a, b) {
            (Val::Int(x), Val::Int(y)) => Ok(x < y),
            (Val::Float(x), Val::Float(y)) => {
                if x.is_nan() || y.is_nan() {
                    self.nan_compared.set(true);
                }
                Ok(x < y)
            }
            (Val::Int(x), Val::Float(y)) => Ok(cmp_int_float(*x, *y) == Some(Less)),
            (Val::Float(x), Val::Int(y)) => Ok(cmp_int_float(*y, *x) == Some(Greater)),
            (Val::Str(x), Val::Str(y)) => Ok(x.as_bytes() < y.as_bytes()),
            (Val::Tuple(x), Val::Tuple(y)) => {
                if x.len() != y.len() {
                    return Err("tuple length mismatch in <".into());
                }
                for (p, q) in x.iter().zip(y.iter()) {
                    if !self.val_eq(p, q) {
                        return self.val_lt(p, q);
                    }
                }
                Ok(false)
            }
            _ => Err(format!("{} < {}", a.tag(), b.tag())),
        }
    }
    fn val_le(&self, a: &Val, b: &Val) -> Result<bool, String> {
        use std::cmp::Ordering::*;
        match (a, b) {
            (Val::Int(x), Val::Int(y)) => Ok(x <= y),
            (Val::Float(x), Val::Float(y)) => Ok(x <= y),
            (Val::Int(x), Val::Float(y)) => Ok(matches!(cmp_int_float(*x, *y), Some(Less) | Some(Equal))),
            (Val::Float(x), Val::Int(y)) => Ok(matches!(cmp_int_float(*y, *x), Some(Greater) | Some(Equal))),
            (Val::Str(x), Val::Str(y)) => Ok(x.as_bytes() <= y.as_bytes()),
            (Val::Tuple(x), Val::Tuple(y)) => {
                if x.len() != y.len() {
                    return Err("tuple length mismatch in <=".into());
                }
                for (p, q) in x.iter().zip(y.iter()) {
                    if !self.val_eq(p, q) {
                        return self.val_lt(p, q);
                    }
                }
                Ok(true)
            }
            _ => Err(format!("{} <= {}", a.tag(), b.tag())),
        }
    }

    fn arith(&mut self, op: BinOp, a: &Val, b: &Val) -> Result<Val, String> {
        match (a, b) {
            (Val::Int(x), Val::Int(y)) => {
                self.hit(Cov::IntArith);
                Ok(match op {
                    BinOp::Add => Val::Int(x.wrapping_add(*y)),
                    BinOp::Sub => Val::Int(x.wrapping_sub(*y)),
                    BinOp::Mul => Val::Int(x.wrapping_mul(*y)),
                    BinOp::Div => Val::Float(*x as f64 / *y as f64),
                    _ => unreachable!(),
                })
            }
            (Val::Float(_), Val::Float(_)) | (Val::Int(_), Val::Float(_)) | (Val::Float(_), Val::Int(_)) => {
                let x = match a {
                    Val::Int(i) => *i as f64,
                    Val::Float(f) => *f,
                    _ => unreachable!(),
                };
                let y = match b {
                    Val::Int(i) => *i as f64,
                    Val::Float(f) => *f,
                    _ => unreachable!(),
                };
                // mixed int/float arithmetic is not typeable except for `/`
                if !matches!((a, b), (Val::Float(_), Val::Float(_))) && op != BinOp::Div {
                    return Err(format!("{} {} {}", a.tag(), op.text(), b.tag()));
                }
                self.hit(Cov::FloatArith);
                Ok(Val::Float(match op {
                    BinOp::Add => x + y,
                    BinOp::Sub => x - y,
                    BinOp::Mul => x * y,
                    BinOp::Div => x / y,
                    _ => unreachable!(),
                }))
            }
            (Val::Str(x), Val::Str(y)) if op == BinOp::Add => {
                self.hit(Cov::StrConcat);
                self.str_bytes += x.len() + y.len();
                if x.len() + y.len() > (1 << 20) || self.str_bytes > (32 << 20) {
                    return Err("__budget_memory__".into());
                }
                Ok(Val::Str(Rc::from(format!("{}{}", x, y))))
            }
            (Val::Tuple(x), Val::Tuple(y)) => {
                if x.len() != y.len() {
                    return Err("tuple length mismatch".into());
                }
                self.hit(Cov::TupleArith);
                let mut out = Vec::with_capacity(x.len());
                for (p, q) in x.iter().zip(y.iter()) {
                    // `+` concatenates string elements (as on plain strings); other operators reject them below
                    out.push(self.arith(op, p, q)?);
                }
                Ok(Val::Tuple(Rc::new(out)))
            }
            (Val::Tuple(x), Val::Int(_) | Val::Float(_)) if op == BinOp::Div => {
                self.hit(Cov::TupleArith);
                let mut out = Vec::with_capacity(x.len());
                for p in x.iter() {
                    out.push(self.arith(op, p, b)?);
                }
                Ok(Val::Tuple(Rc::new(out)))
            }
            _ => Err(format!("{} {} {}", a.tag(), op.text(), b.tag())),
        }
    }

    fn truthy(&self, v: &Val, what: &str) -> R<bool> {
        match v {
            Val::Bool(b) => Ok(*b),
            other => dynerr("cond-non-bool", format!("{} is {} not bool", what, other.tag())),
        }
    }

    pub fn call_value(&mut self, f: Val, args: Vec<Val>) -> R<Val> {
        let cid = match f {
            Val::Closure(c) => c,
            other => return dynerr("call-non-fn", format!("calling a {}", other.tag())),
        };
        self.step()?;
        let def = self.closures[cid as usize].def;
        if def.params.len() != args.len() {
            return dynerr("arity", format!("expected {} args, got {}", def.params.len(), args.len()));
        }
        if self.depth >= self.max_depth {
            return Err(Abort::Stop(Stop::Budget("stack".into())));
        }
        let born = self.closure_born_in[cid as usize];
        if !self.activation_live[born as usize] {
            self.escaped_closure_calls += 1;
        }
        let reentrant = self.active_defs.iter().any(|d| *d == def as *const FnDef);
        if reentrant {
            self.hit(Cov::Recursion);
            if self.pending > 0 {
                self.held_across_reentry += 1;
            }
        }
        let mut frame = self.closures[cid as usize].env.clone();
        let saved_act = self.activation;
        self.activation = self.next_activation;
        self.next_activation += 1;
        self.activation_live.push(true);
        let my_act = self.activation;
        for (pv, a) in def.params.iter().zip(args.into_iter()) {
            let c = self.new_cell(a);
            frame.push((*pv, c));
        }
        self.depth += 1;
        self.active_defs.push(def as *const FnDef);
        // the caller's outstanding (deferred) reads stay visible: a write to one of those locations inside
        // the callee makes the case order-ambiguous
        let out_mark = self.outstanding.len();
        let r = self.exec_block(&def.body, &mut frame);
        self.outstanding.truncate(out_mark);
        self.active_defs.pop();
        self.depth -= 1;
        self.activation_live[my_act as usize] = false;
        self.activation = saved_act;
        match r {
            Ok(v) => Ok(v.unwrap_or(Val::Void)),
            Err(Abort::Return(v)) => Ok(v),
            Err(Abort::Break) | Err(Abort::Continue) => {
                dynerr("control", "break/continue escaped a function".into())
            }
            Err(e) => Err(e),
        }
    }

    /// executes a block in a nested scope; returns the block's value (if it has a value expression)
    fn exec_block(&mut self, b: &'p Block, frame: &mut Vec<(VarId, u32)>) -> R<Option<Val>> {
        let scope = frame.len();
        let r = self.exec_block_inner(b, frame);
        frame.truncate(scope);
        r
    }

    fn exec_block_inner(&mut self, b: &'p Block, frame: &mut Vec<(VarId, u32)>) -> R<Option<Val>> {
        for s in &b.stmts {
            let mark = self.outstanding.len();
            let r = self.exec_stmt(s, frame);
            self.outstanding.truncate(mark);
            r?;
        }
        if let Some(v) = &b.value {
            let mark = self.outstanding.len();
            let r = self.eval(v, frame);
            self.outstanding.truncate(mark);
            return Ok(Some(r?));
        }
        Ok(None)
    }

    fn exec_stmt(&mut self, s: &'p Stmt, frame: &mut Vec<(VarId, u32)>) -> R<()> {
        self.step()?;
        match s {
            Stmt::Def { var, value, .. } => {
                if matches!(value.kind, EKind::Lambda(_)) {
                    let c = self.new_cell(Val::Nil);
                    frame.push((*var, c));
                    let v = self.eval(value, frame)?;
                    self.cells[c as usize] = v;
                } else {
                    let v = self.eval(value, frame)?;
                    if matches!(v, Val::Void) {
                        return dynerr("void-value", "void stored in a variable".into());
                    }
                    let c = self.new_cell(v);
                    frame.push((*var, c));
                }
                Ok(())
            }
            Stmt::Assign { target, op, value } => {
                match target {
                    LValue::Var(v) => {
                        let c = match self.lookup(*v, frame) {
                            Some(c) => c,
                            None => return dynerr("unbound", format!("assignment to unbound variable #{}", v)),
                        };
                        if *op == AssignOp::Set {
                            let val = self.eval(value, frame)?;
                            self.write_cell(c, val);
                        } else {
                            let mark = self.outstanding.len();
                            self.outstanding.push(Loc::Cell(c));
                            let rhs = self.eval(value, frame);
                            self.outstanding.truncate(mark);
                            let rhs = rhs?;
                            let cur = self.cells[c as usize].clone();
                            let bop = assign_binop(*op);
                            let res = match self.arith(bop, &cur, &rhs) {
                                Ok(v) => v,
                                Err(e) => return dynerr("arith", e),
                            };
                            self.write_cell(c, res);
                        }
                    }
                    LValue::Field(obj, name) => {
                        let o = self.eval(obj, frame)?;
                        let b = match o {
                            Val::Blob(b) => b,
                            other => return dynerr("field", format!("field .{} of a {}", name, other.tag())),
                        };
                        let slot = match self.field_slot(b, name) {
                            Some(s) => s,
                            None => return dynerr("field", format!("blob has no field {}", name)),
                        };
                        self.hit(Cov::BlobField);
                        let loc = Loc::Field(b, slot as u32);
                        let mark = self.outstanding.len();
                        if *op != AssignOp::Set {
                            self.outstanding.push(loc);
                        }
                        let rhs = self.eval(value, frame);
                        self.outstanding.truncate(mark);
                        let rhs = rhs?;
                        let res = if *op == AssignOp::Set {
                            rhs
                        } else {
                            let cur = self.blobs[b as usize].1[slot].1.clone();
                            match self.arith(assign_binop(*op), &cur, &rhs) {
                                Ok(v) => v,
                                Err(e) => return dynerr("arith", e),
                            }
                        };
                        if self.outstanding.contains(&loc) {
                            self.ambiguous = true;
                        }
                        self.init.borrow_mut().touch(Obj::Blob(b), true);
                        self.blobs[b as usize].1[slot].1 = res;
                    }
                }
                Ok(())
            }
            Stmt::Expr(x) => {
                if matches!(x.kind, EKind::If(..)) {
                    self.hit(Cov::IfStmt);
                }
                self.eval(x, frame)?;
                Ok(())
            }
            Stmt::Loop { cond, body } => {
                self.hit(Cov::Loop);
                loop {
                    self.step()?;
                    if let Some(c) = cond {
                        let mark = self.outstanding.len();
                        let v = self.eval(c, frame);
                        self.outstanding.truncate(mark);
                        if !self.truthy(&v?, "loop condition")? {
                            break;
                        }
                    }
                    match self.exec_block(body, frame) {
                        Ok(_) => {}
                        Err(Abort::Break) => {
                            self.hit(Cov::Break);
                            break;
                        }
                        Err(Abort::Continue) => {
                            self.hit(Cov::Continue);
                            continue;
                        }
                        Err(e) => return Err(e),
                    }
                }
                Ok(())
            }
            Stmt::Break => Err(Abort::Break),
            Stmt::Continue => Err(Abort::Continue),
            Stmt::Ret(v) => {
                self.hit(Cov::EarlyRet);
                let val = match v {
                    Some(x) => self.eval(x, frame)?,
                    None => Val::Void,
                };
                Err(Abort::Return(val))
            }
            Stmt::Block(b) => {
                self.exec_block(b, frame)?;
                Ok(())
            }
            Stmt::Unreachable(uid) => Err(Abort::Stop(Stop::Unreachable(*uid))),
            Stmt::Raw(t) => dynerr("raw", format!("raw source text cannot be interpreted: {}", t)),
            Stmt::Assert(a, b) => {
                let x = self.eval(a, frame)?;
                let y = self.eval(b, frame)?;
                if self.val_eq(&x, &y) {
                    Ok(())
                } else {
                    Err(Abort::Stop(Stop::AssertFailed))
                }
            }
        }
    }

    fn eval_list(&mut self, xs: &'p [Expr], frame: &mut Vec<(VarId, u32)>) -> R<Vec<Val>> {
        let mut out = Vec::with_capacity(xs.len());
        for (i, x) in xs.iter().enumerate() {
            if i > 0 {
                self.pending += 1;
            }
            let v = self.eval(x, frame);
            if i > 0 {
                self.pending -= 1;
            }
            out.push(v?);
        }
        Ok(out)
    }

    pub fn eval(&mut self, x: &'p Expr, frame: &mut Vec<(VarId, u32)>) -> R<Val> {
        match &x.kind {
            EKind::Int(i) => Ok(Val::Int(*i)),
            EKind::Float(t) => Ok(Val::Float(t.parse::<f64>().unwrap_or(f64::NAN))),
            EKind::Str(s) => Ok(Val::Str(Rc::from(s.as_str()))),
            EKind::Bool(b) => Ok(Val::Bool(*b)),
            EKind::Var(v) => match self.lookup(*v, frame) {
                Some(c) => {
                    self.init.borrow_mut().touch(Obj::Cell(c), false);
                    Ok(self.cells[c as usize].clone())
                }
                None => dynerr("unbound", format!("read of out-of-scope variable #{} ({})", v, self.p.var(*v).name)),
            },
            EKind::Bin(op, a, b) => match op {
                BinOp::And | BinOp::Or => {
                    self.hit(Cov::AndOr);
                    let mark = self.outstanding.len();
                    let l = self.eval(a, frame);
                    self.outstanding.truncate(mark);
                    let l = self.truthy(&l?, "left operand of and/or")?;
                    if (*op == BinOp::And && !l) || (*op == BinOp::Or && l) {
                        return Ok(Val::Bool(l));
                    }
                    let mark = self.outstanding.len();
                    let r = self.eval(b, frame);
                    self.outstanding.truncate(mark);
                    let r = r?;
                    self.truthy(&r, "right operand of and/or")?;
                    Ok(r)
                }
                BinOp::Add | BinOp::Sub | BinOp::Mul | BinOp::Div => {
                    let l = self.eval(a, frame)?;
                    self.pending += 1;
                    let r = self.eval(b, frame);
                    self.pending -= 1;
                    let r = r?;
                    match self.arith(*op, &l, &r) {
                        Ok(v) => Ok(v),
                        Err(e) => dynerr("arith", e),
                    }
                }
                BinOp::Eq | BinOp::Ne => {
                    let l = self.eval(a, frame)?;
                    let r = self.eval(b, frame)?;
                    self.hit(Cov::Compare);
                    let eq = self.val_eq(&l, &r);
                    Ok(Val::Bool(if *op == BinOp::Eq { eq } else { !eq }))
                }
                BinOp::Lt | BinOp::Le | BinOp::Gt | BinOp::Ge => {
                    let l = self.eval(a, frame)?;
                    let r = self.eval(b, frame)?;
                    if matches!(l, Val::Tuple(_)) {
                        self.hit(Cov::TupleCompare);
                    } else {
                        self.hit(Cov::Compare);
                    }
                    let res = match op {
                        BinOp::Lt => self.val_lt(&l, &r),
                        BinOp::Le => self.val_le(&l, &r),
                        BinOp::Gt => self.val_lt(&r, &l),
                        BinOp::Ge => self.val_le(&r, &l),
                        _ => unreachable!(),
                    };
                    match res {
                        Ok(b) => Ok(Val::Bool(b)),
                        Err(e) => dynerr("compare", e),
                    }
                }
            },
            EKind::Neg(a) => match self.eval(a, frame)? {
                Val::Int(i) => Ok(Val::Int(i.wrapping_neg())),
                Val::Float(f) => Ok(Val::Float(-f)),
                other => dynerr("arith", format!("-{}", other.tag())),
            },
            EKind::Not(a) => {
                let v = self.eval(a, frame)?;
                Ok(Val::Bool(!self.truthy(&v, "operand of not")?))
            }
            EKind::AssertEq(a, b) => {
                let l = self.eval(a, frame)?;
                let r = self.eval(b, frame)?;
                if self.val_eq(&l, &r) {
                    Ok(Val::Bool(true))
                } else {
                    Err(Abort::Stop(Stop::AssertFailed))
                }
            }
            EKind::If(branches, default) => {
                if x.ty != Ty::Void {
                    self.hit(Cov::IfExpr);
                }
                for (c, body) in branches {
                    let mark = self.outstanding.len();
                    let v = self.eval(c, frame);
                    self.outstanding.truncate(mark);
                    if self.truthy(&v?, "if condition")? {
                        let r = self.exec_block(body, frame)?;
                        return Ok(r.unwrap_or(Val::Void));
                    }
                }
                if let Some(d) = default {
                    let r = self.exec_block(d, frame)?;
                    return Ok(r.unwrap_or(Val::Void));
                }
                Ok(Val::Void)
            }
            EKind::Case { scrut, arms, default } => {
                self.hit(Cov::Case);
                let mark = self.outstanding.len();
                let s = self.eval(scrut, frame);
                self.outstanding.truncate(mark);
                let (tag, payload) = match s? {
                    Val::Variant(t, p) => (t, p),
                    other => return dynerr("case-non-enum", format!("case on a {}", other.tag())),
                };
                for arm in arms {
                    if *arm.variant == *tag {
                        let scope = frame.len();
                        if let Some(bv) = arm.bind {
                            let pv = match &payload {
                                Some(p) => (**p).clone(),
                                None => Val::Nil,
                            };
                            let c = self.new_cell(pv);
                            frame.push((bv, c));
                        }
                        let r = self.exec_block(&arm.body, frame);
                        frame.truncate(scope);
                        return Ok(r?.unwrap_or(Val::Void));
                    }
                }
                if let Some(d) = default {
                    let r = self.exec_block(d, frame)?;
                    return Ok(r.unwrap_or(Val::Void));
                }
                dynerr("case-no-arm", format!("no arm for variant {}", tag))
            }
            EKind::Call(f, args) => {
                let mark = self.outstanding.len();
                let fv = self.eval(f, frame)?;
                let argv = self.eval_list(args, frame)?;
                self.outstanding.truncate(mark);
                if let Val::Closure(c) = &fv {
                    let def = self.closures[*c as usize].def;
                    let _ = def;
                    match &f.kind {
                        EKind::Var(v) if self.p.var(*v).kind == VarKind::Global => self.hit(Cov::UserCall),
                        EKind::Field(..) => self.hit(Cov::MethodSelf),
                        EKind::Var(v) if self.p.var(*v).kind == VarKind::Param => self.hit(Cov::HigherOrder),
                        _ => self.hit(Cov::ClosureCall),
                    }
                }
                self.call_value(fv, argv)
            }
            EKind::Std(f, args) => {
                let mark = self.outstanding.len();
                let argv = self.eval_list(args, frame)?;
                self.outstanding.truncate(mark);
                self.std_call(*f, argv)
            }
            EKind::Lambda(def) => {
                let env = frame.clone();
                self.closures.push(Closure { def, env });
                self.closure_born_in.push(self.activation);
                Ok(Val::Closure((self.closures.len() - 1) as u32))
            }
            EKind::BlobNew { blob, self_var, fields } => {
                let mark = self.outstanding.len();
                let scope = frame.len();
                let sc = self.new_cell(Val::Nil);
                let mut vals = Vec::with_capacity(fields.len());
                for (name, fx) in fields {
                    let is_fn = matches!(fx.kind, EKind::Lambda(_));
                    if is_fn {
                        frame.push((*self_var, sc));
                    }
                    let v = self.eval(fx, frame);
                    frame.truncate(scope);
                    let v = v?;
                    if matches!(v, Val::Void) {
                        return dynerr("void-value", "void stored in a field".into());
                    }
                    vals.push((name.clone(), v));
                }
                self.outstanding.truncate(mark);
                self.blobs.push((*blob, vals));
                let id = (self.blobs.len() - 1) as u32;
                self.cells[sc as usize] = Val::Blob(id);
                Ok(Val::Blob(id))
            }
            EKind::Field(obj, name) => {
                let o = self.eval(obj, frame)?;
                match o {
                    Val::Blob(b) => match self.field_slot(b, name) {
                        Some(slot) => {
                            self.hit(Cov::BlobField);
                            self.outstanding.push(Loc::Field(b, slot as u32));
                            self.init.borrow_mut().touch(Obj::Blob(b), false);
                            Ok(self.blobs[b as usize].1[slot].1.clone())
                        }
                        None => dynerr("field", format!("blob has no field {}", name)),
                    },
                    other => dynerr("field", format!("field .{} of a {}", name, other.tag())),
                }
            }
            EKind::TupleIdx(t, i) => match self.eval(t, frame)? {
                Val::Tuple(xs) => match xs.get(*i) {
                    Some(v) => Ok(v.clone()),
                    None => dynerr("index", format!("tuple index {} out of range {}", i, xs.len())),
                },
                other => dynerr("index", format!("indexing a {}", other.tag())),
            },
            EKind::Tuple(xs) => {
                let v = self.eval_list(xs, frame)?;
                Ok(Val::Tuple(Rc::new(v)))
            }
            EKind::List(xs) => {
                let v = self.eval_list(xs, frame)?;
                self.hit(Cov::ListOp);
                self.lists.push(v);
                Ok(Val::List((self.lists.len() - 1) as u32))
            }
            EKind::Variant(_, name, payload) => {
                self.hit(Cov::EnumVariant);
                let p = match payload {
                    Some(px) => Some(Rc::new(self.eval(px, frame)?)),
                    None => None,
                };
                Ok(Val::Variant(Rc::from(name.as_str()), p))
            }
            EKind::MaybeJust(px) => {
                let p = self.eval(px, frame)?;
                Ok(Val::Variant(Rc::from("Just"), Some(Rc::new(p))))
            }
            EKind::MaybeNone => Ok(Val::Variant(Rc::from("None"), None)),
            EKind::Raw(t) => dynerr("raw", format!("raw source text cannot be interpreted: {}", t)),
            EKind::Mark(inner) => {
                self.mark_hits += 1;
                self.eval(inner, frame)
            }
        }
    }

    fn as_list(&self, v: &Val, what: &str) -> R<u32> {
        match v {
            Val::List(l) => {
                self.init.borrow_mut().touch(Obj::List(*l), what == "push");
                Ok(*l)
            }
            other => dynerr("list-arg", format!("{} got a {}", what, other.tag())),
        }
    }

    fn std_call(&mut self, f: StdFn, args: Vec<Val>) -> R<Val> {
        self.step()?;
        match f {
            StdFn::Print => {
                {
                    let mut log = self.init.borrow_mut();
                    if let Some(cur) = log.current {
                        if !log.printed_by.contains(&cur) {
                            log.printed_by.push(cur);
                        }
                        if log.printed_by.len() > 1 {
                            log.conflict = true;
                        }
                    }
                }
                let s = self.to_str(&args[0]);
                self.out.push(s);
                Ok(Val::Void)
            }
            StdFn::AsStr => {
                let s = self.to_str(&args[0]);
                Ok(Val::Str(Rc::from(s)))
            }
            StdFn::AsFloat => match &args[0] {
                Val::Int(i) => Ok(Val::Float(*i as f64)),
                other => dynerr("arith", format!("as_float of {}", other.tag())),
            },
            StdFn::ListPush => {
                let l = self.as_list(&args[0], "push")?;
                if self.iterating.contains(&l) {
                    self.ambiguous = true;
                }
                self.hit(Cov::ListOp);
                self.lists[l as usize].push(args[1].clone());
                Ok(Val::Void)
            }
            StdFn::ListLen => {
                let l = self.as_list(&args[0], "len")?;
                self.hit(Cov::ListOp);
                Ok(Val::Int(self.lists[l as usize].len() as i64))
            }
            StdFn::ListGet => {
                let l = self.as_list(&args[0], "get")?;
                self.hit(Cov::ListOp);
                let i = match &args[1] {
                    Val::Int(i) => *i,
                    other => return dynerr("arith", format!("list index is a {}", other.tag())),
                };
                let items = &self.lists[l as usize];
                if i >= 0 && (i as usize) < items.len() {
                    Ok(Val::Variant(Rc::from("Just"), Some(Rc::new(items[i as usize].clone()))))
                } else {
                    Ok(Val::Variant(Rc::from("None"), None))
                }
            }
            StdFn::ListMap | StdFn::ListFilter | StdFn::ListForEach => {
                let l = self.as_list(&args[0], "map/filter/for_each")?;
                self.hit(Cov::ListOp);
                self.hit(Cov::HigherOrder);
                self.iterating.push(l);
                let mut out = Vec::new();
                let mut i = 0;
                let mut res = Ok(());
                while i < self.lists[l as usize].len() {
                    let item = self.lists[l as usize][i].clone();
                    match self.call_value(args[1].clone(), vec![item.clone()]) {
                        Ok(r) => match f {
                            StdFn::ListMap => out.push(r),
                            StdFn::ListFilter => match r {
                                Val::Bool(true) => out.push(item),
                                Val::Bool(false) => {}
                                other => {
                                    res = dynerr("cond-non-bool", format!("filter predicate returned {}", other.tag()));
                                    break;
                                }
                            },
                            _ => {}
                        },
                        Err(e) => {
                            res = Err(e);
                            break;
                        }
                    }
                    i += 1;
                }
                self.iterating.pop();
                res?;
                match f {
                    StdFn::ListForEach => Ok(Val::Void),
                    _ => {
                        self.lists.push(out);
                        Ok(Val::List((self.lists.len() - 1) as u32))
                    }
                }
            }
            StdFn::ListFold => {
                let l = self.as_list(&args[0], "fold")?;
                self.hit(Cov::ListOp);
                self.hit(Cov::HigherOrder);
                self.iterating.push(l);
                let mut acc = args[1].clone();
                let mut i = 0;
                let mut res = Ok(());
                while i < self.lists[l as usize].len() {
                    let item = self.lists[l as usize][i].clone();
                    match self.call_value(args[2].clone(), vec![item, acc.clone()]) {
                        Ok(r) => acc = r,
                        Err(e) => {
                            res = Err(e);
                            break;
                        }
                    }
                    i += 1;
                }
                self.iterating.pop();
                res?;
                Ok(acc)
            }
        }
    }
}

fn assign_binop(op: AssignOp) -> BinOp {
    match op {
        AssignOp::Add => BinOp::Add,
        AssignOp::Sub => BinOp::Sub,
        AssignOp::Mul => BinOp::Mul,
        AssignOp::Div => BinOp::Div,
        AssignOp::Set => unreachable!(),
    }
}
