//! Traversals over GenAST.
use crate::ast::*;

pub fn walk_expr(x: &Expr, f: &mut dyn FnMut(&Expr)) {
    f(x);
    match &x.kind {
        EKind::Int(_) | EKind::Float(_) | EKind::Str(_) | EKind::Bool(_) | EKind::Var(_) | EKind::MaybeNone | EKind::Raw(_) => {}
        EKind::Bin(_, a, b) | EKind::AssertEq(a, b) => {
            walk_expr(a, f);
            walk_expr(b, f);
        }
        EKind::Neg(a) | EKind::Not(a) | EKind::Field(a, _) | EKind::TupleIdx(a, _) | EKind::MaybeJust(a) | EKind::Mark(a) => walk_expr(a, f),
        EKind::If(bs, d) => {
            for (c, b) in bs {
                walk_expr(c, f);
                walk_block(b, f);
            }
            if let Some(d) = d {
                walk_block(d, f);
            }
        }
        EKind::Case { scrut, arms, default } => {
            walk_expr(scrut, f);
            for a in arms {
                walk_block(&a.body, f);
            }
            if let Some(d) = default {
                walk_block(d, f);
            }
        }
        EKind::Call(c, args) => {
            walk_expr(c, f);
            for a in args {
                walk_expr(a, f);
            }
        }
        EKind::Std(_, args) | EKind::Tuple(args) | EKind::List(args) => {
            for a in args {
                walk_expr(a, f);
            }
        }
        EKind::Lambda(def) => walk_block(&def.body, f),
        EKind::BlobNew { fields, .. } => {
            for (_, fx) in fields {
                walk_expr(fx, f);
            }
        }
        EKind::Variant(_, _, p) => {
            if let Some(p) = p {
                walk_expr(p, f);
            }
        }
    }
}

pub fn walk_block(b: &Block, f: &mut dyn FnMut(&Expr)) {
    for s in &b.stmts {
        walk_stmt(s, f);
    }
    if let Some(v) = &b.value {
        walk_expr(v, f);
    }
}

pub fn walk_stmt(s: &Stmt, f: &mut dyn FnMut(&Expr)) {
    match s {
        Stmt::Def { value, .. } => walk_expr(value, f),
        Stmt::Assign { target, value, .. } => {
            if let LValue::Field(o, _) = target {
                walk_expr(o, f);
            }
            walk_expr(value, f);
        }
        Stmt::Expr(x) => walk_expr(x, f),
        Stmt::Loop { cond, body } => {
            if let Some(c) = cond {
                walk_expr(c, f);
            }
            walk_block(body, f);
        }
        Stmt::Ret(Some(x)) => walk_expr(x, f),
        Stmt::Block(b) => walk_block(b, f),
        Stmt::Assert(a, b) => {
            walk_expr(a, f);
            walk_expr(b, f);
        }
        Stmt::Break | Stmt::Continue | Stmt::Ret(None) | Stmt::Unreachable(_) | Stmt::Raw(_) => {}
    }
}

pub fn walk_program(p: &Program, f: &mut dyn FnMut(&Expr)) {
    for g in &p.globals {
        walk_expr(&g.value, f);
    }
}

/// number of statements (all nesting levels)
pub fn count_stmts(p: &Program) -> usize {
    fn blk(b: &Block) -> usize {
        b.stmts.iter().map(st).sum::<usize>()
    }
    fn st(s: &Stmt) -> usize {
        1 + match s {
            Stmt::Loop { body, .. } => blk(body),
            Stmt::Block(b) => blk(b),
            _ => 0,
        }
    }
    let mut n = 0;
    walk_program(p, &mut |e| match &e.kind {
        EKind::Lambda(d) => n += blk(&d.body),
        EKind::If(bs, d) => {
            n += bs.iter().map(|(_, b)| blk(b)).sum::<usize>() + d.as_ref().map(blk).unwrap_or(0)
        }
        EKind::Case { arms, default, .. } => {
            n += arms.iter().map(|a| blk(&a.body)).sum::<usize>() + default.as_ref().map(blk).unwrap_or(0)
        }
        _ => {}
    });
    n
}
