//! Structural shrinking of GenAST programs: single-step simplifications that keep the program
//! well-scoped (checked by `validate`). The engine keeps a candidate when the same violation persists.
use crate::ast::*;
use std::collections::HashSet;

/// All variables referenced (read, assigned or called) in an expression tree.
fn refs_expr(x: &Expr, out: &mut HashSet<VarId>) {
    crate::walk::walk_expr(x, &mut |e| {
        if let EKind::Var(v) = &e.kind {
            out.insert(*v);
        }
    });
    // assignment targets inside nested blocks
    fn blk(b: &Block, out: &mut HashSet<VarId>) {
        for s in &b.stmts {
            st(s, out);
        }
    }
    fn st(s: &Stmt, out: &mut HashSet<VarId>) {
        match s {
            Stmt::Assign { target: LValue::Var(v), .. } => {
                out.insert(*v);
            }
            Stmt::Loop { body, .. } => blk(body, out),
            Stmt::Block(b) => blk(b, out),
            _ => {}
        }
    }
    crate::walk::walk_expr(x, &mut |e| match &e.kind {
        EKind::Lambda(d) => blk(&d.body, out),
        EKind::If(bs, d) => {
            for (_, b) in bs {
                blk(b, out);
            }
            if let Some(d) = d {
                blk(d, out);
            }
        }
        EKind::Case { arms, default, .. } => {
            for a in arms {
                blk(&a.body, out);
            }
            if let Some(d) = default {
                blk(d, out);
            }
        }
        _ => {}
    });
}

/// Scope check: every variable use is bound at that point.
pub fn validate(p: &Program) -> bool {
    let mut globals: HashSet<VarId> = HashSet::new();
    for g in &p.globals {
        globals.insert(g.var);
    }
    fn expr(x: &Expr, scope: &mut Vec<VarId>, globals: &HashSet<VarId>) -> bool {
        match &x.kind {
            EKind::Int(_) | EKind::Float(_) | EKind::Str(_) | EKind::Bool(_) | EKind::MaybeNone | EKind::Raw(_) => true,
            EKind::Var(v) => scope.contains(v) || globals.contains(v),
            EKind::Bin(_, a, b) | EKind::AssertEq(a, b) => expr(a, scope, globals) && expr(b, scope, globals),
            EKind::Neg(a) | EKind::Not(a) | EKind::Field(a, _) | EKind::TupleIdx(a, _) | EKind::MaybeJust(a) | EKind::Mark(a) => {
                expr(a, scope, globals)
            }
            EKind::If(bs, d) => {
                for (c, b) in bs {
                    if !expr(c, scope, globals) || !block(b, scope, globals) {
                        return false;
                    }
                }
                d.as_ref().map(|d| block(d, scope, globals)).unwrap_or(true)
            }
            EKind::Case { scrut, arms, default } => {
                if !expr(scrut, scope, globals) {
                    return false;
                }
                for a in arms {
                    let n = scope.len();
                    if let Some(b) = a.bind {
                        scope.push(b);
                    }
                    let ok = block(&a.body, scope, globals);
                    scope.truncate(n);
                    if !ok {
                        return false;
                    }
                }
                default.as_ref().map(|d| block(d, scope, globals)).unwrap_or(true)
            }
            EKind::Call(f, args) => expr(f, scope, globals) && args.iter().all(|a| expr(a, scope, globals)),
            EKind::Std(_, args) | EKind::Tuple(args) | EKind::List(args) => args.iter().all(|a| expr(a, scope, globals)),
            EKind::Lambda(def) => {
                let n = scope.len();
                scope.extend(def.params.iter().copied());
                let ok = block(&def.body, scope, globals);
                scope.truncate(n);
                ok
            }
            EKind::BlobNew { self_var, fields, .. } => {
                for (_, fx) in fields {
                    let n = scope.len();
                    if matches!(fx.kind, EKind::Lambda(_)) {
                        scope.push(*self_var);
                    }
                    let ok = expr(fx, scope, globals);
                    scope.truncate(n);
                    if !ok {
                        return false;
                    }
                }
                true
            }
            EKind::Variant(_, _, p) => p.as_ref().map(|p| expr(p, scope, globals)).unwrap_or(true),
        }
    }
    fn block(b: &Block, scope: &mut Vec<VarId>, globals: &HashSet<VarId>) -> bool {
        let n = scope.len();
        let mut ok = true;
        for s in &b.stmts {
            if !stmt(s, scope, globals) {
                ok = false;
                break;
            }
        }
        if ok {
            if let Some(v) = &b.value {
                ok = expr(v, scope, globals);
            }
        }
        scope.truncate(n);
        ok
    }
    fn stmt(s: &Stmt, scope: &mut Vec<VarId>, globals: &HashSet<VarId>) -> bool {
        match s {
            Stmt::Def { var, value, .. } => {
                if matches!(value.kind, EKind::Lambda(_)) {
                    scope.push(*var);
                    expr(value, scope, globals)
                } else {
                    let ok = expr(value, scope, globals);
                    scope.push(*var);
                    ok
                }
            }
            Stmt::Assign { target, value, .. } => {
                let t = match target {
                    LValue::Var(v) => scope.contains(v) || globals.contains(v),
                    LValue::Field(o, _) => expr(o, scope, globals),
                };
                t && expr(value, scope, globals)
            }
            Stmt::Expr(x) => expr(x, scope, globals),
            Stmt::Loop { cond, body } => cond.as_ref().map(|c| expr(c, scope, globals)).unwrap_or(true) && block(body, scope, globals),
            Stmt::Ret(Some(x)) => expr(x, scope, globals),
            Stmt::Block(b) => block(b, scope, globals),
            Stmt::Assert(a, b) => expr(a, scope, globals) && expr(b, scope, globals),
            Stmt::Break | Stmt::Continue | Stmt::Ret(None) | Stmt::Unreachable(_) | Stmt::Raw(_) => true,
        }
    }
    for g in &p.globals {
        let mut scope = Vec::new();
        if !expr(&g.value, &mut scope, &globals) {
            return false;
        }
    }
    p.globals.iter().any(|g| p.var(g.var).name == "start")
}

pub fn default_expr(p: &Program, ty: &Ty) -> Option<Expr> {
    Some(match ty {
        Ty::Int => int(0),
        Ty::Float => float("0.0"),
        Ty::Str => string(""),
        Ty::Bool => boolean(false),
        Ty::Tuple(ts) => {
            let mut xs = Vec::new();
            for t in ts {
                xs.push(default_expr(p, t)?);
            }
            e(ty.clone(), EKind::Tuple(xs))
        }
        Ty::List(_) => e(ty.clone(), EKind::List(vec![])),
        Ty::Maybe(_) => e(ty.clone(), EKind::MaybeNone),
        Ty::Enum(en) => {
            let v = p.enums[*en].variants.iter().find(|v| v.payload.is_none())?;
            e(ty.clone(), EKind::Variant(*en, v.name.clone(), None))
        }
        _ => return None,
    })
}

fn is_default(p: &Program, x: &Expr) -> bool {
    match default_expr(p, &x.ty) {
        Some(d) => d == *x,
        None => false,
    }
}

/// Mutation engine: walks the program, counting mutation sites; applies the `target`-th one.
struct Mut<'a> {
    p: &'a Program,
    counter: usize,
    target: usize,
    done: bool,
}

impl<'a> Mut<'a> {
    fn site(&mut self) -> bool {
        if self.done {
            return false;
        }
        let hit = self.counter == self.target;
        self.counter += 1;
        if hit {
            self.done = true;
        }
        hit
    }

    fn block(&mut self, b: &mut Block) {
        // delete statement i
        let mut i = 0;
        while i < b.stmts.len() {
            if matches!(b.stmts[i], Stmt::Raw(_)) {
                i += 1;
                continue;
            }
            if self.site() {
                b.stmts.remove(i);
                return;
            }
            i += 1;
        }
        // hoist: replace an if/loop/block statement by the statements of one of its blocks
        for i in 0..b.stmts.len() {
            let repl: Option<Vec<Stmt>> = match &b.stmts[i] {
                Stmt::Expr(Expr { kind: EKind::If(bs, d), ty }) if *ty == Ty::Void => {
                    let mut r = None;
                    for (_, blk) in bs {
                        if self.site() {
                            r = Some(blk.stmts.clone());
                            break;
                        }
                    }
                    if r.is_none() {
                        if let Some(d) = d {
                            if self.site() {
                                r = Some(d.stmts.clone());
                            }
                        }
                    }
                    r
                }
                Stmt::Block(inner) => {
                    if self.site() {
                        Some(inner.stmts.clone())
                    } else {
                        None
                    }
                }
                _ => None,
            };
            if let Some(r) = repl {
                b.stmts.splice(i..i + 1, r);
                return;
            }
            if self.done {
                return;
            }
        }
        for s in b.stmts.iter_mut() {
            self.stmt(s);
            if self.done {
                return;
            }
        }
        if let Some(v) = &mut b.value {
            self.expr(v);
        }
    }

    fn stmt(&mut self, s: &mut Stmt) {
        match s {
            Stmt::Def { value, .. } => self.expr(value),
            Stmt::Assign { target, value, .. } => {
                if let LValue::Field(o, _) = target {
                    self.expr(o);
                }
                if !self.done {
                    self.expr(value);
                }
            }
            Stmt::Expr(x) => self.expr(x),
            Stmt::Loop { cond, body } => {
                if let Some(c) = cond {
                    self.expr(c);
                }
                if !self.done {
                    self.block(body);
                }
            }
            Stmt::Ret(Some(x)) => self.expr(x),
            Stmt::Block(b) => self.block(b),
            Stmt::Assert(a, b) => {
                self.expr(a);
                if !self.done {
                    self.expr(b);
                }
            }
            Stmt::Break | Stmt::Continue | Stmt::Ret(None) | Stmt::Unreachable(_) | Stmt::Raw(_) => {}
        }
    }

    fn expr(&mut self, x: &mut Expr) {
        if self.done || matches!(x.kind, EKind::Raw(_) | EKind::Mark(_)) {
            return;
        }
        // replace by the default literal of its type
        let atomic = matches!(x.kind, EKind::Int(_) | EKind::Float(_) | EKind::Str(_) | EKind::Bool(_) | EKind::Var(_));
        if !is_default(self.p, x) && (!atomic || !matches!(x.kind, EKind::Var(_)) || true) {
            if let Some(d) = default_expr(self.p, &x.ty) {
                if self.site() {
                    *x = d;
                    return;
                }
            }
        }
        // replace by a same-typed direct child
        let mut children: Vec<Expr> = Vec::new();
        match &x.kind {
            EKind::Bin(_, a, b) => {
                children.push((**a).clone());
                children.push((**b).clone());
            }
            EKind::Neg(a) | EKind::Not(a) => children.push((**a).clone()),
            EKind::If(bs, d) => {
                for (_, b) in bs {
                    if b.stmts.is_empty() {
                        if let Some(v) = &b.value {
                            children.push((**v).clone());
                        }
                    }
                }
                if let Some(d) = d {
                    if d.stmts.is_empty() {
                        if let Some(v) = &d.value {
                            children.push((**v).clone());
                        }
                    }
                }
            }
            EKind::Call(_, args) => {
                for a in args {
                    children.push(a.clone());
                }
            }
            _ => {}
        }
        for c in children {
            if c.ty == x.ty && self.site() {
                *x = c;
                return;
            }
        }
        if self.done {
            return;
        }
        match &mut x.kind {
            EKind::Int(_) | EKind::Float(_) | EKind::Str(_) | EKind::Bool(_) | EKind::Var(_) | EKind::MaybeNone | EKind::Raw(_) => {}
            EKind::Bin(_, a, b) | EKind::AssertEq(a, b) => {
                self.expr(a);
                self.expr(b);
            }
            EKind::Neg(a) | EKind::Not(a) | EKind::Field(a, _) | EKind::TupleIdx(a, _) | EKind::MaybeJust(a) => self.expr(a),
            EKind::Mark(_) => {}
            EKind::If(bs, d) => {
                // drop a branch (keep at least one)
                if bs.len() > 1 {
                    for i in 0..bs.len() {
                        if self.site() {
                            bs.remove(i);
                            return;
                        }
                    }
                }
                for (c, b) in bs.iter_mut() {
                    self.expr(c);
                    if self.done {
                        return;
                    }
                    self.block(b);
                    if self.done {
                        return;
                    }
                }
                if let Some(d) = d {
                    self.block(d);
                }
            }
            EKind::Case { scrut, arms, default } => {
                self.expr(scrut);
                for a in arms.iter_mut() {
                    if self.done {
                        return;
                    }
                    self.block(&mut a.body);
                }
                if let Some(d) = default {
                    if !self.done {
                        self.block(d);
                    }
                }
            }
            EKind::Call(f, args) => {
                self.expr(f);
                for a in args.iter_mut() {
                    self.expr(a);
                }
            }
            EKind::Std(_, args) | EKind::Tuple(args) => {
                for a in args.iter_mut() {
                    self.expr(a);
                }
            }
            EKind::List(args) => {
                for i in 0..args.len() {
                    if self.site() {
                        args.remove(i);
                        return;
                    }
                }
                for a in args.iter_mut() {
                    self.expr(a);
                }
            }
            EKind::Lambda(def) => self.block(&mut def.body),
            EKind::BlobNew { fields, .. } => {
                for (_, fx) in fields.iter_mut() {
                    self.expr(fx);
                }
            }
            EKind::Variant(_, _, p) => {
                if let Some(p) = p {
                    self.expr(p);
                }
            }
        }
    }
}

fn count_sites(p: &Program) -> usize {
    let mut q = p.clone();
    let mut m = Mut { p, counter: 0, target: usize::MAX, done: false };
    for g in q.globals.iter_mut() {
        m.expr(&mut g.value);
    }
    m.counter
}

pub enum ShrinkStep {
    Candidate(Program),
    Skip,
    End,
}

/// The idx-th single-step simplification: first "drop global i", then the site mutations.
pub fn candidate_at(p: &Program, idx: usize) -> ShrinkStep {
    let ng = p.globals.len();
    if idx < ng {
        if p.var(p.globals[idx].var).name == "start" {
            return ShrinkStep::Skip;
        }
        let mut q = p.clone();
        q.globals.remove(idx);
        return if validate(&q) { ShrinkStep::Candidate(q) } else { ShrinkStep::Skip };
    }
    let t = idx - ng;
    let mut q = p.clone();
    let mut m = Mut { p, counter: 0, target: t, done: false };
    for g in q.globals.iter_mut() {
        m.expr(&mut g.value);
        if m.done {
            break;
        }
    }
    if !m.done {
        return ShrinkStep::End;
    }
    if q != *p && validate(&q) {
        ShrinkStep::Candidate(q)
    } else {
        ShrinkStep::Skip
    }
}

/// Single-step simplifications, biggest first: drop a global, then the site mutations.
pub fn candidates(p: &Program) -> Vec<Program> {
    let mut out = Vec::new();
    // drop a global that nothing else refers to
    for i in 0..p.globals.len() {
        if p.var(p.globals[i].var).name == "start" {
            continue;
        }
        let mut q = p.clone();
        q.globals.remove(i);
        if validate(&q) {
            out.push(q);
        }
    }
    let n = count_sites(p);
    for t in 0..n.min(4000) {
        let mut q = p.clone();
        let mut m = Mut { p, counter: 0, target: t, done: false };
        for g in q.globals.iter_mut() {
            m.expr(&mut g.value);
            if m.done {
                break;
            }
        }
        if m.done && q != *p && validate(&q) {
            out.push(q);
        }
    }
    out
}

#[allow(dead_code)]
fn unused(_: &HashSet<VarId>) {
    let _ = refs_expr;
}
