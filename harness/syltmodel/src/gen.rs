//! Type-directed generator: tape -> well-typed GenAST (construction, not rejection).
use crate::ast::*;
use vcore::Tape;

#[derive(Clone, Debug)]
pub struct GenCfg {
    pub max_decls: usize,
    /// node budget per top-level declaration
    pub decl_budget: i64,
    pub max_stmts: usize,
    pub expr_depth: usize,
    pub block_depth: usize,
    pub loop_trips: i64,
    pub fuel: i64,
    pub blobs: bool,
    pub enums: bool,
    pub lists: bool,
    pub closures: bool,
    pub recursion: bool,
    pub higher_order: bool,
    pub methods: bool,
    /// weight multiplier for re-entrancy oriented constructs (C10 profile)
    pub reentrant_bias: u32,
    /// known-finding avoidance switches (see DESIGN §2.6); true = do not generate the trigger
    pub avoid_stmt_after_ret: bool,
    pub avoid_leading_do_block: bool,
    pub avoid_unused_andor: bool,
    pub avoid_str_tuple_arith: bool,
    pub avoid_global_temps: bool,
    /// maximal number of function-typed expressions per top-level declaration (see Gen::fn_exprs)
    pub max_fn_exprs: usize,
    /// the budget above applies to the whole program instead of each declaration
    pub fn_exprs_program_wide: bool,
    /// per-function budget of Lua locals (each read/call/definition costs one)
    pub locals_budget: usize,
    /// plain strings only (no backslash / newline / control characters)
    pub plain_strings: bool,
    /// arbitrary strings without line breaks (for checks whose oracle compares printed output line by line)
    pub one_line_strings: bool,
    /// allow backslashes in string literals (their meaning is unspecified; C06 only)
    pub backslash_strings: bool,
    /// field names from the lexical pool (Lua reserved words that Sylt allows, underscores, long names)
    pub lexical_names: bool,
    /// weight of the dedicated closure / re-entrancy scenarios (0 = off)
    pub scenario_weight: u32,
    /// long straight-line bodies: up to this many extra cheap statements appended to function bodies
    pub long_bodies: usize,
    /// up to this many extra trivial globals (every global is a chunk-level Lua local)
    pub many_globals: usize,
    /// top-level profile: pure global functions, initialisers that call functions, at most one initialiser
    /// with effects (prints / assigns mutable globals)
    pub toplevel_calls: bool,
    /// blob fields whose type is an earlier blob (nested literals, `a.b.c` reads, `a.b.m()` calls)
    pub nested_blobs: bool,
    /// boundary literals
    pub extreme_literals: bool,
}

impl GenCfg {
    pub fn core(thorough: bool) -> Self {
        GenCfg {
            max_decls: if thorough { 9 } else { 6 },
            decl_budget: if thorough { 90 } else { 60 },
            max_stmts: if thorough { 12 } else { 8 },
            expr_depth: if thorough { 4 } else { 3 },
            block_depth: 3,
            loop_trips: 5,
            fuel: 4,
            blobs: true,
            enums: true,
            lists: true,
            closures: true,
            recursion: true,
            higher_order: true,
            methods: true,
            reentrant_bias: 1,
            avoid_stmt_after_ret: true,
            avoid_leading_do_block: false,
            avoid_unused_andor: true,
            avoid_str_tuple_arith: true,
            avoid_global_temps: false,
            max_fn_exprs: 7,
            fn_exprs_program_wide: false,
            locals_budget: 110,
            plain_strings: true,
            one_line_strings: false,
            backslash_strings: false,
            lexical_names: false,
            scenario_weight: 2,
            long_bodies: 0,
            many_globals: 0,
            toplevel_calls: false,
            nested_blobs: true,
            extreme_literals: true,
        }
    }
}

#[derive(Clone, Debug)]
struct SVar {
    id: VarId,
    ty: Ty,
    mutable: bool,
    /// may be the target of a generated assignment
    assignable: bool,
    /// recursive function whose first parameter is fuel
    rec: bool,
    global: bool,
}

#[derive(Clone)]
struct FnCtx {
    ret: Ty,
    in_loop: bool,
    pure: bool,
    /// (function var, fuel param) when inside the body of a recursive function
    rec: Option<(VarId, VarId)>,
    block_depth: usize,
    locals: usize,
    rec_calls: usize,
}

pub struct Gen<'t, 'a, 'b> {
    pub t: &'t mut Tape<'a, 'b>,
    pub p: Program,
    pub cfg: GenCfg,
    scope: Vec<SVar>,
    uid: u32,
    /// lexically enclosing recursive functions: (function var, fuel param)
    rec_stack: Vec<(VarId, VarId)>,
    /// nesting depth of function literals being generated
    fn_depth: usize,
    /// remaining node budget of the current top-level declaration
    budget: i64,
    /// function-typed expressions (lambda literals, reads of local closures, method reads) generated in the
    /// current top-level declaration: the type checker copies the connected constraint graph for each one,
    /// which is exponential in their number (known finding C07/inner_copy)
    fn_exprs: usize,
    /// generating the base case of a recursive function: no call of an enclosing recursive function
    in_base_case: bool,
    splice_next: bool,
    effect_init_used: bool,
}

const INT_POOL: &[i64] = &[0, 1, 2, 3, 5, 7, 10, -1, -2, 42, 100, 255, 1000, -17];
const INT_EXTREME: &[i64] = &[
    i64::MAX,
    -i64::MAX,
    i64::MAX - 1,
    9007199254740993,
    9007199254740992,
    4294967296,
    2147483647,
    -2147483648,
    1 << 62,
];
const FLOAT_POOL: &[&str] = &["0.0", "1.0", "0.5", "2.5", "1.5", "0.1", "3.25", "10.0", "0.25", "100.0", ".5", "2.", "1e3"];
const FLOAT_EXTREME: &[&str] = &[
    "1e15", "1e16", "9007199254740993.0", "1e308", "1e-7", "123456.789", "0.30000000000000004", "1e-320",
    "99999999999999.5", "1e+2", "5e-324", "1e100", "0.000001", "4503599627370496.5",
    // beyond the range of a double: read as infinity
    "1e309", "1e999", "2e308",
];
pub const LEXICAL_FIELD_NAMES: &[&str] = &[
    "elseif", "for", "function", "goto", "local", "repeat", "return", "then", "until", "while", "_", "__", "_x", "x_",
    "a_very_long_field_name_that_goes_on_and_on_1234567890", "Upper", "f1", "nil_", "type", "print", "string", "table",
    "math", "V1", "L2", "self_", "__index", "__eq", "_type",
];

const STR_POOL: &[&str] = &["", "a", "b", "abc", "hello", "x y", "Z", "0", "été", "字", "a,b", "(q)", "nil", "true"];

impl<'t, 'a, 'b> Gen<'t, 'a, 'b> {
    pub fn new(t: &'t mut Tape<'a, 'b>, cfg: GenCfg) -> Self {
        Gen { t, p: Program::default(), cfg, scope: Vec::new(), uid: 0, rec_stack: Vec::new(), fn_depth: 0, budget: 0, fn_exprs: 0, in_base_case: false, splice_next: false, effect_init_used: false }
    }

    fn fresh(&mut self, prefix: &str, ty: Ty, kind: VarKind, mutable: bool) -> VarId {
        let n = self.p.vars.len();
        self.p.new_var(format!("{}{}", prefix, n), ty, kind, mutable)
    }

    // ---------------------------------------------------------------- types
    fn scalar_ty(&mut self) -> Ty {
        match self.t.weighted(&[30, 15, 15, 12]) {
            0 => Ty::Int,
            1 => Ty::Float,
            2 => Ty::Str,
            _ => Ty::Bool,
        }
    }

    pub fn value_ty(&mut self, depth: usize) -> Ty {
        let nb = if self.cfg.blobs { self.p.blobs.len() } else { 0 };
        let ne = if self.cfg.enums { self.p.enums.len() } else { 0 };
        let w = [
            60,
            if depth > 0 { 12 } else { 0 },
            if depth > 0 && self.cfg.lists { 8 } else { 0 },
            if nb > 0 { 7 } else { 0 },
            if ne > 0 { 7 } else { 0 },
        ];
        match self.t.weighted(&w) {
            0 => self.scalar_ty(),
            1 => {
                // (the unit tuple `()` is a value type of its own, not `void`)
                let n = self.t.weighted(&[3, 5, 60, 25, 0]);
                let mut ts = Vec::new();
                for _ in 0..n {
                    ts.push(self.value_ty(depth - 1));
                }
                Ty::Tuple(ts)
            }
            2 => {
                let inner = if self.t.chance(1, 4) { self.value_ty(depth - 1) } else { self.scalar_ty() };
                match inner {
                    Ty::List(_) => Ty::List(Box::new(Ty::Int)),
                    other => Ty::List(Box::new(other)),
                }
            }
            3 => Ty::Blob(self.t.below(nb)),
            _ => Ty::Enum(self.t.below(ne)),
        }
    }

    // ---------------------------------------------------------------- literals
    fn int_lit(&mut self) -> i64 {
        if self.cfg.extreme_literals && self.t.chance(1, 16) {
            *self.t.pick(INT_EXTREME)
        } else if self.t.chance(1, 4) {
            self.t.range(-20, 300)
        } else {
            *self.t.pick(INT_POOL)
        }
    }
    fn float_lit(&mut self) -> String {
        if self.cfg.extreme_literals && self.t.chance(1, 12) {
            self.t.pick(FLOAT_EXTREME).to_string()
        } else if self.t.chance(1, 4) {
            format!("{}.{}", self.t.below(1000), self.t.below(100))
        } else {
            self.t.pick(FLOAT_POOL).to_string()
        }
    }
    fn str_lit(&mut self) -> String {
        if self.cfg.plain_strings || self.t.chance(1, 2) {
            return self.t.pick(STR_POOL).to_string();
        }
        // arbitrary characters except the double quote
        let n = self.t.below(12);
        let mut s = String::new();
        for _ in 0..n {
            let c = match self.t.below(18) {
                14 | 15 => (b'0' + self.t.below(10) as u8) as char,
                16 => *self.t.pick(&['[', '=', '-', '{', '}', '(', '#', '$', '`', '?']),
                17 => char::from_u32(0x7f + self.t.below(3) as u32).unwrap_or('x'),
                0 | 1 if self.cfg.one_line_strings => '\u{b}',
                0 => '\n',
                1 => '\r',
                2 => '\t',
                3 => '\'',
                4 => {
                    if self.cfg.backslash_strings {
                        '\\'
                    } else {
                        '/'
                    }
                }
                5 => match char::from_u32(1 + self.t.below(30) as u32).unwrap_or('x') {
                    '\n' | '\r' if self.cfg.one_line_strings => '\u{c}',
                    c => c,
                },
                6 => 'é',
                7 => '字',
                8 => '😀',
                9 => '%',
                10 => ' ',
                11 => ']',
                _ => (b'a' + self.t.below(26) as u8) as char,
            };
            s.push(c);
        }
        s
    }

    pub fn literal(&mut self, ty: &Ty, depth: usize) -> Expr {
        match ty {
            Ty::Int => int(self.int_lit()),
            Ty::Float => {
                let t = self.float_lit();
                if self.t.chance(1, 10) {
                    e(Ty::Float, EKind::Neg(Box::new(float(&t))))
                } else {
                    float(&t)
                }
            }
            Ty::Str => {
                let s = self.str_lit();
                string(&s)
            }
            Ty::Bool => boolean(self.t.bool()),
            Ty::Void => unreachable!("no void literals"),
            Ty::Tuple(ts) => {
                let xs = ts.iter().map(|t| self.expr(t, depth.saturating_sub(1))).collect();
                e(ty.clone(), EKind::Tuple(xs))
            }
            Ty::List(t) => {
                let n = self.t.weighted(&[15, 30, 30, 15, 5]);
                let xs = (0..n).map(|_| self.expr(t, depth.saturating_sub(1))).collect();
                e(ty.clone(), EKind::List(xs))
            }
            Ty::Maybe(t) => {
                if self.t.chance(2, 3) {
                    let x = self.expr(t, depth.saturating_sub(1));
                    e(ty.clone(), EKind::MaybeJust(Box::new(x)))
                } else {
                    e(ty.clone(), EKind::MaybeNone)
                }
            }
            Ty::Enum(en) => {
                let nv = self.p.enums[*en].variants.len();
                let vi = self.t.below(nv);
                let v = self.p.enums[*en].variants[vi].clone();
                let payload = v.payload.as_ref().map(|pt| Box::new(self.expr(pt, depth.saturating_sub(1))));
                e(ty.clone(), EKind::Variant(*en, v.name.clone(), payload))
            }
            Ty::Blob(b) => self.blob_new(*b, depth),
            Ty::Fn(ps, r, pure) => {
                let def = self.lambda(ps.clone(), (**r).clone(), *pure, None, None);
                e(ty.clone(), EKind::Lambda(Box::new(def)))
            }
        }
    }

    fn blob_new(&mut self, b: usize, depth: usize) -> Expr {
        let decl = self.p.blobs[b].clone();
        let self_var = self.fresh("self", Ty::Blob(b), VarKind::SelfVar, true);
        let mut fields = Vec::new();
        for f in &decl.fields {
            let fx = match &f.ty {
                Ty::Fn(ps, r, pure) => {
                    // method: may use `self`
                    let def = self.lambda(ps.clone(), (**r).clone(), *pure, None, Some((self_var, b)));
                    e(f.ty.clone(), EKind::Lambda(Box::new(def)))
                }
                other => self.expr(other, depth.saturating_sub(1)),
            };
            fields.push((f.name.clone(), fx));
        }
        e(Ty::Blob(b), EKind::BlobNew { blob: b, self_var, fields })
    }

    // ---------------------------------------------------------------- scope helpers
    fn vars_of(&self, ty: &Ty, ctx: &FnCtx) -> Vec<SVar> {
        self.scope
            .iter()
            // `self` has no type while its blob literal is being checked: only field reads/writes use it
            .filter(|v| self.p.var(v.id).kind != VarKind::SelfVar)
            .filter(|v| &v.ty == ty && (!ctx.pure || !v.mutable))
            .cloned()
            .collect()
    }

    fn fn_room(&self) -> bool {
        self.fn_exprs < self.cfg.max_fn_exprs
    }

    fn callables(&self, ret: &Ty, ctx: &FnCtx) -> Vec<SVar> {
        let room = self.fn_room();
        let base = self.in_base_case;
        let recs: Vec<VarId> = self.rec_stack.iter().map(|r| r.0).collect();
        self.scope
            .iter()
            .filter(|v| room || v.global)
            .filter(|v| !(base && recs.contains(&v.id)))
            .filter(|v| match &v.ty {
                Ty::Fn(_, r, pure) => &**r == ret && (!ctx.pure || *pure),
                _ => false,
            })
            .filter(|v| !ctx.pure || !v.mutable)
            .cloned()
            .collect()
    }

    fn cost(&mut self, ctx: &mut FnCtx, n: usize) {
        ctx.locals += n;
    }

    // ---------------------------------------------------------------- expressions
    pub fn expr(&mut self, ty: &Ty, depth: usize) -> Expr {
        let mut ctx = FnCtx { ret: Ty::Void, in_loop: false, pure: false, rec: None, block_depth: 99, locals: 0, rec_calls: 0 };
        self.expr_c(ty, depth, &mut ctx)
    }

    fn leaf(&mut self, ty: &Ty, ctx: &mut FnCtx) -> Expr {
        let vs = self.vars_of(ty, ctx);
        if !vs.is_empty() && self.t.chance(7, 10) {
            let v = self.t.pick(&vs).clone();
            self.cost(ctx, 1);
            return var(&self.p, v.id);
        }
        self.literal_c(ty, 0, ctx)
    }

    fn literal_c(&mut self, ty: &Ty, depth: usize, ctx: &mut FnCtx) -> Expr {
        match ty {
            Ty::Tuple(ts) => {
                let xs = ts.iter().map(|t| self.expr_c(t, depth.saturating_sub(1), ctx)).collect();
                e(ty.clone(), EKind::Tuple(xs))
            }
            Ty::List(t) => {
                let n = self.t.weighted(&[15, 30, 30, 15, 5]);
                let xs = (0..n).map(|_| self.expr_c(t, depth.saturating_sub(1), ctx)).collect();
                e(ty.clone(), EKind::List(xs))
            }
            Ty::Maybe(t) => {
                if self.t.chance(2, 3) {
                    let x = self.expr_c(t, depth.saturating_sub(1), ctx);
                    e(ty.clone(), EKind::MaybeJust(Box::new(x)))
                } else {
                    e(ty.clone(), EKind::MaybeNone)
                }
            }
            Ty::Enum(en) => {
                let nv = self.p.enums[*en].variants.len();
                let vi = self.t.below(nv);
                let v = self.p.enums[*en].variants[vi].clone();
                let payload = v.payload.as_ref().map(|pt| Box::new(self.expr_c(pt, depth.saturating_sub(1), ctx)));
                e(ty.clone(), EKind::Variant(*en, v.name.clone(), payload))
            }
            Ty::Blob(b) => {
                let decl = self.p.blobs[*b].clone();
                let self_var = self.fresh("self", Ty::Blob(*b), VarKind::SelfVar, true);
                self.cost(ctx, 2);
                let mut fields = Vec::new();
                for f in &decl.fields {
                    let fx = match &f.ty {
                        Ty::Fn(ps, r, pure) => {
                            let def = self.lambda_c(ps.clone(), (**r).clone(), *pure, None, Some((self_var, *b)), ctx);
                            e(f.ty.clone(), EKind::Lambda(Box::new(def)))
                        }
                        other => self.expr_c(other, depth.saturating_sub(1), ctx),
                    };
                    fields.push((f.name.clone(), fx));
                }
                e(ty.clone(), EKind::BlobNew { blob: *b, self_var, fields })
            }
            Ty::Fn(ps, r, pure) => {
                let def = self.lambda_c(ps.clone(), (**r).clone(), *pure, None, None, ctx);
                e(ty.clone(), EKind::Lambda(Box::new(def)))
            }
            _ => self.literal(ty, depth),
        }
    }

    fn call_to(&mut self, f: &SVar, depth: usize, ctx: &mut FnCtx) -> Expr {
        let (ps, r) = match &f.ty {
            Ty::Fn(ps, r, _) => (ps.clone(), (**r).clone()),
            _ => unreachable!(),
        };
        let mut args = Vec::new();
        for (i, pt) in ps.iter().enumerate() {
            if i == 0 && f.rec {
                // fuel argument
                match self.rec_stack.iter().find(|(fv, _)| *fv == f.id).copied() {
                    Some((_, fuel)) => {
                        ctx.rec_calls += 1;
                        self.cost(ctx, 1);
                        args.push(bin(BinOp::Sub, Ty::Int, var(&self.p, fuel), int(1)));
                    }
                    None => {
                        let n = self.t.range(0, self.cfg.fuel);
                        args.push(int(n));
                    }
                }
            } else {
                args.push(self.expr_c(pt, depth.saturating_sub(1), ctx));
            }
        }
        self.cost(ctx, 2);
        if !f.global {
            self.fn_exprs += 1;
        }
        e(r, EKind::Call(Box::new(var(&self.p, f.id)), args))
    }

    fn method_call(&mut self, ret: &Ty, depth: usize, ctx: &mut FnCtx) -> Option<Expr> {
        if !self.cfg.methods || !self.fn_room() {
            return None;
        }
        self.fn_exprs += 1;
        // a blob variable in scope whose declaration has a method returning `ret`
        let mut cands: Vec<(SVar, String, Vec<Ty>)> = Vec::new();
        for v in self.scope.iter() {
            if ctx.pure && v.mutable {
                continue;
            }
            // `self.m()` is rejected by the checker ("Unknown types cannot be called"): self has no type yet
            if self.p.var(v.id).kind == VarKind::SelfVar {
                continue;
            }
            if let Ty::Blob(b) = &v.ty {
                for f in &self.p.blobs[*b].fields {
                    if let Ty::Fn(ps, r, pure) = &f.ty {
                        if &**r == ret && (!ctx.pure || *pure) {
                            cands.push((v.clone(), f.name.clone(), ps.clone()));
                        }
                    }
                    if let Ty::Blob(c) = &f.ty {
                        // a method of a blob-typed field: `v.f.m(..)`
                        for g in &self.p.blobs[*c].fields {
                            if let Ty::Fn(ps, r, pure) = &g.ty {
                                if &**r == ret && (!ctx.pure || *pure) {
                                    cands.push((v.clone(), format!("{}.{}", f.name, g.name), ps.clone()));
                                }
                            }
                        }
                    }
                }
            }
        }
        if cands.is_empty() {
            return None;
        }
        let (v, name, ps) = self.t.pick(&cands).clone();
        let field_ty = |p: &Program, t: &Ty, n: &str| -> Ty {
            match t {
                Ty::Blob(b) => p.blobs[*b].fields.iter().find(|f| f.name == n).map(|f| f.ty.clone()).unwrap_or(Ty::Int),
                _ => Ty::Int,
            }
        };
        let args: Vec<Expr> = ps.iter().map(|pt| self.expr_c(pt, depth.saturating_sub(1), ctx)).collect();
        self.cost(ctx, 2);
        let callee = match name.split_once('.') {
            Some((outer, inner)) => {
                let oty = field_ty(&self.p, &v.ty, outer);
                let fty = field_ty(&self.p, &oty, inner);
                let base = e(oty, EKind::Field(Box::new(var(&self.p, v.id)), outer.to_string()));
                e(fty, EKind::Field(Box::new(base), inner.to_string()))
            }
            None => {
                let fty = field_ty(&self.p, &v.ty, &name);
                e(fty, EKind::Field(Box::new(var(&self.p, v.id)), name))
            }
        };
        Some(e(ret.clone(), EKind::Call(Box::new(callee), args)))
    }

    fn field_read(&mut self, ty: &Ty, ctx: &mut FnCtx) -> Option<Expr> {
        let mut cands: Vec<(SVar, String)> = Vec::new();
        for v in self.scope.iter() {
            if ctx.pure && v.mutable {
                continue;
            }
            if let Ty::Blob(b) = &v.ty {
                for f in &self.p.blobs[*b].fields {
                    if let Ty::Blob(c) = &f.ty {
                        // a field of a blob-typed field: `v.f.g`
                        for g in &self.p.blobs[*c].fields {
                            if &g.ty == ty {
                                cands.push((v.clone(), format!("{}.{}", f.name, g.name)));
                            }
                        }
                    }
                    if &f.ty == ty {
                        cands.push((v.clone(), f.name.clone()));
                    }
                }
            }
        }
        if cands.is_empty() {
            return None;
        }
        let (v, name) = self.t.pick(&cands).clone();
        self.cost(ctx, 1);
        match name.split_once('.') {
            Some((outer, inner)) => {
                let oty = match &v.ty {
                    Ty::Blob(b) => self.p.blobs[*b].fields.iter().find(|f| f.name == outer).map(|f| f.ty.clone()).unwrap_or(Ty::Int),
                    _ => Ty::Int,
                };
                let base = e(oty, EKind::Field(Box::new(var(&self.p, v.id)), outer.to_string()));
                Some(e(ty.clone(), EKind::Field(Box::new(base), inner.to_string())))
            }
            None => Some(e(ty.clone(), EKind::Field(Box::new(var(&self.p, v.id)), name))),
        }
    }

    fn tuple_index(&mut self, ty: &Ty, ctx: &mut FnCtx) -> Option<Expr> {
        let mut cands: Vec<(SVar, usize)> = Vec::new();
        for v in self.scope.iter() {
            if ctx.pure && v.mutable {
                continue;
            }
            if let Ty::Tuple(ts) = &v.ty {
                for (i, t) in ts.iter().enumerate() {
                    if t == ty {
                        cands.push((v.clone(), i));
                    }
                }
            }
        }
        if cands.is_empty() {
            return None;
        }
        let (v, i) = self.t.pick(&cands).clone();
        self.cost(ctx, 1);
        Some(e(ty.clone(), EKind::TupleIdx(Box::new(var(&self.p, v.id)), i)))
    }

    fn if_expr(&mut self, ty: &Ty, depth: usize, ctx: &mut FnCtx) -> Expr {
        let n = self.t.weighted(&[70, 25, 5]) + 1;
        let mut branches = Vec::new();
        for _ in 0..n {
            let c = self.expr_c(&Ty::Bool, depth.saturating_sub(1), ctx);
            let b = self.value_block(ty, depth.saturating_sub(1), ctx);
            branches.push((c, b));
        }
        let d = self.value_block(ty, depth.saturating_sub(1), ctx);
        self.cost(ctx, 1);
        e(ty.clone(), EKind::If(branches, Some(d)))
    }

    /// a small block whose value has type `ty` (0-2 statements + value)
    fn value_block(&mut self, ty: &Ty, depth: usize, ctx: &mut FnCtx) -> Block {
        let scope = self.scope.len();
        let mut stmts = Vec::new();
        if ctx.block_depth > 0 && !ctx.pure && self.t.chance(1, 4) {
            ctx.block_depth -= 1;
            let n = self.t.below(2) + 1;
            for _ in 0..n {
                let first = stmts.is_empty();
                stmts.extend(self.stmt(ctx, first));
            }
            ctx.block_depth += 1;
        }
        let v = self.expr_c(ty, depth, ctx);
        self.scope.truncate(scope);
        Block { stmts, value: Some(Box::new(v)) }
    }

    fn case_expr(&mut self, ty: &Ty, depth: usize, ctx: &mut FnCtx) -> Option<Expr> {
        // scrutinee: an enum-typed or Maybe-typed expression
        let mut scrut_tys: Vec<Ty> = Vec::new();
        if self.cfg.enums {
            for i in 0..self.p.enums.len() {
                scrut_tys.push(Ty::Enum(i));
            }
        }
        for v in self.scope.iter() {
            if let Ty::Maybe(_) = &v.ty {
                if !scrut_tys.contains(&v.ty) {
                    scrut_tys.push(v.ty.clone());
                }
            }
        }
        if self.cfg.lists && self.t.chance(1, 3) {
            // list.get(...) on some list in scope
            let lists: Vec<SVar> =
                self.scope.iter().filter(|v| matches!(v.ty, Ty::List(_)) && (!ctx.pure || !v.mutable)).cloned().collect();
            if !lists.is_empty() {
                let l = self.t.pick(&lists).clone();
                let inner = match &l.ty {
                    Ty::List(t) => (**t).clone(),
                    _ => unreachable!(),
                };
                let idx = if self.t.chance(1, 2) { int(self.t.range(-1, 4)) } else { self.expr_c(&Ty::Int, 1, ctx) };
                self.cost(ctx, 3);
                let scrut = e(Ty::Maybe(Box::new(inner.clone())), EKind::Std(StdFn::ListGet, vec![var(&self.p, l.id), idx]));
                return Some(self.case_on(scrut, ty, depth, ctx));
            }
        }
        if scrut_tys.is_empty() {
            return None;
        }
        let st = self.t.pick(&scrut_tys).clone();
        let scrut = self.expr_c(&st, depth.saturating_sub(1), ctx);
        Some(self.case_on(scrut, ty, depth, ctx))
    }

    fn case_on(&mut self, scrut: Expr, ty: &Ty, depth: usize, ctx: &mut FnCtx) -> Expr {
        let variants: Vec<(String, Option<Ty>)> = match &scrut.ty {
            Ty::Enum(en) => self.p.enums[*en].variants.iter().map(|v| (v.name.clone(), v.payload.clone())).collect(),
            Ty::Maybe(t) => vec![("Just".to_string(), Some((**t).clone())), ("None".to_string(), None)],
            _ => unreachable!(),
        };
        // total (all arms, no else) or partial (+ else)
        let total = self.t.chance(1, 2);
        let mut arms = Vec::new();
        for (name, payload) in variants.iter() {
            if !total && variants.len() > 1 && self.t.chance(1, 3) {
                continue;
            }
            let scope = self.scope.len();
            let bind = match payload {
                Some(pt) if self.t.chance(3, 4) => {
                    let v = self.fresh("b", pt.clone(), VarKind::CaseBind, false);
                    self.scope.push(SVar { id: v, ty: pt.clone(), mutable: false, assignable: false, rec: false, global: false });
                    self.cost(ctx, 1);
                    Some(v)
                }
                _ => None,
            };
            let body = if *ty == Ty::Void { self.stmt_block(ctx, 2) } else { self.value_block(ty, depth.saturating_sub(1), ctx) };
            self.scope.truncate(scope);
            arms.push(Arm { variant: name.clone(), bind, body });
        }
        let all = arms.len() == variants.len();
        let default = if !all || !total {
            Some(if *ty == Ty::Void { self.stmt_block(ctx, 2) } else { self.value_block(ty, depth.saturating_sub(1), ctx) })
        } else {
            None
        };
        self.cost(ctx, 4);
        e(ty.clone(), EKind::Case { scrut: Box::new(scrut), arms, default })
    }

    fn cmp_operand_ty(&mut self) -> Ty {
        match self.t.weighted(&[35, 20, 15, 10, 10]) {
            0 => Ty::Int,
            1 => Ty::Float,
            2 => Ty::Str,
            3 => Ty::Tuple(vec![Ty::Int, Ty::Int]),
            _ => {
                let a = self.scalar_ty();
                let a = if a == Ty::Bool { Ty::Int } else { a };
                Ty::Tuple(vec![a, Ty::Str])
            }
        }
    }

    pub fn expr_c(&mut self, ty: &Ty, depth: usize, ctx: &mut FnCtx) -> Expr {
        self.budget -= 1;
        if depth == 0 || self.t.exhausted() || ctx.locals > self.cfg.locals_budget || self.budget <= 0 {
            return self.leaf(ty, ctx);
        }
        let d = depth - 1;
        let deep = self.fn_depth >= 3 || !self.fn_room();
        // generic productions available for every type
        let calls = self.callables(ty, ctx);
        let can_call = !calls.is_empty() && ctx.rec_calls < 2;
        let g = self.t.weighted(&[
            30,                                             // 0 type-specific
            25,                                             // 1 leaf
            if can_call { 14 * self.cfg.reentrant_bias.min(3) } else { 0 }, // 2 call
            8,                                              // 3 if-expression
            if self.cfg.enums || self.cfg.lists { 5 } else { 0 }, // 4 case-expression
            5,                                              // 5 field read
            4,                                              // 6 tuple index
            if self.cfg.methods { 5 } else { 0 },           // 7 method call
            if self.cfg.closures && !ctx.pure && !deep { 3 } else { 0 }, // 8 immediately applied lambda
        ]);
        match g {
            1 => return self.leaf(ty, ctx),
            2 => {
                let f = self.t.pick(&calls).clone();
                return self.call_to(&f, depth, ctx);
            }
            3 => {
                if ty != &Ty::Void {
                    return self.if_expr(ty, depth, ctx);
                }
            }
            4 => {
                if let Some(x) = self.case_expr(ty, depth, ctx) {
                    return x;
                }
            }
            5 => {
                if let Some(x) = self.field_read(ty, ctx) {
                    return x;
                }
            }
            6 => {
                if let Some(x) = self.tuple_index(ty, ctx) {
                    return x;
                }
            }
            7 => {
                if let Some(x) = self.method_call(ty, depth, ctx) {
                    return x;
                }
            }
            8 => {
                if !ty.is_fn() {
                    let np = self.t.below(3);
                    let mut pts = Vec::new();
                    for _ in 0..np {
                        pts.push(self.value_ty(1));
                    }
                    let def = self.lambda_c(pts.clone(), ty.clone(), false, None, None, ctx);
                    let fty = Ty::Fn(pts.clone(), Box::new(ty.clone()), false);
                    let args: Vec<Expr> = pts.iter().map(|t| self.expr_c(t, d, ctx)).collect();
                    self.cost(ctx, 2);
                    return e(ty.clone(), EKind::Call(Box::new(e(fty, EKind::Lambda(Box::new(def)))), args));
                }
            }
            _ => {}
        }
        match ty {
            Ty::Int => match self.t.weighted(&[30, 20, 20, 8, if self.cfg.lists && !ctx.pure { 8 } else { 0 }, if self.cfg.lists && self.cfg.higher_order && !deep { 4 } else { 0 }]) {
                0 => {
                    let a = self.expr_c(&Ty::Int, d, ctx);
                    let b = self.expr_c(&Ty::Int, d, ctx);
                    bin(BinOp::Add, Ty::Int, a, b)
                }
                1 => {
                    let a = self.expr_c(&Ty::Int, d, ctx);
                    let b = self.expr_c(&Ty::Int, d, ctx);
                    bin(BinOp::Sub, Ty::Int, a, b)
                }
                2 => {
                    let a = self.expr_c(&Ty::Int, d, ctx);
                    let b = self.expr_c(&Ty::Int, d, ctx);
                    bin(BinOp::Mul, Ty::Int, a, b)
                }
                3 => {
                    let a = self.expr_c(&Ty::Int, d, ctx);
                    e(Ty::Int, EKind::Neg(Box::new(a)))
                }
                4 => {
                    let lt = Ty::List(Box::new(self.scalar_ty()));
                    let l = self.expr_c(&lt, d, ctx);
                    self.cost(ctx, 2);
                    e(Ty::Int, EKind::Std(StdFn::ListLen, vec![l]))
                }
                _ => self.fold_expr(&Ty::Int, d, ctx),
            },
            Ty::Float => match self.t.weighted(&[25, 15, 20, 15, 10, 6]) {
                0 | 1 | 2 => {
                    let op = *self.t.pick(&[BinOp::Add, BinOp::Sub, BinOp::Mul]);
                    let a = self.expr_c(&Ty::Float, d, ctx);
                    let b = self.expr_c(&Ty::Float, d, ctx);
                    bin(op, Ty::Float, a, b)
                }
                3 => {
                    let a = self.expr_c(&Ty::Float, d, ctx);
                    let b = self.expr_c(&Ty::Float, d, ctx);
                    bin(BinOp::Div, Ty::Float, a, b)
                }
                4 => {
                    let a = self.expr_c(&Ty::Int, d, ctx);
                    let b = self.expr_c(&Ty::Int, d, ctx);
                    bin(BinOp::Div, Ty::Float, a, b)
                }
                _ => {
                    let a = self.expr_c(&Ty::Float, d, ctx);
                    e(Ty::Float, EKind::Neg(Box::new(a)))
                }
            },
            Ty::Str => match self.t.weighted(&[40, 30]) {
                0 => {
                    let a = self.expr_c(&Ty::Str, d, ctx);
                    let b = self.expr_c(&Ty::Str, d, ctx);
                    bin(BinOp::Add, Ty::Str, a, b)
                }
                _ => {
                    let t = self.printable_ty();
                    let a = self.expr_c(&t, d, ctx);
                    self.cost(ctx, 2);
                    e(Ty::Str, EKind::Std(StdFn::AsStr, vec![a]))
                }
            },
            Ty::Bool => match self.t.weighted(&[40, 20, 20, 10, if ctx.pure && self.cfg.toplevel_calls { 0 } else { 5 }]) {
                4 => {
                    // `a <=> b` used as an expression (its value is a bool; a failing one ends the program)
                    let t = self.t.pick(&[Ty::Int, Ty::Str, Ty::Bool]).clone();
                    // equal operands: a leaf written twice (a cloned compound expression would duplicate the identity of
                    // the `<!>` statements inside it); otherwise two independent expressions
                    let (a, b) = if self.t.chance(3, 4) {
                        let a = self.leaf(&t, ctx);
                        let b = a.clone();
                        (a, b)
                    } else {
                        (self.expr_c(&t, d.min(1), ctx), self.expr_c(&t, d.min(1), ctx))
                    };
                    self.cost(ctx, 1);
                    e(Ty::Bool, EKind::AssertEq(Box::new(a), Box::new(b)))
                }
                0 => {
                    let t = self.cmp_operand_ty();
                    let op = *self.t.pick(&[BinOp::Lt, BinOp::Le, BinOp::Gt, BinOp::Ge, BinOp::Eq, BinOp::Ne]);
                    let a = self.expr_c(&t, d, ctx);
                    // int-vs-float ordering is legal for < <= > >=
                    let t2 = if matches!(op, BinOp::Lt | BinOp::Gt) && t.is_num() && self.t.chance(1, 4) {
                        if t == Ty::Int {
                            Ty::Float
                        } else {
                            Ty::Int
                        }
                    } else {
                        t.clone()
                    };
                    let b = self.expr_c(&t2, d, ctx);
                    bin(op, Ty::Bool, a, b)
                }
                1 => {
                    // == / != on an arbitrary comparable type
                    let t = self.value_ty(1);
                    let t = if t.eq_ok(&self.p) { t } else { Ty::Int };
                    let op = *self.t.pick(&[BinOp::Eq, BinOp::Ne]);
                    let a = self.expr_c(&t, d, ctx);
                    let b = self.expr_c(&t, d, ctx);
                    bin(op, Ty::Bool, a, b)
                }
                2 => {
                    let op = *self.t.pick(&[BinOp::And, BinOp::Or]);
                    let a = self.expr_c(&Ty::Bool, d, ctx);
                    let b = self.expr_c(&Ty::Bool, d, ctx);
                    self.cost(ctx, 1);
                    bin(op, Ty::Bool, a, b)
                }
                _ => {
                    let a = self.expr_c(&Ty::Bool, d, ctx);
                    e(Ty::Bool, EKind::Not(Box::new(a)))
                }
            },
            Ty::Tuple(ts) => {
                if ty.arith_ok() && self.t.chance(1, 3) {
                    let op = *self.t.pick(&[BinOp::Add, BinOp::Sub, BinOp::Mul]);
                    let a = self.expr_c(ty, d, ctx);
                    let b = self.expr_c(ty, d, ctx);
                    bin(op, ty.clone(), a, b)
                } else if !ts.is_empty() && ts.iter().all(|t| *t == Ty::Float) && self.t.chance(1, 4) {
                    let a = self.expr_c(ty, d, ctx);
                    let b = if self.t.bool() { self.expr_c(ty, d, ctx) } else { self.expr_c(&Ty::Float, d, ctx) };
                    bin(BinOp::Div, ty.clone(), a, b)
                } else {
                    self.literal_c(ty, depth, ctx)
                }
            }
            Ty::List(inner) => {
                if self.cfg.higher_order && !deep && self.t.chance(1, 4) {
                    self.map_filter_expr(inner, d, ctx)
                } else {
                    self.literal_c(ty, depth, ctx)
                }
            }
            _ => self.literal_c(ty, depth, ctx),
        }
    }

    fn printable_ty(&mut self) -> Ty {
        for _ in 0..3 {
            let t = self.value_ty(1);
            if t.printable(&self.p) {
                return t;
            }
        }
        Ty::Int
    }

    /// `fold(list, init, pu item, acc -> ... end)`
    fn fold_expr(&mut self, acc_ty: &Ty, d: usize, ctx: &mut FnCtx) -> Expr {
        let it = self.scalar_ty();
        let l = self.expr_c(&Ty::List(Box::new(it.clone())), d, ctx);
        let init = self.expr_c(acc_ty, d, ctx);
        let def = self.lambda_c(vec![it.clone(), acc_ty.clone()], acc_ty.clone(), true, None, None, ctx);
        let fty = Ty::Fn(vec![it, acc_ty.clone()], Box::new(acc_ty.clone()), true);
        self.cost(ctx, 3);
        e(acc_ty.clone(), EKind::Std(StdFn::ListFold, vec![l, init, e(fty, EKind::Lambda(Box::new(def)))]))
    }

    /// a library higher-order function whose callback runs the same library function again (re-entrancy of the
    /// runtime library): `filter(L, pu x -> filter(L2, pu y -> y < x) != [])`, `map(L, pu x -> fold(map(L2, ..), ..))`
    fn nested_hof(&mut self, ctx: &mut FnCtx) -> Expr {
        let li = Ty::List(Box::new(Ty::Int));
        let mut lit = |g: &mut Self| -> Expr {
            let n = 2 + g.t.below(3);
            let xs: Vec<Expr> = (0..n).map(|_| int(g.t.range(-3, 9))).collect();
            e(Ty::List(Box::new(Ty::Int)), EKind::List(xs))
        };
        let l1 = lit(self);
        let l2 = lit(self);
        let x = self.fresh("p", Ty::Int, VarKind::Param, false);
        let y = self.fresh("p", Ty::Int, VarKind::Param, false);
        let cmp = *self.t.pick(&[BinOp::Lt, BinOp::Gt, BinOp::Le, BinOp::Ne]);
        self.cost(ctx, 10);
        self.fn_exprs += 2;
        let pred_ty = Ty::Fn(vec![Ty::Int], Box::new(Ty::Bool), true);
        let map_ty = Ty::Fn(vec![Ty::Int], Box::new(Ty::Int), true);
        let lam = |params: Vec<VarId>, ret: Ty, value: Expr| FnDef { params, ret, body: Block { stmts: vec![], value: Some(Box::new(value)) }, pure: true };
        if self.t.bool() {
            // filter in filter
            let inner_pred = lam(vec![y], Ty::Bool, bin(cmp, Ty::Bool, var(&self.p, y), var(&self.p, x)));
            let inner = e(li.clone(), EKind::Std(StdFn::ListFilter, vec![l2, e(pred_ty.clone(), EKind::Lambda(Box::new(inner_pred)))]));
            let outer_body = bin(BinOp::Ne, Ty::Bool, inner, e(li.clone(), EKind::List(vec![])));
            let outer_pred = lam(vec![x], Ty::Bool, outer_body);
            e(li, EKind::Std(StdFn::ListFilter, vec![l1, e(pred_ty, EKind::Lambda(Box::new(outer_pred)))]))
        } else {
            // map in map (through a comparison of the inner result, so that the value depends on it)
            let inner_f = lam(vec![y], Ty::Int, bin(BinOp::Add, Ty::Int, var(&self.p, y), var(&self.p, x)));
            let inner = e(li.clone(), EKind::Std(StdFn::ListMap, vec![l2.clone(), e(map_ty.clone(), EKind::Lambda(Box::new(inner_f)))]));
            let same = bin(BinOp::Eq, Ty::Bool, inner, l2);
            let then_b = Block { stmts: vec![], value: Some(Box::new(var(&self.p, x))) };
            let else_b = Block { stmts: vec![], value: Some(Box::new(bin(BinOp::Mul, Ty::Int, var(&self.p, x), int(10)))) };
            let outer_f = lam(vec![x], Ty::Int, e(Ty::Int, EKind::If(vec![(same, then_b)], Some(else_b))));
            e(li, EKind::Std(StdFn::ListMap, vec![l1, e(map_ty, EKind::Lambda(Box::new(outer_f)))]))
        }
    }

    fn map_filter_expr(&mut self, out_inner: &Ty, d: usize, ctx: &mut FnCtx) -> Expr {
        let out_ty = Ty::List(Box::new(out_inner.clone()));
        if *out_inner == Ty::Int && self.cfg.reentrant_bias >= 2 && self.t.chance(1, 2) {
            return self.nested_hof(ctx);
        }
        if self.t.bool() {
            // filter
            let l = self.expr_c(&out_ty, d, ctx);
            let def = self.lambda_c(vec![out_inner.clone()], Ty::Bool, true, None, None, ctx);
            let fty = Ty::Fn(vec![out_inner.clone()], Box::new(Ty::Bool), true);
            self.cost(ctx, 3);
            e(out_ty, EKind::Std(StdFn::ListFilter, vec![l, e(fty, EKind::Lambda(Box::new(def)))]))
        } else {
            let it = self.scalar_ty();
            let l = self.expr_c(&Ty::List(Box::new(it.clone())), d, ctx);
            let def = self.lambda_c(vec![it.clone()], out_inner.clone(), true, None, None, ctx);
            let fty = Ty::Fn(vec![it], Box::new(out_inner.clone()), true);
            self.cost(ctx, 3);
            e(out_ty, EKind::Std(StdFn::ListMap, vec![l, e(fty, EKind::Lambda(Box::new(def)))]))
        }
    }

    // ---------------------------------------------------------------- functions
    pub fn lambda(&mut self, ps: Vec<Ty>, ret: Ty, pure: bool, rec: Option<VarId>, self_var: Option<(VarId, usize)>) -> FnDef {
        let mut ctx = FnCtx { ret: Ty::Void, in_loop: false, pure: false, rec: None, block_depth: self.cfg.block_depth, locals: 0, rec_calls: 0 };
        self.lambda_c(ps, ret, pure, rec, self_var, &mut ctx)
    }

    /// `rec`: the variable the function is bound to when it is a recursive function (first param = fuel)
    fn lambda_c(
        &mut self,
        ps: Vec<Ty>,
        ret: Ty,
        pure: bool,
        rec: Option<VarId>,
        self_var: Option<(VarId, usize)>,
        outer: &mut FnCtx,
    ) -> FnDef {
        self.fn_depth += 1;
        self.fn_exprs += 1;
        let scope = self.scope.len();
        // `self` always means the innermost blob literal: an enclosing literal's `self` cannot be written inside
        // this method, so it is hidden (its scope entry gets a type nothing asks for) until the method ends
        let mut hidden_selfs: Vec<(usize, Ty)> = Vec::new();
        if let Some((sv, b)) = self_var {
            for i in 0..self.scope.len() {
                if self.p.var(self.scope[i].id).kind == VarKind::SelfVar {
                    hidden_selfs.push((i, std::mem::replace(&mut self.scope[i].ty, Ty::Tuple(vec![Ty::Void]))));
                }
            }
            self.scope.push(SVar { id: sv, ty: Ty::Blob(b), mutable: true, assignable: false, rec: false, global: false });
        }
        let mut params = Vec::new();
        for pt in &ps {
            let v = self.fresh("p", pt.clone(), VarKind::Param, false);
            self.scope.push(SVar { id: v, ty: pt.clone(), mutable: false, assignable: false, rec: false, global: false });
            params.push(v);
        }
        let mut ctx = FnCtx {
            ret: ret.clone(),
            in_loop: false,
            // a function literal nested in a pure function is checked under the pure rules as well
            pure: pure || outer.pure,
            rec: rec.map(|f| (f, params[0])),
            block_depth: if outer.block_depth >= 90 { self.cfg.block_depth } else { 2 },
            locals: 0,
            rec_calls: 0,
        };
        let mut body = Block::default();
        let pushed_rec = if let Some(r) = ctx.rec {
            self.rec_stack.push(r);
            true
        } else {
            false
        };
        if let Some((_, fuel)) = ctx.rec {
            // base case first
            let base = if ret == Ty::Void {
                Block { stmts: vec![Stmt::Ret(None)], value: None }
            } else {
                // the base case must not recurse
                let saved = ctx.rec_calls;
                ctx.rec_calls = 99;
                let was = self.in_base_case;
                self.in_base_case = true;
                let v = self.expr_c(&ret, 1, &mut ctx);
                self.in_base_case = was;
                ctx.rec_calls = saved;
                Block { stmts: vec![Stmt::Ret(Some(v))], value: None }
            };
            let cond = bin(BinOp::Le, Ty::Bool, var(&self.p, fuel), int(0));
            body.stmts.push(Stmt::Expr(e(Ty::Void, EKind::If(vec![(cond, base)], None))));
        }
        let max_n = match self.fn_depth {
            0 | 1 => self.cfg.max_stmts,
            2 => 3,
            3 => 1,
            _ => 0,
        };
        let n = if self.t.exhausted() || self.budget <= 0 { 0 } else { self.t.below(max_n + 1) };
        for _ in 0..n {
            if ctx.locals > self.cfg.locals_budget || self.budget <= 0 {
                break;
            }
            let first = body.stmts.is_empty();
            let ss = self.stmt(&mut ctx, first);
            body.stmts.extend(ss);
        }
        if ret == Ty::Void {
            self.voidify(&mut body);
        }
        if self.cfg.long_bodies > 0 && self.fn_depth == 1 && self.t.chance(1, 6) {
            // long straight-line bodies (every definition and every read is a Lua local)
            let n = self.t.below(self.cfg.long_bodies + 1);
            for k in 0..n {
                let v = self.fresh("w", Ty::Int, VarKind::Local, false);
                body.stmts.push(Stmt::Def { var: v, mutable: false, value: int(k as i64) });
            }
        }
        if let Some((fv, fuel)) = ctx.rec {
            if !ctx.pure && ret != Ty::Void && ctx.rec_calls < 2 && self.cfg.reentrant_bias >= 2 && self.t.chance(1, 2) {
                let ss = self.held_across_call(fv, fuel, &mut ctx);
                body.stmts.extend(ss);
            }
        }
        if ret != Ty::Void {
            let dd = if self.fn_depth >= 3 { 1 } else { self.cfg.expr_depth.min(3) };
            let holder = ctx.rec.is_some() && ctx.rec_calls < 2 && self.t.chance(self.cfg.reentrant_bias.min(3), 4);
            let v = if holder {
                // a value that is held while a re-entrant call of this very function runs
                let held = match self.t.below(3) {
                    0 => self.if_expr(&ret, 2, &mut ctx),
                    1 => self.case_expr(&ret, 2, &mut ctx).unwrap_or_else(|| self.if_expr(&ret, 2, &mut ctx)),
                    _ => self.expr_c(&ret, 2, &mut ctx),
                };
                let fsv = self.scope.iter().find(|v| Some(v.id) == ctx.rec.map(|r| r.0)).cloned();
                match fsv {
                    Some(fsv) => {
                        let call = self.call_to(&fsv, 2, &mut ctx);
                        let (a, b) = if self.t.bool() { (held, call) } else { (call, held) };
                        match &ret {
                            Ty::Int => bin(*self.t.pick(&[BinOp::Add, BinOp::Sub, BinOp::Mul]), Ty::Int, a, b),
                            Ty::Float => bin(*self.t.pick(&[BinOp::Add, BinOp::Sub, BinOp::Mul]), Ty::Float, a, b),
                            Ty::Str => bin(BinOp::Add, Ty::Str, a, b),
                            other => {
                                let tt = Ty::Tuple(vec![other.clone(), other.clone()]);
                                let idx = self.t.below(2);
                                e(other.clone(), EKind::TupleIdx(Box::new(e(tt, EKind::Tuple(vec![a, b]))), idx))
                            }
                        }
                    }
                    None => held,
                }
            } else {
                self.expr_c(&ret, dd, &mut ctx)
            };
            body.value = Some(Box::new(v));
        }
        self.fn_depth -= 1;
        if pushed_rec {
            self.rec_stack.pop();
        }
        self.scope.truncate(scope);
        for (i, ty) in hidden_selfs {
            self.scope[i].ty = ty;
        }
        FnDef { params, ret, body, pure }
    }

    // ---------------------------------------------------------------- statements
    fn stmt_block(&mut self, ctx: &mut FnCtx, max: usize) -> Block {
        let scope = self.scope.len();
        let mut b = Block::default();
        if ctx.block_depth == 0 {
            return b;
        }
        ctx.block_depth -= 1;
        let n = self.t.below(max + 1);
        for _ in 0..n {
            if ctx.locals > self.cfg.locals_budget || self.budget <= 0 {
                break;
            }
            let first = b.stmts.is_empty();
            let ss = self.stmt(ctx, first);
            let stop = ss.iter().any(|s| matches!(s, Stmt::Ret(_) | Stmt::Break | Stmt::Continue));
            b.stmts.extend(ss);
            if stop {
                break;
            }
        }
        ctx.block_depth += 1;
        self.voidify(&mut b);
        self.scope.truncate(scope);
        b
    }

    /// a block in void position must not end with an expression statement that has a value (the value of
    /// the last expression statement is the block's value: implicit return / branch value)
    fn voidify(&mut self, b: &mut Block) {
        if b.value.is_some() {
            return;
        }
        // The checker unifies the "values" of all branches of an if/case that has an else, where the value
        // of a block is its last expression statement (and, failing that, the type of a `ret` inside it).
        // Branch blocks in statement position therefore never end with an expression statement.
        match b.stmts.last() {
            Some(Stmt::Expr(x)) => {
                let plain = !matches!(x.kind, EKind::If(..) | EKind::Case { .. }) && x.ty != Ty::Void;
                if plain {
                    if let Some(Stmt::Expr(x)) = b.stmts.pop() {
                        let v = self.fresh("u", x.ty.clone(), VarKind::Local, false);
                        b.stmts.push(Stmt::Def { var: v, mutable: false, value: x });
                    }
                } else {
                    let v = self.fresh("u", Ty::Int, VarKind::Local, false);
                    b.stmts.push(Stmt::Def { var: v, mutable: false, value: int(0) });
                }
            }
            Some(Stmt::Assert(..)) => {
                let v = self.fresh("u", Ty::Int, VarKind::Local, false);
                b.stmts.push(Stmt::Def { var: v, mutable: false, value: int(0) });
            }
            _ => {}
        }
    }

    fn local(&mut self, prefix: &str, ty: Ty, mutable: bool, assignable: bool) -> VarId {
        let v = self.fresh(prefix, ty.clone(), VarKind::Local, mutable);
        self.scope.push(SVar { id: v, ty, mutable, assignable, rec: false, global: false });
        v
    }

    /// Statements for the body of the recursive function `fv` (fuel parameter `fuel`): a value that differs
    /// from activation to activation (it depends on the fuel) is computed by one of the constructs whose
    /// result lives in a compiler temporary, is then held at an expression position (tuple element, operand,
    /// call argument, list element) while a re-entrant call of the same function runs, and is printed afterwards.
    fn held_across_call(&mut self, fv: VarId, fuel: VarId, ctx: &mut FnCtx) -> Vec<Stmt> {
        let fsv = match self.scope.iter().find(|v| v.id == fv).cloned() {
            Some(v) => v,
            None => return Vec::new(),
        };
        let ret = match &fsv.ty {
            Ty::Fn(_, r, _) => (**r).clone(),
            _ => return Vec::new(),
        };
        self.cost(ctx, 8);
        let k = self.t.range(0, self.cfg.fuel.max(1));
        let fuel_cmp = |g: &mut Self| -> Expr {
            let op = *g.t.pick(&[BinOp::Gt, BinOp::Lt, BinOp::Eq, BinOp::Ne, BinOp::Ge, BinOp::Le]);
            bin(op, Ty::Bool, var(&g.p, fuel), int(k))
        };
        // the held value
        let held: Expr = match self.t.below(7) {
            0 => {
                let c = fuel_cmp(self);
                let x = self.expr_c(&Ty::Bool, 1, ctx);
                bin(BinOp::And, Ty::Bool, c, x)
            }
            1 => {
                let c = fuel_cmp(self);
                let x = self.expr_c(&Ty::Bool, 1, ctx);
                bin(BinOp::Or, Ty::Bool, c, x)
            }
            2 => {
                let c = fuel_cmp(self);
                let x = fuel_cmp(self);
                let op = if self.t.bool() { BinOp::And } else { BinOp::Or };
                bin(op, Ty::Bool, x, c)
            }
            3 => {
                // if-expression whose branches are distinct
                let c = fuel_cmp(self);
                let ty = self.t.pick(&[Ty::Int, Ty::Str, Ty::Bool]).clone();
                let (a, b) = match &ty {
                    Ty::Int => (bin(BinOp::Add, Ty::Int, var(&self.p, fuel), int(100)), int(-1)),
                    Ty::Str => (string("then"), string("else")),
                    _ => (boolean(true), boolean(false)),
                };
                let tb = Block { stmts: vec![], value: Some(Box::new(a)) };
                let eb = Block { stmts: vec![], value: Some(Box::new(b)) };
                e(ty, EKind::If(vec![(c, tb)], Some(eb)))
            }
            4 => {
                // case on a Maybe built from the fuel
                let c = fuel_cmp(self);
                let mt = Ty::Maybe(Box::new(Ty::Int));
                let just = e(mt.clone(), EKind::MaybeJust(Box::new(var(&self.p, fuel))));
                let none = e(mt.clone(), EKind::MaybeNone);
                let scrut = e(
                    mt.clone(),
                    EKind::If(
                        vec![(c, Block { stmts: vec![], value: Some(Box::new(just)) })],
                        Some(Block { stmts: vec![], value: Some(Box::new(none)) }),
                    ),
                );
                let b = self.fresh("c", Ty::Int, VarKind::CaseBind, false);
                let arm = Arm {
                    variant: "Just".into(),
                    bind: Some(b),
                    body: Block { stmts: vec![], value: Some(Box::new(bin(BinOp::Mul, Ty::Int, var(&self.p, b), int(10)))) },
                };
                let d = Block { stmts: vec![], value: Some(Box::new(int(-7))) };
                e(Ty::Int, EKind::Case { scrut: Box::new(scrut), arms: vec![arm], default: Some(d) })
            }
            5 => {
                let op = *self.t.pick(&[BinOp::Add, BinOp::Sub, BinOp::Mul]);
                let x = self.expr_c(&Ty::Int, 1, ctx);
                bin(op, Ty::Int, var(&self.p, fuel), x)
            }
            _ => {
                let c = fuel_cmp(self);
                e(Ty::Bool, EKind::Not(Box::new(c)))
            }
        };
        let hty = held.ty.clone();
        let call = self.call_to(&fsv, 1, ctx);
        let mut out = Vec::new();
        // the position at which the value is held
        let same = hty == ret;
        let scalar_ret = matches!(ret, Ty::Int | Ty::Str | Ty::Bool);
        let mut positions: Vec<usize> = vec![0, 1, 4];
        if same {
            positions.extend([2, 3]);
        }
        if scalar_ret {
            positions.push(5);
        }
        let pos = *self.t.pick(&positions);
        match pos {
            4 => {
                // argument of an immediately applied function literal: `(fn p, q -> p)(held, call)`
                self.fn_exprs += 1;
                let pv = self.fresh("p", hty.clone(), VarKind::Param, false);
                let qv = self.fresh("p", ret.clone(), VarKind::Param, false);
                let def = FnDef { params: vec![pv, qv], ret: hty.clone(), body: Block { stmts: vec![], value: Some(Box::new(var(&self.p, pv))) }, pure: false };
                let lty = Ty::Fn(vec![hty.clone(), ret.clone()], Box::new(hty.clone()), false);
                let applied = e(hty.clone(), EKind::Call(Box::new(e(lty, EKind::Lambda(Box::new(def)))), vec![held, call]));
                let h = self.local("h", hty.clone(), false, false);
                out.push(Stmt::Def { var: h, mutable: false, value: applied });
                out.push(print_stmt(var(&self.p, h)));
            }
            5 => {
                // operand of a string concatenation: `as_str(held) + as_str(call)`
                let l = e(Ty::Str, EKind::Std(StdFn::AsStr, vec![held]));
                let r = e(Ty::Str, EKind::Std(StdFn::AsStr, vec![call]));
                let h = self.local("h", Ty::Str, false, false);
                out.push(Stmt::Def { var: h, mutable: false, value: bin(BinOp::Add, Ty::Str, l, r) });
                out.push(print_stmt(var(&self.p, h)));
            }
            0 | 1 => {
                // tuple element (before the call: held across it; after the call: control)
                // (a copy of an expression containing `<!>` would print one uid on two lines: no control copy then)
                let copyable = !format!("{:?}", held).contains("Unreachable(");
                let (tt, els, idx) = if pos == 0 || !copyable {
                    (Ty::Tuple(vec![hty.clone(), ret.clone()]), vec![held, call], 0)
                } else {
                    let held2 = held.clone();
                    (Ty::Tuple(vec![hty.clone(), ret.clone(), hty.clone()]), vec![held, call, held2], 2)
                };
                let h = self.local("h", tt.clone(), false, false);
                out.push(Stmt::Def { var: h, mutable: false, value: e(tt, EKind::Tuple(els)) });
                out.push(print_stmt(e(hty.clone(), EKind::TupleIdx(Box::new(var(&self.p, h)), 0))));
                if idx == 2 {
                    out.push(print_stmt(e(hty.clone(), EKind::TupleIdx(Box::new(var(&self.p, h)), 2))));
                }
            }
            2 => {
                // left operand of a comparison
                let op = if self.t.bool() { BinOp::Eq } else { BinOp::Ne };
                let h = self.local("h", Ty::Bool, false, false);
                out.push(Stmt::Def { var: h, mutable: false, value: bin(op, Ty::Bool, held, call) });
                out.push(print_stmt(var(&self.p, h)));
            }
            _ => {
                // list element
                let lt = Ty::List(Box::new(hty.clone()));
                let h = self.local("h", lt.clone(), false, false);
                out.push(Stmt::Def { var: h, mutable: false, value: e(lt, EKind::List(vec![held, call])) });
                out.push(print_stmt(var(&self.p, h)));
            }
        }
        out
    }

    /// Hand-shaped closure scenarios with generated parts (C10): closures created per loop iteration and
    /// called after the loop, sibling closures sharing a captured variable, closure factories.
    fn scenario(&mut self, ctx: &mut FnCtx) -> Vec<Stmt> {
        // no further function-typed expressions in this declaration (type checker blow-up, see max_fn_exprs)
        self.fn_exprs = self.cfg.max_fn_exprs;
        self.cost(ctx, 12);
        let mut out = Vec::new();
        let fn_int = Ty::Fn(vec![], Box::new(Ty::Int), false);
        // a blob without function-typed fields and with an int field (scenario 4)
        let plain_blob: Option<(usize, String)> = self.p.blobs.iter().enumerate().find_map(|(i, b)| {
            if b.fields.iter().all(|f| !f.ty.is_fn() && !matches!(f.ty, Ty::Blob(_))) {
                b.fields.iter().find(|f| f.ty == Ty::Int).map(|f| (i, f.name.clone()))
            } else {
                None
            }
        });
        let which = match self.t.below(6) {
            4 if plain_blob.is_none() => 1,
            5 if !self.cfg.methods => 2,
            k => k,
        };
        match which {
            5 => {
                // one blob-literal site evaluated several times (a constructor function), methods reaching the object
                // through `self`, called on objects that are not the newest one from that site
                let bi = self.p.blobs.len();
                self.p.blobs.push(BlobDecl {
                    name: format!("B{}", bi),
                    fields: vec![
                        FieldDecl { name: "fa".into(), ty: Ty::Int },
                        FieldDecl { name: "inc".into(), ty: fn_int.clone() },
                        FieldDecl { name: "get".into(), ty: fn_int.clone() },
                    ],
                });
                let bty = Ty::Blob(bi);
                let s0 = self.fresh("p", Ty::Int, VarKind::Param, false);
                let self_var = self.fresh("self", bty.clone(), VarKind::SelfVar, true);
                let step = self.t.range(1, 9);
                let self_fa = |g: &Self| e(Ty::Int, EKind::Field(Box::new(var(&g.p, self_var)), "fa".into()));
                let inc = FnDef {
                    params: vec![],
                    ret: Ty::Int,
                    body: Block {
                        stmts: vec![Stmt::Assign { target: LValue::Field(Box::new(var(&self.p, self_var)), "fa".into()), op: AssignOp::Add, value: int(step) }],
                        value: Some(Box::new(self_fa(self))),
                    },
                    pure: false,
                };
                let get = FnDef { params: vec![], ret: Ty::Int, body: Block { stmts: vec![], value: Some(Box::new(self_fa(self))) }, pure: false };
                let lit = e(
                    bty.clone(),
                    EKind::BlobNew {
                        blob: bi,
                        self_var,
                        fields: vec![
                            ("fa".into(), var(&self.p, s0)),
                            ("inc".into(), e(fn_int.clone(), EKind::Lambda(Box::new(inc)))),
                            ("get".into(), e(fn_int.clone(), EKind::Lambda(Box::new(get)))),
                        ],
                    },
                );
                let mk = FnDef { params: vec![s0], ret: bty.clone(), body: Block { stmts: vec![], value: Some(Box::new(lit)) }, pure: false };
                let mk_ty = Ty::Fn(vec![Ty::Int], Box::new(bty.clone()), false);
                let mkv = self.fresh("h", mk_ty.clone(), VarKind::Local, false);
                out.push(Stmt::Def { var: mkv, mutable: false, value: e(mk_ty, EKind::Lambda(Box::new(mk))) });
                let k = self.t.range(2, 3) as usize;
                let mut objs = Vec::new();
                let method = |g: &Self, o: VarId, m: &str| {
                    e(Ty::Int, EKind::Call(Box::new(e(fn_int.clone(), EKind::Field(Box::new(var(&g.p, o)), m.to_string()))), vec![]))
                };
                for i in 0..k {
                    let init = self.t.range(0, 9) * 10i64.pow(i as u32 + 1);
                    let o = self.local("v", bty.clone(), false, false);
                    out.push(Stmt::Def { var: o, mutable: false, value: e(bty.clone(), EKind::Call(Box::new(var(&self.p, mkv)), vec![int(init)])) });
                    objs.push(o);
                    // a method of the object made just now, and (below) of older ones
                    if self.t.bool() {
                        out.push(print_stmt(method(self, o, "inc")));
                    }
                }
                let n = self.t.below(4) + 3;
                for _ in 0..n {
                    let o = objs[self.t.below(objs.len())];
                    let x = match self.t.below(3) {
                        0 => method(self, o, "inc"),
                        1 => method(self, o, "get"),
                        _ => e(Ty::Int, EKind::Field(Box::new(var(&self.p, o)), "fa".into())),
                    };
                    out.push(print_stmt(x));
                }
            }
            4 => {
                // an assignment whose target contains a re-entrant call: `pick(n - 1).f = <value of this activation>`
                // (the recursive call runs the same assignment statement again, with another value)
                let (bi, fname) = plain_blob.unwrap();
                let bty = Ty::Blob(bi);
                let k = self.t.range(2, 4) as usize;
                let mut objs = Vec::new();
                for _ in 0..k {
                    let lit = self.literal(&bty, 1);
                    let o = self.local("v", bty.clone(), false, false);
                    out.push(Stmt::Def { var: o, mutable: false, value: lit });
                    objs.push(o);
                }
                let n = self.fresh("p", Ty::Int, VarKind::Param, false);
                let fty = Ty::Fn(vec![Ty::Int], Box::new(bty.clone()), false);
                let pick = self.fresh("h", fty.clone(), VarKind::Local, false);
                let mul = self.t.range(1, 9);
                let add = self.t.range(0, 9);
                let value = bin(BinOp::Add, Ty::Int, bin(BinOp::Mul, Ty::Int, var(&self.p, n), int(mul)), int(add));
                let op = if self.t.chance(1, 4) { AssignOp::Add } else { AssignOp::Set };
                let inner_call = e(bty.clone(), EKind::Call(Box::new(var(&self.p, pick)), vec![bin(BinOp::Sub, Ty::Int, var(&self.p, n), int(1))]));
                let store = Stmt::Assign { target: LValue::Field(Box::new(inner_call), fname.clone()), op, value };
                let guard = Stmt::Expr(e(
                    Ty::Void,
                    EKind::If(vec![(bin(BinOp::Gt, Ty::Bool, var(&self.p, n), int(0)), Block { stmts: vec![store], value: None })], None),
                ));
                let mut branches = Vec::new();
                for (i, o) in objs.iter().enumerate().take(k - 1) {
                    branches.push((
                        bin(BinOp::Eq, Ty::Bool, var(&self.p, n), int(i as i64)),
                        Block { stmts: vec![], value: Some(Box::new(var(&self.p, *o))) },
                    ));
                }
                let last = Block { stmts: vec![], value: Some(Box::new(var(&self.p, objs[k - 1]))) };
                let select = e(bty.clone(), EKind::If(branches, Some(last)));
                let def = FnDef { params: vec![n], ret: bty.clone(), body: Block { stmts: vec![guard], value: Some(Box::new(select)) }, pure: false };
                out.push(Stmt::Def { var: pick, mutable: false, value: e(fty, EKind::Lambda(Box::new(def))) });
                let top = e(bty.clone(), EKind::Call(Box::new(var(&self.p, pick)), vec![int(k as i64 - 1)]));
                out.push(print_stmt(e(Ty::Int, EKind::Field(Box::new(top), fname.clone()))));
                for o in &objs {
                    out.push(print_stmt(e(Ty::Int, EKind::Field(Box::new(var(&self.p, *o)), fname.clone()))));
                }
            }
            0 => {
                // closures made in a loop, called afterwards
                let k = self.t.range(1, 3);
                let seed = self.expr_c(&Ty::Int, 1, ctx);
                let base = self.local("v", Ty::Int, false, false);
                out.push(Stmt::Def { var: base, mutable: false, value: seed });
                let zero = FnDef { params: vec![], ret: Ty::Int, body: Block { stmts: vec![], value: Some(Box::new(int(0))) }, pure: false };
                let fs = self.local("v", Ty::List(Box::new(fn_int.clone())), false, false);
                out.push(Stmt::Def {
                    var: fs,
                    mutable: false,
                    value: e(Ty::List(Box::new(fn_int.clone())), EKind::List(vec![e(fn_int.clone(), EKind::Lambda(Box::new(zero)))])),
                });
                let i = self.local("i", Ty::Int, true, false);
                out.push(Stmt::Def { var: i, mutable: true, value: int(0) });
                let scope = self.scope.len();
                let j = self.local("v", Ty::Int, false, false);
                let m = self.local("v", Ty::Int, true, false);
                let mul = self.t.range(1, 4);
                let mut body = Block::default();
                body.stmts.push(Stmt::Def { var: j, mutable: false, value: bin(BinOp::Mul, Ty::Int, var(&self.p, i), int(mul)) });
                body.stmts.push(Stmt::Def { var: m, mutable: true, value: bin(BinOp::Add, Ty::Int, var(&self.p, j), var(&self.p, base)) });
                // the closure mutates its own per-iteration variable and reads per-iteration + outer ones
                let extra = self.leaf(&Ty::Int, ctx);
                let clo = FnDef {
                    params: vec![],
                    ret: Ty::Int,
                    body: Block {
                        stmts: vec![Stmt::Assign { target: LValue::Var(m), op: AssignOp::Add, value: int(1) }],
                        value: Some(Box::new(bin(
                            BinOp::Add,
                            Ty::Int,
                            bin(BinOp::Add, Ty::Int, var(&self.p, m), var(&self.p, j)),
                            extra,
                        ))),
                    },
                    pure: false,
                };
                body.stmts.push(Stmt::Expr(e(
                    Ty::Void,
                    EKind::Std(StdFn::ListPush, vec![var(&self.p, fs), e(fn_int.clone(), EKind::Lambda(Box::new(clo)))]),
                )));
                body.stmts.push(Stmt::Assign { target: LValue::Var(i), op: AssignOp::Add, value: int(1) });
                self.scope.truncate(scope);
                out.push(Stmt::Loop { cond: Some(bin(BinOp::Lt, Ty::Bool, var(&self.p, i), int(k))), body });
                // call every closure twice, after the loop
                let f = self.fresh("p", fn_int.clone(), VarKind::Param, false);
                let calls = FnDef {
                    params: vec![f],
                    ret: Ty::Void,
                    body: Block {
                        stmts: vec![
                            print_stmt(e(Ty::Int, EKind::Call(Box::new(var(&self.p, f)), vec![]))),
                            print_stmt(e(Ty::Int, EKind::Call(Box::new(var(&self.p, f)), vec![]))),
                        ],
                        value: None,
                    },
                    pure: false,
                };
                let fty = Ty::Fn(vec![fn_int.clone()], Box::new(Ty::Void), false);
                out.push(Stmt::Expr(e(Ty::Void, EKind::Std(StdFn::ListForEach, vec![var(&self.p, fs), e(fty, EKind::Lambda(Box::new(calls)))]))));
            }
            1 => {
                // sibling closures sharing one captured variable
                let init = self.expr_c(&Ty::Int, 1, ctx);
                let c = self.local("v", Ty::Int, true, true);
                out.push(Stmt::Def { var: c, mutable: true, value: init });
                let d = self.fresh("p", Ty::Int, VarKind::Param, false);
                let inc = FnDef {
                    params: vec![d],
                    ret: Ty::Void,
                    body: Block { stmts: vec![Stmt::Assign { target: LValue::Var(c), op: AssignOp::Add, value: var(&self.p, d) }], value: None },
                    pure: false,
                };
                let inc_ty = Ty::Fn(vec![Ty::Int], Box::new(Ty::Void), false);
                let incv = self.local("h", inc_ty.clone(), false, false);
                out.push(Stmt::Def { var: incv, mutable: false, value: e(inc_ty, EKind::Lambda(Box::new(inc))) });
                let get = FnDef { params: vec![], ret: Ty::Int, body: Block { stmts: vec![], value: Some(Box::new(var(&self.p, c))) }, pure: false };
                let getv = self.local("h", fn_int.clone(), false, false);
                out.push(Stmt::Def { var: getv, mutable: false, value: e(fn_int.clone(), EKind::Lambda(Box::new(get))) });
                let n = self.t.below(3) + 1;
                for _ in 0..n {
                    let a = self.expr_c(&Ty::Int, 1, ctx);
                    out.push(Stmt::Expr(e(Ty::Void, EKind::Call(Box::new(var(&self.p, incv)), vec![a]))));
                    out.push(print_stmt(e(Ty::Int, EKind::Call(Box::new(var(&self.p, getv)), vec![]))));
                }
                let a = self.expr_c(&Ty::Int, 1, ctx);
                out.push(Stmt::Assign { target: LValue::Var(c), op: AssignOp::Set, value: a });
                out.push(print_stmt(e(Ty::Int, EKind::Call(Box::new(var(&self.p, getv)), vec![]))));
            }
            2 => {
                // closure factory: every call of mk makes an independent counter
                let s0 = self.fresh("p", Ty::Int, VarKind::Param, false);
                let c = self.fresh("v", Ty::Int, VarKind::Local, true);
                let step = self.t.range(1, 5);
                let inner = FnDef {
                    params: vec![],
                    ret: Ty::Int,
                    body: Block {
                        stmts: vec![Stmt::Assign { target: LValue::Var(c), op: AssignOp::Add, value: int(step) }],
                        value: Some(Box::new(var(&self.p, c))),
                    },
                    pure: false,
                };
                let mk = FnDef {
                    params: vec![s0],
                    ret: fn_int.clone(),
                    body: Block {
                        stmts: vec![Stmt::Def { var: c, mutable: true, value: var(&self.p, s0) }],
                        value: Some(Box::new(e(fn_int.clone(), EKind::Lambda(Box::new(inner))))),
                    },
                    pure: false,
                };
                let mk_ty = Ty::Fn(vec![Ty::Int], Box::new(fn_int.clone()), false);
                let mkv = self.local("h", mk_ty.clone(), false, false);
                out.push(Stmt::Def { var: mkv, mutable: false, value: e(mk_ty, EKind::Lambda(Box::new(mk))) });
                let a0 = self.expr_c(&Ty::Int, 1, ctx);
                let a = self.local("h", fn_int.clone(), false, false);
                out.push(Stmt::Def { var: a, mutable: false, value: e(fn_int.clone(), EKind::Call(Box::new(var(&self.p, mkv)), vec![a0])) });
                let b0 = self.expr_c(&Ty::Int, 1, ctx);
                let b = self.local("h", fn_int.clone(), false, false);
                out.push(Stmt::Def { var: b, mutable: false, value: e(fn_int.clone(), EKind::Call(Box::new(var(&self.p, mkv)), vec![b0])) });
                let n = self.t.below(4) + 2;
                for _ in 0..n {
                    let who = if self.t.bool() { a } else { b };
                    out.push(print_stmt(e(Ty::Int, EKind::Call(Box::new(var(&self.p, who)), vec![]))));
                }
            }
            _ => {
                // a case binding captured by a closure that outlives the arm
                let fs_ty = Ty::List(Box::new(fn_int.clone()));
                let zero = FnDef { params: vec![], ret: Ty::Int, body: Block { stmts: vec![], value: Some(Box::new(int(7))) }, pure: false };
                let fs = self.local("v", fs_ty.clone(), false, false);
                out.push(Stmt::Def { var: fs, mutable: false, value: e(fs_ty, EKind::List(vec![e(fn_int.clone(), EKind::Lambda(Box::new(zero)))])) });
                let n = self.t.below(3) + 1;
                for _ in 0..n {
                    let payload = self.expr_c(&Ty::Int, 1, ctx);
                    let scr = e(Ty::Maybe(Box::new(Ty::Int)), EKind::MaybeJust(Box::new(payload)));
                    let bv = self.fresh("b", Ty::Int, VarKind::CaseBind, false);
                    let k = self.t.range(1, 9);
                    let clo = FnDef {
                        params: vec![],
                        ret: Ty::Int,
                        body: Block { stmts: vec![], value: Some(Box::new(bin(BinOp::Mul, Ty::Int, var(&self.p, bv), int(k)))) },
                        pure: false,
                    };
                    let arm = Arm {
                        variant: "Just".into(),
                        bind: Some(bv),
                        body: Block {
                            stmts: vec![
                                Stmt::Expr(e(Ty::Void, EKind::Std(StdFn::ListPush, vec![var(&self.p, fs), e(fn_int.clone(), EKind::Lambda(Box::new(clo)))]))),
                                Stmt::Def { var: self.fresh("u", Ty::Int, VarKind::Local, false), mutable: false, value: int(0) },
                            ],
                            value: None,
                        },
                    };
                    out.push(Stmt::Expr(e(Ty::Void, EKind::Case { scrut: Box::new(scr), arms: vec![arm], default: Some(Block::default()) })));
                }
                let f = self.fresh("p", fn_int.clone(), VarKind::Param, false);
                let calls = FnDef {
                    params: vec![f],
                    ret: Ty::Void,
                    body: Block { stmts: vec![print_stmt(e(Ty::Int, EKind::Call(Box::new(var(&self.p, f)), vec![])))], value: None },
                    pure: false,
                };
                let fty = Ty::Fn(vec![fn_int.clone()], Box::new(Ty::Void), false);
                out.push(Stmt::Expr(e(Ty::Void, EKind::Std(StdFn::ListForEach, vec![var(&self.p, fs), e(fty, EKind::Lambda(Box::new(calls)))]))));
            }
        }
        // the statements are spliced into the enclosing block (set last: nested generation above may
        // itself go through `stmt`)
        self.splice_next = true;
        out
    }

    fn print_of(&mut self, v: &SVar, ctx: &mut FnCtx) -> Stmt {
        self.cost(ctx, 2);
        print_stmt(var(&self.p, v.id))
    }

    /// one statement in the current scope; may push a definition onto the scope
    fn stmt(&mut self, ctx: &mut FnCtx, first: bool) -> Vec<Stmt> {
        match self.stmt1(ctx, first) {
            Some(Stmt::Block(b)) if b.value.is_none() && b.stmts.len() == 2 && matches!(b.stmts[1], Stmt::Loop { .. }) => b.stmts,
            Some(Stmt::Block(b)) if self.splice_next => {
                self.splice_next = false;
                b.stmts
            }
            Some(Stmt::Block(_)) if first && self.cfg.avoid_leading_do_block => Vec::new(),
            Some(s) => vec![s],
            None => Vec::new(),
        }
    }

    fn stmt1(&mut self, ctx: &mut FnCtx, _first: bool) -> Option<Stmt> {
        self.budget -= 2;
        let d = if self.fn_depth >= 2 { self.cfg.expr_depth.min(2) } else { self.cfg.expr_depth };
        let assignables: Vec<SVar> = self.scope.iter().filter(|v| v.mutable && v.assignable && !v.ty.is_fn()).cloned().collect();
        let pure = ctx.pure;
        let w = [
            24,                                                        // 0 definition
            if !pure && !assignables.is_empty() { 14 } else { 0 },     // 1 assignment to a variable
            if !pure { 18 } else { 0 },                                // 2 print
            if ctx.block_depth > 0 { 10 } else { 0 },                  // 3 if statement
            if ctx.block_depth > 0 && !pure { 6 } else { 0 },          // 4 loop
            if ctx.block_depth > 0 && (self.cfg.enums || self.cfg.lists) { 5 } else { 0 }, // 5 case statement
            if !pure { 7 } else { 0 },                                 // 6 call statement
            if pure && self.cfg.toplevel_calls { 0 } else { 3 },       // 7 assert (a failing assert is an effect)
            if ctx.block_depth > 0 { 2 } else { 0 },                   // 8 do-block
            if !pure && self.cfg.blobs { 6 } else { 0 },               // 9 field assignment
            if !pure && self.cfg.lists { 5 } else { 0 },               // 10 list push / for_each
            if self.cfg.closures && ctx.block_depth > 0 && self.fn_depth < 3 && self.fn_room() { 6 } else { 0 }, // 11 local function definition
            1,                                                         // 12 unused expression statement
            if !pure && ctx.block_depth > 0 && self.cfg.closures && self.fn_depth < 2 && self.fn_exprs <= 1 { self.cfg.scenario_weight } else { 0 }, // 13 closure scenario
            if !self.cfg.avoid_stmt_after_ret { 2 } else { 0 },       // 14 ret in the middle of a block
        ];
        match self.t.weighted(&w) {
            0 => {
                let ty = self.value_ty(2);
                let mutable = !pure && self.t.chance(1, 2);
                let value = self.expr_c(&ty, d, ctx);
                let v = self.fresh("v", ty.clone(), VarKind::Local, mutable);
                self.scope.push(SVar { id: v, ty, mutable, assignable: true, rec: false, global: false });
                self.cost(ctx, 1);
                Some(Stmt::Def { var: v, mutable, value })
            }
            1 => {
                let v = self.t.pick(&assignables).clone();
                let ops: &[AssignOp] = match &v.ty {
                    Ty::Int => &[AssignOp::Set, AssignOp::Add, AssignOp::Sub, AssignOp::Mul],
                    Ty::Float => &[AssignOp::Set, AssignOp::Add, AssignOp::Sub, AssignOp::Mul, AssignOp::Div],
                    Ty::Str => &[AssignOp::Set, AssignOp::Add],
                    t if t.arith_ok() => &[AssignOp::Set, AssignOp::Add, AssignOp::Sub],
                    _ => &[AssignOp::Set],
                };
                let op = *self.t.pick(ops);
                let value = self.expr_c(&v.ty, d, ctx);
                Some(Stmt::Assign { target: LValue::Var(v.id), op, value })
            }
            2 => {
                let t = self.printable_ty();
                let x = self.expr_c(&t, d, ctx);
                self.cost(ctx, 2);
                Some(print_stmt(x))
            }
            3 => {
                let n = self.t.weighted(&[70, 25, 5]) + 1;
                let mut branches = Vec::new();
                for _ in 0..n {
                    let c = self.expr_c(&Ty::Bool, d.saturating_sub(1), ctx);
                    let mut b = self.stmt_block(ctx, 3);
                    self.maybe_jump(&mut b, ctx);
                    branches.push((c, b));
                }
                let default = if self.t.chance(1, 2) {
                    let mut b = self.stmt_block(ctx, 3);
                    self.maybe_jump(&mut b, ctx);
                    Some(b)
                } else {
                    None
                };
                Some(Stmt::Expr(e(Ty::Void, EKind::If(branches, default))))
            }
            4 => Some(self.loop_stmt(ctx)),
            5 => {
                let x = self.case_expr(&Ty::Void, d, ctx)?;
                Some(Stmt::Expr(x))
            }
            6 => {
                let calls: Vec<SVar> = self
                    .scope
                    .iter()
                    .filter(|v| matches!(&v.ty, Ty::Fn(..)))
                    .filter(|v| self.fn_room() || v.global)
                    .filter(|v| !(self.in_base_case && self.rec_stack.iter().any(|r| r.0 == v.id)))
                    .filter(|v| ctx.rec_calls < 2 || !v.rec)
                    .cloned()
                    .collect();
                if calls.is_empty() {
                    return None;
                }
                let f = self.t.pick(&calls).clone();
                let c = self.call_to(&f, d, ctx);
                Some(Stmt::Expr(c))
            }
            7 => {
                let t = self.value_ty(1);
                let t = if t.eq_ok(&self.p) { t } else { Ty::Int };
                let a = self.expr_c(&t, 2, ctx);
                let copyable = !contains_call(&a) && !format!("{:?}", a).contains("Unreachable(");
                let b = if self.t.chance(2, 3) && copyable { a.clone() } else { self.expr_c(&t, 2, ctx) };
                Some(Stmt::Assert(a, b))
            }
            8 => {
                let b = self.stmt_block(ctx, 3);
                Some(Stmt::Block(b))
            }
            9 => {
                // field assignment on a blob variable in scope
                let mut cands: Vec<(SVar, String, Ty)> = Vec::new();
                for v in self.scope.iter() {
                    if let Ty::Blob(b) = &v.ty {
                        for f in &self.p.blobs[*b].fields {
                            if !f.ty.is_fn() {
                                cands.push((v.clone(), f.name.clone(), f.ty.clone()));
                            }
                        }
                    }
                }
                if cands.is_empty() {
                    return None;
                }
                let (v, name, fty) = self.t.pick(&cands).clone();
                let ops: &[AssignOp] = match &fty {
                    Ty::Int => &[AssignOp::Set, AssignOp::Add, AssignOp::Sub, AssignOp::Mul],
                    Ty::Float => &[AssignOp::Set, AssignOp::Add, AssignOp::Div],
                    Ty::Str => &[AssignOp::Set, AssignOp::Add],
                    _ => &[AssignOp::Set],
                };
                let op = *self.t.pick(ops);
                let value = self.expr_c(&fty, d, ctx);
                self.cost(ctx, 1);
                Some(Stmt::Assign { target: LValue::Field(Box::new(var(&self.p, v.id)), name), op, value })
            }
            10 => {
                let lists: Vec<SVar> = self.scope.iter().filter(|v| matches!(v.ty, Ty::List(_))).cloned().collect();
                if lists.is_empty() {
                    return None;
                }
                let l = self.t.pick(&lists).clone();
                let inner = match &l.ty {
                    Ty::List(t) => (**t).clone(),
                    _ => unreachable!(),
                };
                self.cost(ctx, 3);
                if self.t.chance(2, 3) {
                    let x = self.expr_c(&inner, d, ctx);
                    Some(Stmt::Expr(e(Ty::Void, EKind::Std(StdFn::ListPush, vec![var(&self.p, l.id), x]))))
                } else if self.cfg.higher_order && self.fn_depth < 3 && self.fn_room() {
                    let def = self.lambda_c(vec![inner.clone()], Ty::Void, false, None, None, ctx);
                    let fty = Ty::Fn(vec![inner], Box::new(Ty::Void), false);
                    Some(Stmt::Expr(e(
                        Ty::Void,
                        EKind::Std(StdFn::ListForEach, vec![var(&self.p, l.id), e(fty, EKind::Lambda(Box::new(def)))]),
                    )))
                } else {
                    None
                }
            }
            11 => {
                // local function (closure), possibly recursive
                let rec = self.cfg.recursion && self.t.chance(if self.cfg.reentrant_bias >= 2 { 2 } else { 1 }, 4);
                let np = self.t.below(3);
                let mut pts = Vec::new();
                if rec {
                    pts.push(Ty::Int);
                }
                for _ in 0..np {
                    pts.push(self.value_ty(1));
                }
                let ret = if self.t.chance(1, 4) { Ty::Void } else { self.value_ty(1) };
                let fpure = pure;
                let fty = Ty::Fn(pts.clone(), Box::new(ret.clone()), fpure);
                let v = self.fresh("h", fty.clone(), VarKind::Local, false);
                // a recursive function is visible in its own body (calls pass fuel - 1); a non-recursive one is
                // made visible only afterwards so that it cannot call itself
                let sv = SVar { id: v, ty: fty.clone(), mutable: false, assignable: false, rec, global: false };
                if rec {
                    self.scope.push(sv.clone());
                }
                let def = self.lambda_c(pts, ret, fpure, if rec { Some(v) } else { None }, None, ctx);
                if !rec {
                    self.scope.push(sv);
                }
                self.cost(ctx, 1);
                Some(Stmt::Def { var: v, mutable: false, value: e(fty, EKind::Lambda(Box::new(def))) })
            }
            13 => {
                let ss = self.scenario(ctx);
                Some(Stmt::Block(Block { stmts: ss, value: None }))
            }
            14 => {
                if ctx.ret == Ty::Void {
                    Some(Stmt::Ret(None))
                } else {
                    let r = ctx.ret.clone();
                    let v = self.expr_c(&r, 2, ctx);
                    Some(Stmt::Ret(Some(v)))
                }
            }
            _ => {
                // an expression whose value is unused
                let t = self.printable_ty();
                let x = self.expr_c(&t, 2, ctx);
                if self.cfg.avoid_unused_andor && has_toplevel_andor(&x) {
                    return None;
                }
                Some(Stmt::Expr(x))
            }
        }
    }

    /// possibly end a branch block with ret / break / continue
    fn maybe_jump(&mut self, b: &mut Block, ctx: &mut FnCtx) {
        if ctx.in_loop && self.t.chance(1, 4) {
            b.stmts.push(if self.t.bool() { Stmt::Break } else { Stmt::Continue });
        } else if self.t.chance(1, 8) {
            if ctx.ret == Ty::Void {
                b.stmts.push(Stmt::Ret(None));
            } else {
                let r = ctx.ret.clone();
                let v = self.expr_c(&r, 2, ctx);
                b.stmts.push(Stmt::Ret(Some(v)));
            }
        } else if !(ctx.pure && self.cfg.toplevel_calls) && self.t.chance(1, 40) {
            self.uid += 1;
            b.stmts.push(Stmt::Unreachable(self.uid));
        }
    }

    fn loop_stmt(&mut self, ctx: &mut FnCtx) -> Stmt {
        let scope = self.scope.len();
        let k = self.t.range(0, self.cfg.loop_trips);
        let i = self.fresh("i", Ty::Int, VarKind::Local, true);
        // the counter is readable but never assigned by generated statements
        self.scope.push(SVar { id: i, ty: Ty::Int, mutable: true, assignable: false, rec: false, global: false });
        let def = Stmt::Def { var: i, mutable: true, value: int(0) };
        let was_in_loop = ctx.in_loop;
        let mut body = Block::default();
        let headless = self.t.chance(1, 3);
        if headless {
            let cond = bin(BinOp::Ge, Ty::Bool, var(&self.p, i), int(k));
            body.stmts.push(Stmt::Expr(e(Ty::Void, EKind::If(vec![(cond, Block { stmts: vec![Stmt::Break], value: None })], None))));
        }
        ctx.block_depth = ctx.block_depth.saturating_sub(1);
        // statements before the increment: no continue allowed
        ctx.in_loop = false;
        let inner_scope = self.scope.len();
        let n1 = self.t.below(3);
        for _ in 0..n1 {
            let first = body.stmts.is_empty();
            let ss = self.stmt(ctx, first);
            body.stmts.extend(ss);
        }
        body.stmts.push(Stmt::Assign { target: LValue::Var(i), op: AssignOp::Add, value: int(1) });
        ctx.in_loop = true;
        let n2 = self.t.below(4);
        for _ in 0..n2 {
            let ss = self.stmt(ctx, false);
            body.stmts.extend(ss);
        }
        self.voidify(&mut body);
        self.scope.truncate(inner_scope);
        ctx.in_loop = was_in_loop;
        ctx.block_depth += 1;
        self.cost(ctx, 4);
        let cond = if headless { None } else { Some(bin(BinOp::Lt, Ty::Bool, var(&self.p, i), int(k))) };
        let lp = Stmt::Loop { cond, body };
        let _ = scope;
        Stmt::Block(Block { stmts: vec![def, lp], value: None })
    }

    // ---------------------------------------------------------------- top level
    fn gen_blob(&mut self) {
        let idx = self.p.blobs.len();
        // structurally related blobs: a copy of an earlier blob with one more or one fewer data field
        if idx > 0 && self.t.chance(1, 2) {
            let src = self.p.blobs[self.t.below(idx)].clone();
            let mut fields: Vec<FieldDecl> = src.fields.clone();
            let data: Vec<usize> = (0..fields.len()).filter(|i| !fields[*i].ty.is_fn()).collect();
            if self.t.bool() && data.len() > 1 {
                fields.remove(*data.last().unwrap());
            } else {
                let ty = self.scalar_ty();
                fields.insert(data.len(), FieldDecl { name: format!("fx{}", idx), ty });
            }
            self.p.blobs.push(BlobDecl { name: format!("B{}", idx), fields });
            return;
        }
        let nf = self.t.below(4) + 1;
        let mut fields = Vec::new();
        for i in 0..nf {
            let ty = if self.cfg.nested_blobs && idx > 0 && self.t.chance(1, 4) {
                Ty::Blob(self.t.below(idx))
            } else if self.t.chance(1, 5) {
                self.value_ty(1)
            } else {
                self.scalar_ty()
            };
            let ty = match ty {
                Ty::Blob(_) | Ty::Enum(_) if !self.cfg.nested_blobs => Ty::Int,
                t => t,
            };
            let name = if self.cfg.lexical_names && self.t.chance(1, 2) {
                let n = self.t.pick(LEXICAL_FIELD_NAMES).to_string();
                if fields.iter().any(|f: &FieldDecl| f.name == n) {
                    format!("f{}", (b'a' + i as u8) as char)
                } else {
                    n
                }
            } else {
                format!("f{}", (b'a' + i as u8) as char)
            };
            fields.push(FieldDecl { name, ty });
        }
        if self.cfg.methods && self.t.chance(1, 2) {
            let np = self.t.below(2);
            let mut ps = Vec::new();
            for _ in 0..np {
                ps.push(self.scalar_ty());
            }
            let ret = if self.t.chance(1, 3) { Ty::Void } else { self.scalar_ty() };
            fields.push(FieldDecl { name: "m".to_string(), ty: Ty::Fn(ps, Box::new(ret), false) });
        }
        self.p.blobs.push(BlobDecl { name: format!("B{}", idx), fields });
    }

    fn gen_enum(&mut self) {
        let idx = self.p.enums.len();
        let nv = self.t.below(4) + 1;
        let mut variants = Vec::new();
        for i in 0..nv {
            let payload = if self.t.chance(3, 5) {
                let t = if self.t.chance(1, 4) { Ty::Tuple(vec![self.scalar_ty(), self.scalar_ty()]) } else { self.scalar_ty() };
                Some(t)
            } else {
                None
            };
            variants.push(VariantDecl { name: format!("V{}{}", idx, (b'a' + i as u8) as char), payload });
        }
        self.p.enums.push(EnumDecl { name: format!("E{}", idx), variants });
    }

    fn gen_global_fn(&mut self) {
        self.budget = self.cfg.decl_budget;
        if !self.cfg.fn_exprs_program_wide {
            self.fn_exprs = 0;
        }
        let rec = self.cfg.recursion && self.t.chance(if self.cfg.reentrant_bias >= 2 { 2 } else { 1 }, 3);
        let np = self.t.below(4);
        let mut pts = Vec::new();
        if rec {
            pts.push(Ty::Int);
        }
        for _ in 0..np {
            let t = if self.cfg.higher_order && self.t.chance(1, 6) {
                let a = self.scalar_ty();
                let r = self.scalar_ty();
                Ty::Fn(vec![a], Box::new(r), false)
            } else {
                self.value_ty(2)
            };
            pts.push(t);
        }
        let gpure = self.cfg.toplevel_calls && self.t.chance(1, 3);
        let ret = if !gpure && self.t.chance(1, 5) { Ty::Void } else { self.value_ty(2) };
        if gpure {
            for t in pts.iter_mut() {
                if let Ty::Fn(a, r, _) = t {
                    *t = Ty::Fn(a.clone(), r.clone(), true);
                }
            }
        }
        let fty = Ty::Fn(pts.clone(), Box::new(ret.clone()), gpure);
        let v = self.fresh("f", fty.clone(), VarKind::Global, false);
        let sv = SVar { id: v, ty: fty.clone(), mutable: false, assignable: false, rec, global: true };
        if rec {
            self.scope.push(sv.clone());
        }
        let def = self.lambda(pts, ret, gpure, if rec { Some(v) } else { None }, None);
        if !rec {
            self.scope.push(sv);
        }
        self.p.globals.push(Global { var: v, mutable: false, value: e(fty, EKind::Lambda(Box::new(def))) });
    }

    fn gen_global_value(&mut self) {
        self.budget = 12;
        if !self.cfg.fn_exprs_program_wide {
            self.fn_exprs = 0;
        }
        let ty = self.value_ty(2);
        let mutable = self.t.chance(1, 2);
        // initialisers are effect-free: operators, literals and earlier constant globals only
        let saved: Vec<SVar> = self.scope.clone();
        self.scope.retain(|v| !v.ty.is_fn() && !v.mutable);
        let mut ctx = FnCtx { ret: Ty::Void, in_loop: false, pure: true, rec: None, block_depth: 0, locals: 0, rec_calls: 9 };
        let cfg_saved = (self.cfg.methods, self.cfg.closures, self.cfg.higher_order);
        self.cfg.methods = false;
        self.cfg.closures = false;
        self.cfg.higher_order = false;
        // top-level profile: the initialiser is a call of an earlier global function (arguments effect-free)
        let mut call_value: Option<(Ty, Expr)> = None;
        if self.cfg.toplevel_calls && self.t.chance(1, 2) {
            let fns: Vec<SVar> = saved
                .iter()
                .filter(|v| v.global)
                .filter(|v| match &v.ty {
                    Ty::Fn(ps, r, pure) => **r != Ty::Void && !ps.iter().any(|p| p.is_fn()) && (*pure || !self.effect_init_used),
                    _ => false,
                })
                .cloned()
                .collect();
            if !fns.is_empty() {
                let f = self.t.pick(&fns).clone();
                if let Ty::Fn(_, r, pure) = &f.ty {
                    if !*pure {
                        self.effect_init_used = true;
                    }
                    let rt = (**r).clone();
                    let c = self.call_to(&f, 2, &mut ctx);
                    call_value = Some((rt, c));
                }
            }
        }
        let (ty, value) = match call_value {
            Some((t, c)) => (t, c),
            None => {
                let v = self.expr_c(&ty, 2, &mut ctx);
                (ty, v)
            }
        };
        self.cfg.methods = cfg_saved.0;
        self.cfg.closures = cfg_saved.1;
        self.cfg.higher_order = cfg_saved.2;
        self.scope = saved;
        let v = self.fresh("g", ty.clone(), VarKind::Global, mutable);
        self.scope.push(SVar { id: v, ty, mutable, assignable: true, rec: false, global: true });
        self.p.globals.push(Global { var: v, mutable, value });
    }

    pub fn program(mut self) -> Program {
        if self.cfg.blobs {
            let n = self.t.weighted(&[30, 50, 20]);
            for _ in 0..n {
                self.gen_blob();
            }
        }
        if self.cfg.enums {
            let n = self.t.weighted(&[30, 50, 20]);
            for _ in 0..n {
                self.gen_enum();
            }
        }
        let nd = self.t.below(self.cfg.max_decls + 1);
        for _ in 0..nd {
            if self.t.chance(3, 5) {
                self.gen_global_fn();
            } else {
                self.gen_global_value();
            }
        }
        if self.cfg.many_globals > 0 && self.t.chance(1, 6) {
            let n = self.t.below(self.cfg.many_globals + 1);
            for k in 0..n {
                let v = self.fresh("g", Ty::Int, VarKind::Global, false);
                self.p.globals.push(Global { var: v, mutable: false, value: int(k as i64) });
            }
        }
        // start
        let fty = Ty::Fn(vec![], Box::new(Ty::Void), false);
        let v = self.p.new_var("start".to_string(), fty.clone(), VarKind::Global, false);
        let mut ctx = FnCtx {
            ret: Ty::Void,
            in_loop: false,
            pure: false,
            rec: None,
            block_depth: self.cfg.block_depth,
            locals: 0,
            rec_calls: 0,
        };
        let scope = self.scope.len();
        let mut body = Block::default();
        self.budget = self.cfg.decl_budget * 2;
        if !self.cfg.fn_exprs_program_wide {
            self.fn_exprs = 0;
        }
        let n = self.cfg.max_stmts / 2 + self.t.below(self.cfg.max_stmts / 2 + 1);
        for _ in 0..n {
            if ctx.locals > self.cfg.locals_budget {
                break;
            }
            let first = body.stmts.is_empty();
            for s in self.stmt(&mut ctx, first) {
                // liberal printing of fresh definitions
                let printable = match &s {
                    Stmt::Def { var, .. } => {
                        let ty = self.p.var(*var).ty.clone();
                        if ty.printable(&self.p) {
                            Some(*var)
                        } else {
                            None
                        }
                    }
                    _ => None,
                };
                body.stmts.push(s);
                if let Some(pv) = printable {
                    if self.t.chance(1, 2) && ctx.locals < self.cfg.locals_budget {
                        ctx.locals += 2;
                        body.stmts.push(print_stmt(var(&self.p, pv)));
                    }
                }
            }
        }
        // print every live printable variable at the end
        let live: Vec<SVar> = self.scope.iter().filter(|v| v.ty.printable(&self.p)).cloned().collect();
        for v in live {
            if ctx.locals + 2 > self.cfg.locals_budget + 60 {
                break;
            }
            let s = self.print_of(&v, &mut ctx);
            body.stmts.push(s);
        }
        self.voidify(&mut body);
        self.scope.truncate(scope);
        let def = FnDef { params: vec![], ret: Ty::Void, body, pure: false };
        self.p.globals.push(Global { var: v, mutable: false, value: e(fty, EKind::Lambda(Box::new(def))) });
        self.p
    }
}

pub fn contains_call(x: &Expr) -> bool {
    let mut found = false;
    crate::walk::walk_expr(x, &mut |e| {
        if matches!(e.kind, EKind::Call(..) | EKind::Std(..) | EKind::Lambda(_) | EKind::BlobNew { .. } | EKind::List(_)) {
            found = true;
        }
    });
    found
}

pub fn has_toplevel_andor(x: &Expr) -> bool {
    let mut found = false;
    crate::walk::walk_expr(x, &mut |e| {
        if matches!(e.kind, EKind::Bin(BinOp::And, ..) | EKind::Bin(BinOp::Or, ..)) {
            found = true;
        }
    });
    found
}
