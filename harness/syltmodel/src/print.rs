//! Surface printer: GenAST -> Sylt text under a *surface plan* (annotation subset, call forms, return
//! forms, loop forms, redundant parentheses, comments, blank lines, indentation, line breaks, names).
//! Two plans applied to one GenAST give two programs with the same meaning.
use crate::ast::*;
use serde::{Deserialize, Serialize};
use std::collections::HashMap;

/// A stream of per-site choices, consumed in traversal order; 0 (also when exhausted) = default form.
#[derive(Clone, Debug, Default, PartialEq, Serialize, Deserialize)]
pub struct Choices(pub Vec<u8>);

#[derive(Clone, Debug, PartialEq, Serialize, Deserialize)]
pub struct Plan {
    /// per annotation site (variable definition / parameter / return type): bit 0 toggles the default
    pub annot: Choices,
    /// default annotation state of (var defs, params, returns)
    pub annot_default: (bool, bool, bool),
    /// functions whose body contains a function literal always carry their parameter and return annotations (whatever the
    /// defaults and choices say). Used by C02: an operator inside a nested function literal that mentions a still unknown
    /// parameter of the enclosing function is checked against a *copy* of that parameter (the type checker instantiates by
    /// copying the reachable type graph) - a known limitation that belongs to the open C07 finding, not a new one.
    #[serde(default)]
    pub annotate_outer_fns: bool,
    pub callform: Choices,
    pub retform: Choices,
    pub loopform: Choices,
    pub parens: Choices,
    pub comments: Choices,
    pub blanks: Choices,
    pub breaks: Choices,
    /// indentation unit: 0 = none, 1..=8 spaces, 9 = tab
    pub indent: u8,
    /// optional renaming of binders (by VarId); None = GenAST names
    pub names: Option<Vec<String>>,
    /// optional order of top-level items (indices into the printer's item list)
    pub order: Option<Vec<usize>>,
    /// CRLF line ends
    pub crlf: bool,
    /// partition of the top-level items into files + import styles (None = single file)
    #[serde(default)]
    pub modules: Option<ModulePlan>,
}

/// How a program is split into files and how files refer to each other.
#[derive(Clone, Debug, PartialEq, Serialize, Deserialize)]
pub struct ModulePlan {
    /// module paths relative to the project root, without `.sy`; index 0 is the main file ("main");
    /// a path ending in "/exports" is imported as its folder (`use dir/`)
    pub files: Vec<String>,
    /// file index of every top-level item (blobs, then enums, then globals in program order)
    pub file_of: Vec<usize>,
    /// style[from][to]: 0 `use f` + `f.x`; 1 `use f as a` + `a.x`; 2 `from f use x`; 3 `from f use x as y`
    pub style: Vec<Vec<u8>>,
    /// write the import path root-relative (`/dir/f`) even where a relative path would do
    pub rooted: Vec<Vec<bool>>,
    /// `from f use (a,\n b)` parenthesised multi-line import lists
    pub paren_lists: bool,
    /// give this (non-main) module an entry point of its own, `start :: fn do end`, which the main file's `start` calls
    /// through the module's namespace as its last statement (a module that is also a program)
    #[serde(default)]
    pub module_start: Option<usize>,
}

impl Default for Plan {
    fn default() -> Self {
        Plan {
            annot: Choices::default(),
            annot_default: (false, true, true),
            annotate_outer_fns: false,
            callform: Choices::default(),
            retform: Choices::default(),
            loopform: Choices::default(),
            parens: Choices::default(),
            comments: Choices::default(),
            blanks: Choices::default(),
            breaks: Choices::default(),
            indent: 4,
            names: None,
            order: None,
            crlf: false,
            modules: None,
        }
    }
}

#[derive(Default, Clone, Debug)]
pub struct SiteCounts {
    pub annot: usize,
    pub annot_in_closure_or_recursive: usize,
    pub call: usize,
    pub call_prime: usize,
    pub call_arrow: usize,
    pub arrow_complex_callee: usize,
    pub ret: usize,
    pub ret_trailing: usize,
    pub loops: usize,
    pub parens_added: usize,
    pub comments_added: usize,
    pub blanks_added: usize,
    pub breaks_added: usize,
    /// line breaks before a binary operator / arrow inside brackets
    pub op_breaks: usize,
    /// redundant parentheses around atoms (variables, literals)
    pub atom_parens: usize,
    pub nested_sugar: usize,
}

pub struct Printed {
    pub text: String,
    /// `<!>` uid -> 1-based line it was printed on
    pub unreachable_lines: HashMap<u32, usize>,
    pub sites: SiteCounts,
    /// for each top-level item (in printed order): the line range
    pub item_lines: Vec<(usize, usize)>,
    /// annotation decisions taken, in site order (true = annotated)
    pub annot_taken: Vec<bool>,
}

struct Cur {
    annot: usize,
    callform: usize,
    retform: usize,
    loopform: usize,
    parens: usize,
    comments: usize,
    blanks: usize,
    breaks: usize,
}

pub struct Printer<'a> {
    p: &'a Program,
    plan: &'a Plan,
    cur: Cur,
    out: String,
    line: usize,
    depth: usize,
    fn_depth: usize,
    sugar_depth: usize,
    /// > 0 while the text being produced sits directly inside (...) / [...] / {...} (newlines are skipped there)
    brackets: usize,
    /// > 0 while an atom must be printed bare (callee names, assignment targets)
    no_atom_parens: usize,
    /// > 0 while the head of an assignment target is printed (calls there are written in the plain form)
    plain_calls: usize,
    /// the call being printed may use the arrow form although its callee is not a plain name
    arrow_complex_ok: bool,
    unreachable_lines: HashMap<u32, usize>,
    sites: SiteCounts,
    annot_taken: Vec<bool>,
    /// the file being printed (multi-file rendering)
    file: usize,
    /// names needed from other files: to_file -> set of original names
    needed: std::collections::BTreeMap<usize, std::collections::BTreeSet<String>>,
    /// files this file must import with a plain `use` (namespace access through another module: `via.to.x`)
    plain_uses: std::collections::BTreeSet<usize>,
    /// (via, to): module `via` must import module `to` with a plain `use` because some file writes `via.to.x`
    via_links: std::collections::BTreeSet<(usize, usize)>,
}

fn take(c: &Choices, i: &mut usize) -> u8 {
    let v = c.0.get(*i).copied().unwrap_or(0);
    *i += 1;
    v
}

pub const SYLT_KEYWORDS: &[&str] = &[
    "void", "bool", "int", "float", "str", "nil", "true", "false", "if", "elif", "else", "case", "is", "break",
    "continue", "in", "loop", "blob", "externblob", "enum", "ret", "do", "end", "fn", "pu", "and", "or", "not", "use",
    "from", "as", "external", "self",
];
pub const STD_NAMES: &[&str] = &[
    "dbg", "args", "thread_sleep", "print", "spy", "as_float", "as_int", "as_char", "as_chars", "as_str", "abs",
    "atan2", "sin", "cos", "floor", "sqrt", "sign", "clamp", "min", "max", "rem", "div", "pow", "random", "randint",
    "for_each", "map", "fold", "filter", "set", "dict", "list", "common", "container", "math", "maybe", "Maybe",
    "start", "split", "unsafe", "preamble",
];
pub const LUA_KEYWORDS: &[&str] = &[
    "and", "break", "do", "else", "elseif", "end", "false", "for", "function", "goto", "if", "in", "local", "nil",
    "not", "or", "repeat", "return", "then", "true", "until", "while",
];

pub fn type_text(p: &Program, t: &Ty) -> String {
    match t {
        Ty::Int => "int".into(),
        Ty::Float => "float".into(),
        Ty::Str => "str".into(),
        Ty::Bool => "bool".into(),
        Ty::Void => "void".into(),
        Ty::Tuple(ts) => {
            let parts: Vec<String> = ts.iter().map(|t| type_text(p, t)).collect();
            if parts.len() == 1 {
                format!("({},)", parts[0])
            } else {
                format!("({})", parts.join(", "))
            }
        }
        Ty::List(t) => format!("[{}]", type_text(p, t)),
        Ty::Fn(ps, r, pure) => {
            let parts: Vec<String> = ps
                .iter()
                .map(|t| if t.is_fn() { format!("({})", type_text(p, t)) } else { type_text(p, t) })
                .collect();
            let kw = if *pure { "pu" } else { "fn" };
            let ret = if r.is_fn() { format!("({})", type_text(p, r)) } else { type_text(p, r) };
            if parts.is_empty() {
                format!("{} -> {}", kw, ret)
            } else {
                format!("{} {} -> {}", kw, parts.join(", "), ret)
            }
        }
        Ty::Blob(b) => p.blobs[*b].name.clone(),
        Ty::Enum(e) => p.enums[*e].name.clone(),
        Ty::Maybe(t) => format!("Maybe({})", type_text(p, t)),
    }
}

fn is_atom(x: &Expr) -> bool {
    match &x.kind {
        EKind::Mark(inner) => is_atom(inner),
        EKind::Int(i) => *i >= 0,
        EKind::Float(t) => !t.starts_with('-'),
        EKind::Str(_) | EKind::Bool(_) | EKind::Var(_) | EKind::Call(..) | EKind::Std(..) | EKind::Field(..)
        | EKind::TupleIdx(..) | EKind::Tuple(_) | EKind::List(_) | EKind::BlobNew { .. } => true,
        _ => false,
    }
}

impl<'a> Printer<'a> {
    pub fn new(p: &'a Program, plan: &'a Plan) -> Self {
        Printer {
            p,
            plan,
            cur: Cur { annot: 0, callform: 0, retform: 0, loopform: 0, parens: 0, comments: 0, blanks: 0, breaks: 0 },
            out: String::new(),
            line: 1,
            depth: 0,
            fn_depth: 0,
            sugar_depth: 0,
            brackets: 0,
            no_atom_parens: 0,
            plain_calls: 0,
            arrow_complex_ok: false,
            unreachable_lines: HashMap::new(),
            sites: SiteCounts::default(),
            annot_taken: Vec::new(),
            file: 0,
            needed: std::collections::BTreeMap::new(),
            plain_uses: std::collections::BTreeSet::new(),
            via_links: std::collections::BTreeSet::new(),
        }
    }

    /// index of a global in the top-level item list
    fn global_item(&self, v: VarId) -> Option<usize> {
        self.p.globals.iter().position(|g| g.var == v).map(|gi| self.p.blobs.len() + self.p.enums.len() + gi)
    }

    /// how a name living in top-level item `item` is written from the current file
    fn qualify(&mut self, item: usize, name: String) -> String {
        let m = match &self.plan.modules {
            Some(m) => m,
            None => return name,
        };
        let to = *m.file_of.get(item).unwrap_or(&0);
        if to == self.file {
            return name;
        }
        let style = m.style.get(self.file).and_then(|r| r.get(to)).copied().unwrap_or(0) % 5;
        if style == 4 {
            // through a third module: `use via` here, `use to` there, written `via.to.name`
            let nf = m.files.len();
            let plain_ok = |k: usize| !lib_named(&m.files[k]);
            if let Some(via) = (1..nf).map(|k| (to + k) % nf).find(|k| *k != self.file && *k != to && *k != 0 && plain_ok(*k)).filter(|_| plain_ok(to)) {
                self.plain_uses.insert(via);
                self.via_links.insert((via, to));
                let a = module_ns(&import_path(&m.files[self.file], &m.files[via], false));
                let b = module_ns(&import_path(&m.files[via], &m.files[to], false));
                return format!("{}.{}.{}", a, b, name);
            }
        }
        let style = if style == 4 { 0 } else { style };
        let style = if style == 0 && lib_named(&m.files[to]) { 1 } else { style };
        self.needed.entry(to).or_default().insert(name.clone());
        match style {
            0 => {
                let rooted = m.rooted.get(self.file).and_then(|r| r.get(to)).copied().unwrap_or(false);
                format!("{}.{}", module_ns(&import_path(&m.files[self.file], &m.files[to], rooted)), name)
            }
            1 => format!("ns{}.{}", alias_no(self.file, to, m.files.len()), name),
            2 => name,
            _ => {
                // aliases keep the case of the first letter (types/variants are capitalised)
                format!("{}_m{}", name, to)
            }
        }
    }

    fn blob_name(&mut self, b: usize) -> String {
        let n = self.p.blobs[b].name.clone();
        self.qualify(b, n)
    }
    fn enum_name(&mut self, e: usize) -> String {
        let n = self.p.enums[e].name.clone();
        self.qualify(self.p.blobs.len() + e, n)
    }

    pub fn ty_text(&mut self, t: &Ty) -> String {
        if self.plan.modules.is_none() {
            return type_text(self.p, t);
        }
        match t {
            Ty::Blob(b) => self.blob_name(*b),
            Ty::Enum(e) => self.enum_name(*e),
            Ty::Tuple(ts) => {
                let parts: Vec<String> = ts.iter().map(|t| self.ty_text(t)).collect();
                if parts.len() == 1 {
                    format!("({},)", parts[0])
                } else {
                    format!("({})", parts.join(", "))
                }
            }
            Ty::List(t) => format!("[{}]", self.ty_text(t)),
            Ty::Maybe(t) => format!("Maybe({})", self.ty_text(t)),
            Ty::Fn(ps, r, pure) => {
                let parts: Vec<String> = ps.iter().map(|t| if t.is_fn() { format!("({})", self.ty_text(t)) } else { self.ty_text(t) }).collect();
                let kw = if *pure { "pu" } else { "fn" };
                let ret = if r.is_fn() { format!("({})", self.ty_text(r)) } else { self.ty_text(r) };
                if parts.is_empty() {
                    format!("{} -> {}", kw, ret)
                } else {
                    format!("{} {} -> {}", kw, parts.join(", "), ret)
                }
            }
            other => type_text(self.p, other),
        }
    }

    fn plain_name(&self, v: VarId) -> String {
        if self.p.var(v).kind == VarKind::SelfVar {
            return "self".to_string();
        }
        if let Some(n) = &self.plan.names {
            if let Some(s) = n.get(v as usize) {
                if !s.is_empty() {
                    return s.clone();
                }
            }
        }
        self.p.var(v).name.clone()
    }

    fn name(&mut self, v: VarId) -> String {
        let n = self.plain_name(v);
        if self.plan.modules.is_some() && self.p.var(v).kind == VarKind::Global {
            if let Some(item) = self.global_item(v) {
                return self.qualify(item, n);
            }
        }
        n
    }

    fn nl(&mut self) {
        if self.plan.crlf {
            self.out.push('\r');
        }
        self.out.push('\n');
        self.line += 1;
    }

    fn ind(&self) -> String {
        let unit = match self.plan.indent {
            0 => String::new(),
            9 => "\t".to_string(),
            n => " ".repeat(n as usize),
        };
        unit.repeat(self.depth)
    }

    /// decorations before a statement (blank lines, comment lines) + indentation; returns whether a
    /// trailing comment is wanted. Must run BEFORE the statement text is rendered so that line numbers
    /// of nested lines are right.
    fn begin(&mut self) -> bool {
        let b = take(&self.plan.blanks, &mut self.cur.blanks);
        for _ in 0..(b % 3) {
            self.sites.blanks_added += 1;
            self.nl();
        }
        let c = take(&self.plan.comments, &mut self.cur.comments);
        if c & 1 == 1 {
            self.sites.comments_added += 1;
            let i = self.ind();
            self.out.push_str(&i);
            self.out.push_str(match (c >> 2) % 4 {
                0 => "// note",
                1 => "//",
                2 => "// x := 1 + \"two\" end do",
                _ => "// åäö ☃ (unbalanced [ {",
            });
            self.nl();
        }
        let i = self.ind();
        self.out.push_str(&i);
        c & 2 == 2
    }

    fn finish(&mut self, s: &str, trailing: bool) {
        self.out.push_str(s);
        if trailing {
            self.sites.comments_added += 1;
            self.out.push_str(" // trailing");
        }
        self.nl();
    }

    fn emit_with(&mut self, f: impl FnOnce(&mut Printer<'a>) -> String) {
        let tr = self.begin();
        let t = f(self);
        self.finish(&t, tr);
    }

    fn emit_line(&mut self, s: &str) {
        let tr = self.begin();
        self.finish(s, tr);
    }

    /// line break inside brackets (legal where newlines are skipped): returns the separator to use after ','
    fn sep(&mut self) -> String {
        let b = take(&self.plan.breaks, &mut self.cur.breaks);
        if b & 1 == 1 {
            self.sites.breaks_added += 1;
            // a raw newline inside (...) / [...] / {...}: lines are counted
            self.line += 1;
            let nl = if self.plan.crlf { "\r\n" } else { "\n" };
            format!(",{}{}    ", nl, self.ind())
        } else {
            ", ".to_string()
        }
    }

    fn want_annot(&mut self, class: u8) -> bool {
        let d = match class {
            0 => self.plan.annot_default.0,
            1 => self.plan.annot_default.1,
            _ => self.plan.annot_default.2,
        };
        let t = take(&self.plan.annot, &mut self.cur.annot) & 1 == 1;
        self.sites.annot += 1;
        if self.fn_depth >= 2 {
            self.sites.annot_in_closure_or_recursive += 1;
        }
        let r = d ^ t;
        self.annot_taken.push(r);
        r
    }

    fn paren_opt(&mut self, s: String) -> String {
        let c = take(&self.plan.parens, &mut self.cur.parens);
        // (the head of an assignment target is not parenthesisable: `(f(1)).a = 2` is a syntax error)
        if c & 1 == 1 && self.plain_calls == 0 {
            self.sites.parens_added += 1;
            // now and then two pairs
            if c & 6 == 6 {
                format!("(({}))", s)
            } else {
                format!("({})", s)
            }
        } else {
            s
        }
    }

    /// expression as an operand of an operator / postfix: parenthesised unless atomic
    fn operand(&mut self, x: &Expr) -> String {
        if is_atom(x) {
            self.expr(x)
        } else {
            self.brackets += 1;
            let s = self.expr(x);
            self.brackets -= 1;
            format!("({})", s)
        }
    }

    /// optional line break before a binary operator / arrow inside brackets
    fn op_break(&mut self) -> String {
        if self.brackets == 0 {
            return " ".to_string();
        }
        let b = take(&self.plan.breaks, &mut self.cur.breaks);
        if b & 2 == 2 {
            self.sites.breaks_added += 1;
            self.sites.op_breaks += 1;
            self.line += 1;
            let nl = if self.plan.crlf { "\r\n" } else { "\n" };
            format!("{}{}    ", nl, self.ind())
        } else {
            " ".to_string()
        }
    }

    fn args(&mut self, xs: &[Expr]) -> String {
        let mut out = String::new();
        self.brackets += 1;
        for (i, a) in xs.iter().enumerate() {
            if i > 0 {
                let s = self.sep();
                out.push_str(&s);
            }
            let t = self.expr_arg(a);
            out.push_str(&t);
        }
        self.brackets -= 1;
        out
    }

    /// an expression in a comma-separated position (argument, element, field value)
    fn expr_arg(&mut self, x: &Expr) -> String {
        match &x.kind {
            // variants take their payload greedily; keep them self-delimited
            EKind::Variant(..) | EKind::MaybeJust(_) | EKind::MaybeNone => format!("({})", self.expr(x)),
            _ => self.expr(x),
        }
    }

    fn callee_text(&mut self, f: &Expr) -> String {
        match &f.kind {
            EKind::Var(_) | EKind::Field(..) | EKind::Call(..) => {
                // the callee of prime / arrow calls must stay a plain name
                self.no_atom_parens += 1;
                let s = self.expr(f);
                self.no_atom_parens -= 1;
                s
            }
            _ => format!("({})", self.expr(f)),
        }
    }

    fn std_name(f: StdFn) -> &'static str {
        match f {
            StdFn::Print => "print",
            StdFn::AsStr => "as_str",
            StdFn::AsFloat => "as_float",
            StdFn::ListPush => "list.push",
            StdFn::ListLen => "list.len",
            StdFn::ListGet => "list.get",
            StdFn::ListMap => "map",
            StdFn::ListFilter => "filter",
            StdFn::ListFold => "fold",
            StdFn::ListForEach => "for_each",
        }
    }

    /// `tail`: the call is in a position where a greedy argument list cannot swallow anything
    fn call_text(&mut self, callee: String, simple_callee: bool, args: &[Expr], tail: bool) -> String {
        self.sites.call += 1;
        let form = take(&self.plan.callform, &mut self.cur.callform) % 4;
        let nested = self.sugar_depth > 0;
        // a call at the head of an assignment target is written `f(..)`: `(f' x).a = 1` is not an assignable
        let saved_plain = self.plain_calls;
        let form = if saved_plain > 0 { 0 } else { form };
        self.plain_calls = 0;
        let text = self.call_text_form(form, nested, callee, simple_callee, args, tail);
        self.plain_calls = saved_plain;
        text
    }

    fn call_text_form(&mut self, form: u8, nested: bool, callee: String, simple_callee: bool, args: &[Expr], tail: bool) -> String {
        match form {
            1 => {
                // prime form
                self.sites.call_prime += 1;
                if nested {
                    self.sites.nested_sugar += 1;
                }
                self.sugar_depth += 1;
                if !tail {
                    self.brackets += 1;
                }
                let mut s = format!("{}'", callee);
                for (i, a) in args.iter().enumerate() {
                    if i == 0 {
                        s.push(' ');
                    } else if self.brackets > 0 {
                        let sp = self.sep();
                        s.push_str(&sp);
                    } else {
                        s.push_str(", ");
                    }
                    let t = self.expr_arg(a);
                    s.push_str(&t);
                }
                if !tail {
                    self.brackets -= 1;
                }
                self.sugar_depth -= 1;
                if tail {
                    s
                } else {
                    format!("({})", s)
                }
            }
            // `a -> f(b)`; a callee that is not a plain name is written in parentheses (`a -> (g(1))(b)`, `a -> (fn .. end)(b)`),
            // and form 3 sometimes puts redundant ones around a plain name (`a -> (f)(b)`)
            2 | 3 if !args.is_empty() && (simple_callee || (form == 3 && self.arrow_complex_ok)) => {
                let callee = if simple_callee {
                    if form == 3 && take(&self.plan.parens, &mut self.cur.parens) & 3 == 3 {
                        self.sites.parens_added += 1;
                        format!("({})", callee)
                    } else {
                        callee
                    }
                } else if callee.starts_with('(') && callee.ends_with(')') && balanced_outer(&callee) {
                    callee
                } else {
                    format!("({})", callee)
                };
                if !simple_callee {
                    self.sites.arrow_complex_callee += 1;
                }
                self.sites.call_arrow += 1;
                if nested {
                    self.sites.nested_sugar += 1;
                }
                self.sugar_depth += 1;
                let first = self.operand(&args[0]);
                let first = match &args[0].kind {
                    // an arrow chain on the left would re-associate; keep it grouped
                    EKind::Call(..) | EKind::Std(..) => format!("({})", first),
                    _ => first,
                };
                let brk = if !tail {
                    self.brackets += 1;
                    let b = self.op_break();
                    self.brackets -= 1;
                    b
                } else {
                    self.op_break()
                };
                let rest = self.args(&args[1..]);
                self.sugar_depth -= 1;
                let s = format!("{}{}-> {}({})", first, brk, callee, rest);
                if tail {
                    s
                } else {
                    format!("({})", s)
                }
            }
            _ => {
                let a = self.args(args);
                format!("{}({})", callee, a)
            }
        }
    }

    pub fn expr(&mut self, x: &Expr) -> String {
        self.expr_t(x, false)
    }

    /// `tail` = nothing that could continue an expression follows on this line
    pub fn expr_t(&mut self, x: &Expr, tail: bool) -> String {
        let s = self.expr_inner(x, tail);
        match &x.kind {
            // redundant parentheses around an atom (`(t)[0]`, `1 + (x)`), more rarely than around compound expressions
            EKind::Var(_) | EKind::Int(_) | EKind::Str(_) | EKind::Bool(_) => {
                if self.no_atom_parens > 0 {
                    return s;
                }
                let c = take(&self.plan.parens, &mut self.cur.parens);
                if c & 7 == 7 {
                    self.sites.parens_added += 1;
                    self.sites.atom_parens += 1;
                    format!("({})", s)
                } else {
                    s
                }
            }
            // statement-position if/case (type void) are statements, not parenthesisable expressions
            EKind::If(..) | EKind::Case { .. } if x.ty == Ty::Void => s,
            _ => self.paren_opt(s),
        }
    }

    fn expr_inner(&mut self, x: &Expr, tail: bool) -> String {
        match &x.kind {
            EKind::Int(i) => format!("{}", i),
            EKind::Float(t) => t.clone(),
            EKind::Str(s) => format!("\"{}\"", s),
            EKind::Bool(b) => format!("{}", b),
            EKind::Var(v) => self.name(*v),
            EKind::Bin(op, a, b) => {
                // text is produced in textual order: line numbers of `<!>` inside the right operand count the break
                let l = self.operand(a);
                let brk = self.op_break();
                let r = self.operand(b);
                format!("{}{}{} {}", l, brk, op.text(), r)
            }
            EKind::Neg(a) => format!("-{}", self.operand(a)),
            EKind::Not(a) => format!("not {}", self.operand(a)),
            EKind::AssertEq(a, b) => {
                let l = self.operand(a);
                let r = self.operand(b);
                format!("{} <=> {}", l, r)
            }
            EKind::If(branches, default) => self.if_text(branches, default),
            EKind::Case { scrut, arms, default } => self.case_text(scrut, arms, default),
            EKind::Call(f, args) => {
                let simple = matches!(f.kind, EKind::Var(_));
                // `a -> (callee)(b)` writes `a` before the callee: when both declare variables (function literals, case
                // bindings, definitions) the compiler numbers them in another order - same meaning, other bytes. The
                // byte-identity oracle of C14 is kept by not using the form then.
                let binds = |x: &Expr| {
                    let d = format!("{:?}", x);
                    d.contains("Lambda(") || d.contains("Def {") || d.contains("bind: Some") || d.contains("BlobNew")
                };
                let saved = self.arrow_complex_ok;
                self.arrow_complex_ok = !simple && !(binds(f) && args.first().map(|a| binds(a)).unwrap_or(false));
                let ok_here = self.arrow_complex_ok;
                let c = self.callee_text(f);
                self.arrow_complex_ok = ok_here;
                let t = self.call_text(c, simple, args, tail);
                self.arrow_complex_ok = saved;
                t
            }
            EKind::Std(f, args) => self.call_text(Self::std_name(*f).to_string(), true, args, tail),
            EKind::Lambda(def) => self.fn_text(def, None),
            EKind::BlobNew { blob, fields, .. } => {
                let mut s = format!("{} {{", self.blob_name(*blob));
                self.brackets += 1;
                for (i, (n, fx)) in fields.iter().enumerate() {
                    if i > 0 {
                        let sp = self.sep();
                        s.push_str(&sp);
                    } else {
                        s.push(' ');
                    }
                    let t = self.expr_arg(fx);
                    s.push_str(&format!("{}: {}", n, t));
                }
                self.brackets -= 1;
                s.push_str(" }");
                s
            }
            EKind::Field(o, n) => {
                let ot = match &o.kind {
                    EKind::Var(_) | EKind::Field(..) | EKind::Call(..) | EKind::TupleIdx(..) => self.expr(o),
                    _ => format!("({})", self.expr(o)),
                };
                format!("{}.{}", ot, n)
            }
            EKind::TupleIdx(t, i) => {
                let tt = match &t.kind {
                    EKind::Var(_) | EKind::Field(..) | EKind::Call(..) | EKind::TupleIdx(..) => self.expr(t),
                    _ => format!("({})", self.expr(t)),
                };
                format!("{}[{}]", tt, i)
            }
            EKind::Tuple(xs) => {
                let a = self.args(xs);
                if xs.len() == 1 {
                    format!("({},)", a)
                } else {
                    format!("({})", a)
                }
            }
            EKind::List(xs) => format!("[{}]", self.args(xs)),
            EKind::Variant(en, name, payload) => {
                let base = format!("{}.{}", self.enum_name(*en), name);
                match payload {
                    Some(px) => format!("{} {}", base, self.operand(px)),
                    None => base,
                }
            }
            EKind::MaybeJust(px) => format!("Maybe.Just {}", self.operand(px)),
            EKind::MaybeNone => "Maybe.None".to_string(),
            EKind::Raw(t) => t.clone(),
            EKind::Mark(inner) => self.expr_inner(inner, tail),
        }
    }

    /// multi-line constructs are rendered into a string with embedded newlines; line accounting is done
    /// by rendering them through a sub-printer that shares the counters.
    fn sub<R>(&mut self, f: impl FnOnce(&mut Printer<'a>) -> R) -> (String, R) {
        let saved = std::mem::take(&mut self.out);
        let r = f(self);
        let produced = std::mem::replace(&mut self.out, saved);
        (produced, r)
    }

    fn block_lines(&mut self, b: &Block, value_as_ret: Option<bool>) {
        let saved_brackets = std::mem::replace(&mut self.brackets, 0);
        self.depth += 1;
        for s in &b.stmts {
            self.stmt(s);
        }
        if let Some(v) = &b.value {
            match value_as_ret {
                Some(true) => {
                    self.emit_with(|p| format!("ret {}", p.expr_t(v, true)));
                }
                _ => {
                    self.emit_with(|p| p.expr_t(v, true));
                }
            }
        }
        self.depth -= 1;
        self.brackets = saved_brackets;
    }

    fn if_text(&mut self, branches: &[(Expr, Block)], default: &Option<Block>) -> String {
        // rendered as a multi-line construct; the first line continues the current line
        let mut s = String::new();
        for (i, (c, body)) in branches.iter().enumerate() {
            let ct = self.expr(c);
            if i == 0 {
                s.push_str(&format!("if {} do", ct));
            } else {
                s.push_str(&format!("{}elif {} do", self.ind(), ct));
            }
            self.line += 1;
            s.push_str(if self.plan.crlf { "\r\n" } else { "\n" });
            let (txt, _) = self.sub(|p| {
                // `sub` starts with empty out; the pending newline above was already counted
                p.block_lines(body, None)
            });
            s.push_str(&txt);
        }
        if let Some(d) = default {
            s.push_str(&format!("{}else", self.ind()));
            self.line += 1;
            s.push_str(if self.plan.crlf { "\r\n" } else { "\n" });
            let (txt, _) = self.sub(|p| p.block_lines(d, None));
            s.push_str(&txt);
        }
        s.push_str(&format!("{}end", self.ind()));
        s
    }

    fn case_text(&mut self, scrut: &Expr, arms: &[Arm], default: &Option<Block>) -> String {
        let st = self.expr(scrut);
        let nl = if self.plan.crlf { "\r\n" } else { "\n" };
        let mut s = format!("case {} do", st);
        self.line += 1;
        s.push_str(nl);
        self.depth += 1;
        for arm in arms {
            let head = match arm.bind {
                Some(v) => format!("{}{} {} ->", self.ind(), arm.variant, self.name(v)),
                None => format!("{}{} ->", self.ind(), arm.variant),
            };
            s.push_str(&head);
            self.line += 1;
            s.push_str(nl);
            let (txt, _) = self.sub(|p| p.block_lines(&arm.body, None));
            s.push_str(&txt);
            s.push_str(&format!("{}end", self.ind()));
            self.line += 1;
            s.push_str(nl);
        }
        if let Some(d) = default {
            s.push_str(&format!("{}else", self.ind()));
            self.line += 1;
            s.push_str(nl);
            let (txt, _) = self.sub(|p| p.block_lines(d, None));
            s.push_str(&txt);
            s.push_str(&format!("{}end", self.ind()));
            self.line += 1;
            s.push_str(nl);
        }
        self.depth -= 1;
        s.push_str(&format!("{}end", self.ind()));
        s
    }

    fn fn_text(&mut self, def: &FnDef, _name: Option<&str>) -> String {
        self.fn_depth += 1;
        let nl = if self.plan.crlf { "\r\n" } else { "\n" };
        let mut s = String::from(if def.pure { "pu" } else { "fn" });
        let force_annot = self.plan.annotate_outer_fns && format!("{:?}", def.body).contains("Lambda(");
        for (i, pv) in def.params.iter().enumerate() {
            s.push_str(if i == 0 { " " } else { ", " });
            let ty = self.p.var(*pv).ty.clone();
            // function-typed parameters must always be annotated (an unknown type cannot be called)
            let ann = if ty.is_fn() || force_annot { true } else { self.want_annot(1) };
            if ann {
                let tt = if ty.is_fn() { format!("({})", self.ty_text(&ty)) } else { self.ty_text(&ty) };
                s.push_str(&format!("{}: {}", self.name(*pv), tt));
            } else {
                s.push_str(&self.name(*pv));
            }
        }
        let has_value = def.ret != Ty::Void;
        if has_value {
            let ann = force_annot || self.want_annot(2);
            if ann {
                let rt = if def.ret.is_fn() {
                    format!("({})", self.ty_text(&def.ret))
                } else {
                    self.ty_text(&def.ret)
                };
                s.push_str(&format!(" -> {} do", rt));
            } else {
                s.push_str(" -> do");
            }
        } else {
            s.push_str(" do");
        }
        self.line += 1;
        s.push_str(nl);
        // trailing value: `ret e` or bare `e`
        let as_ret = if def.body.value.is_some() {
            self.sites.ret += 1;
            let c = take(&self.plan.retform, &mut self.cur.retform) & 1 == 1;
            if !c {
                self.sites.ret_trailing += 1;
            }
            Some(c)
        } else {
            None
        };
        let (txt, _) = self.sub(|p| p.block_lines(&def.body, as_ret));
        s.push_str(&txt);
        s.push_str(&format!("{}end", self.ind()));
        self.fn_depth -= 1;
        s
    }

    fn def_text(&mut self, var: VarId, mutable: bool, value: &Expr) -> String {
        let name = self.name(var);
        let is_fn = matches!(value.kind, EKind::Lambda(_));
        // a definition whose value is a function literal carries its types in the literal; any other definition can be
        // annotated, also with a function type (`h: fn int -> int : g`)
        let ann = if is_fn { false } else { self.want_annot(0) };
        let v = self.expr_t(value, true);
        if ann {
            let vt = self.p.var(var).ty.clone();
            let tt = self.ty_text(&vt);
            format!("{}: {} {} {}", name, tt, if mutable { "=" } else { ":" }, v)
        } else {
            format!("{} {} {}", name, if mutable { ":=" } else { "::" }, v)
        }
    }

    pub fn stmt(&mut self, s: &Stmt) {
        match s {
            Stmt::Def { var, mutable, value } => {
                self.emit_with(|p| p.def_text(*var, *mutable, value));
            }
            Stmt::Assign { target, op, value } => self.emit_with(|p| {
                let this = p;
                let tt = match target {
                    LValue::Var(v) => this.name(*v),
                    LValue::Field(o, n) => {
                        this.no_atom_parens += 1;
                        this.plain_calls += 1;
                        let ot = match &o.kind {
                            EKind::Var(_) | EKind::Field(..) | EKind::Call(..) => this.expr(o),
                            _ => format!("({})", this.expr(o)),
                        };
                        this.plain_calls -= 1;
                        this.no_atom_parens -= 1;
                        format!("{}.{}", ot, n)
                    }
                };
                let v = this.expr_t(value, true);
                format!("{} {} {}", tt, op.text(), v)
            }),
            Stmt::Expr(x) => self.emit_with(|p| p.expr_t(x, true)),
            Stmt::Loop { cond, body } => {
                self.sites.loops += 1;
                self.emit_with(|p| match cond {
                    Some(c) => format!("loop {} do", p.expr(c)),
                    None => {
                        let f = take(&p.plan.loopform, &mut p.cur.loopform) & 1 == 1;
                        if f {
                            "loop true do".to_string()
                        } else {
                            "loop do".to_string()
                        }
                    }
                });
                self.block_lines(body, None);
                let i = self.ind();
                self.out.push_str(&format!("{}end", i));
                self.nl();
            }
            Stmt::Break => self.emit_line("break"),
            Stmt::Continue => self.emit_line("continue"),
            Stmt::Ret(v) => match v {
                Some(x) => self.emit_with(|p| format!("ret {}", p.expr_t(x, true))),
                None => self.emit_line("ret"),
            },
            Stmt::Block(b) => {
                self.emit_line("do");
                self.block_lines(b, None);
                let i = self.ind();
                self.out.push_str(&format!("{}end", i));
                self.nl();
            }
            Stmt::Unreachable(uid) => {
                let tr = self.begin();
                // (a uid printed on two lines - a copied expression - cannot be attributed: marked with usize::MAX)
                let line = if self.unreachable_lines.contains_key(uid) { usize::MAX } else { self.line };
                self.unreachable_lines.insert(*uid, line);
                self.finish("<!>", tr);
            }
            Stmt::Raw(t) => {
                for l in t.lines() {
                    self.emit_line(l);
                }
            }
            Stmt::Assert(a, b) => self.emit_with(|p| {
                let l = p.operand(a);
                let r = p.operand(b);
                format!("{} <=> {}", l, r)
            }),
        }
    }

    fn blob_decl(&mut self, b: &BlobDecl) {
        let tr = self.begin();
        let mut s = format!("{} :: blob {{", b.name);
        for (i, f) in b.fields.iter().enumerate() {
            if i > 0 {
                let sp = self.sep();
                s.push_str(&sp);
            } else {
                s.push(' ');
            }
            let tt = self.ty_text(&f.ty);
            s.push_str(&format!("{}: {}", f.name, tt));
        }
        s.push_str(" }");
        self.finish(&s, tr);
    }

    fn enum_decl(&mut self, e: &EnumDecl) {
        self.emit_line(&format!("{} :: enum", e.name));
        self.depth += 1;
        for v in &e.variants {
            let t = match &v.payload {
                Some(t) => format!("{} {},", v.name, self.ty_text(t)),
                None => format!("{},", v.name),
            };
            let i = self.ind();
            self.out.push_str(&format!("{}{}", i, t));
            self.nl();
        }
        self.depth -= 1;
        self.out.push_str("end");
        self.nl();
    }

    fn ordered_items(&self) -> Vec<usize> {
        let n = self.p.blobs.len() + self.p.enums.len() + self.p.globals.len();
        let mut items: Vec<usize> = (0..n).collect();
        if let Some(order) = &self.plan.order {
            let mut seen = vec![false; n];
            let mut out = Vec::new();
            for &i in order {
                if i < n && !seen[i] {
                    seen[i] = true;
                    out.push(i);
                }
            }
            for i in 0..n {
                if !seen[i] {
                    out.push(i);
                }
            }
            items = out;
        }
        items
    }

    fn render_items(&mut self, items: &[usize]) -> Vec<(usize, usize)> {
        let p = self.p;
        let nb = p.blobs.len();
        let ne = p.enums.len();
        let mut item_lines = Vec::new();
        for &it in items {
            let start = self.line;
            if it < nb {
                self.blob_decl(&p.blobs[it]);
            } else if it < nb + ne {
                self.enum_decl(&p.enums[it - nb]);
            } else {
                let g = &p.globals[it - nb - ne];
                self.emit_with(|pr| pr.def_text(g.var, g.mutable, &g.value));
            }
            item_lines.push((start, self.line - 1));
        }
        item_lines
    }

    pub fn program(mut self) -> Printed {
        let items = self.ordered_items();
        let item_lines = self.render_items(&items);
        Printed {
            text: self.out,
            unreachable_lines: self.unreachable_lines,
            sites: self.sites,
            item_lines,
            annot_taken: self.annot_taken,
        }
    }
}

/// namespace name introduced by `use <path>`
/// names of the bundled library modules: `use list` means the library, and every file has these namespaces bound
pub const LIB_MODULES: &[&str] = &["common", "container", "dict", "list", "math", "maybe", "preamble", "set", "unsafe"];

/// a project file (in a sub-folder) that carries the name of a library module: its namespace name is taken in every
/// file, so it is imported under an alias or with `from`, never by its plain name
pub fn lib_named(file: &str) -> bool {
    file.contains('/') && LIB_MODULES.contains(&file.rsplit('/').next().unwrap_or(""))
}

/// the text is one parenthesised group: its first `(` closes at the very end
fn balanced_outer(s: &str) -> bool {
    let mut depth = 0i32;
    let mut in_str = false;
    let n = s.chars().count();
    for (i, c) in s.chars().enumerate() {
        if c == '"' {
            in_str = !in_str;
        }
        if in_str {
            continue;
        }
        match c {
            '(' | '[' | '{' => depth += 1,
            ')' | ']' | '}' => {
                depth -= 1;
                if depth == 0 && i + 1 < n {
                    return false;
                }
            }
            _ => {}
        }
    }
    depth == 0
}

/// number in the alias `ns<k>` under which file `from` imports file `to`: distinct for the targets of one file, but the
/// same alias names different modules in different files (a namespace name is a per-file binding)
pub fn alias_no(from: usize, to: usize, nf: usize) -> usize {
    (from + to) % nf.max(1)
}

pub fn module_ns(import_path: &str) -> String {
    import_path.trim_matches('/').rsplit('/').next().unwrap_or("").to_string()
}

/// the path written after `use` / `from` in module `from` to reach module `to` (both root-relative,
/// without `.sy`; `x/exports` is the folder module `x/`)
pub fn import_path(from: &str, to: &str, rooted: bool) -> String {
    let from_dir = match from.rfind('/') {
        Some(i) => &from[..i],
        None => "",
    };
    let (to_shown, is_folder) = match to.strip_suffix("/exports") {
        Some(d) => (d.to_string(), true),
        None => (to.to_string(), false),
    };
    let rel: Option<String> = if from_dir.is_empty() {
        Some(to_shown.clone())
    } else if let Some(rest) = to_shown.strip_prefix(&format!("{}/", from_dir)) {
        Some(rest.to_string())
    } else {
        None
    };
    let mut path = match (rel, rooted) {
        // (a bare library name would mean the library: a sibling file of that name is written root-relative)
        (Some(r), false) if !(LIB_MODULES.contains(&r.as_str()) && !is_folder) => r,
        _ => format!("/{}", to_shown),
    };
    if is_folder {
        path.push('/');
    }
    path
}

pub struct PrintedFiles {
    /// "/p/<module>.sy" -> text
    pub files: std::collections::BTreeMap<String, String>,
    pub main: String,
    /// `<!>` uid -> line (in whichever file it is)
    pub unreachable_lines: HashMap<u32, usize>,
    pub import_styles_used: std::collections::BTreeSet<u8>,
    pub cross_file_refs: usize,
}

/// Multi-file rendering according to `plan.modules`.
pub fn print_files(p: &Program, plan: &Plan) -> PrintedFiles {
    let m = plan.modules.as_ref().expect("print_files needs a module plan");
    let mut files = std::collections::BTreeMap::new();
    let mut unreachable_lines = HashMap::new();
    let mut styles = std::collections::BTreeSet::new();
    let mut cross = 0;
    // pre-pass: which modules must import which others on behalf of `via.to.x` references written elsewhere
    let mut forced: std::collections::BTreeMap<usize, std::collections::BTreeSet<usize>> = std::collections::BTreeMap::new();
    let mut via_used = false;
    for f in 0..m.files.len() {
        let mut pr = Printer::new(p, plan);
        let items: Vec<usize> = pr.ordered_items().into_iter().filter(|i| *m.file_of.get(*i).unwrap_or(&0) == f).collect();
        pr.file = f;
        pr.render_items(&items);
        for (via, to) in pr.via_links.iter() {
            forced.entry(*via).or_default().insert(*to);
            via_used = true;
        }
    }
    for f in 0..m.files.len() {
        let items: Vec<usize> = {
            let pr = Printer::new(p, plan);
            pr.ordered_items().into_iter().filter(|i| *m.file_of.get(*i).unwrap_or(&0) == f).collect()
        };
        // pass 1: which names are needed from which file
        let mut pr = Printer::new(p, plan);
        pr.file = f;
        pr.render_items(&items);
        let needed = pr.needed.clone();
        let mut header = String::new();
        // plain `use` lines: for `via.to.x` written here, and on behalf of such references written elsewhere
        let mut plain: std::collections::BTreeSet<usize> = pr.plain_uses.clone();
        if let Some(fs) = forced.get(&f) {
            plain.extend(fs.iter().copied());
        }
        for to in &plain {
            let own_style = m.style.get(f).and_then(|r| r.get(*to)).copied().unwrap_or(0) % 5;
            let own_rooted = m.rooted.get(f).and_then(|r| r.get(*to)).copied().unwrap_or(false);
            // the file's own plain import of that module (relative or rooted) binds the same namespace name
            let _ = own_rooted;
            let already = needed.contains_key(to) && (own_style == 0 || own_style == 4);
            if !already {
                header.push_str(&format!("use {}\n", import_path(&m.files[f], &m.files[*to], false)));
            }
        }
        if via_used {
            styles.insert(4);
        }
        for (to, names) in &needed {
            cross += names.len();
            let style = m.style.get(f).and_then(|r| r.get(*to)).copied().unwrap_or(0) % 5;
            let style = if style == 4 { 0 } else { style };
            let style = if style == 0 && lib_named(&m.files[*to]) { 1 } else { style };
            styles.insert(style);
            let rooted = m.rooted.get(f).and_then(|r| r.get(*to)).copied().unwrap_or(false);
            let path = import_path(&m.files[f], &m.files[*to], rooted);
            match style {
                0 => header.push_str(&format!("use {}\n", path)),
                1 => header.push_str(&format!("use {} as ns{}\n", path, alias_no(f, *to, m.files.len()))),
                2 => {
                    let list: Vec<String> = names.iter().cloned().collect();
                    if m.paren_lists && list.len() > 1 {
                        header.push_str(&format!("from {} use (\n    {},\n)\n", path, list.join(",\n    ")));
                    } else {
                        header.push_str(&format!("from {} use {}\n", path, list.join(", ")));
                    }
                }
                _ => {
                    let list: Vec<String> = names.iter().map(|n| format!("{} as {}_m{}", n, n, to)).collect();
                    if m.paren_lists && list.len() > 1 {
                        header.push_str(&format!("from {} use (\n    {},\n)\n", path, list.join(",\n    ")));
                    } else {
                        header.push_str(&format!("from {} use {}\n", path, list.join(", ")));
                    }
                }
            }
        }
        if f == 0 {
            // every non-empty module is loaded: main imports the ones nothing else made it need
            for to in 1..m.files.len() {
                if !needed.contains_key(&to) && !plain.contains(&to) && m.file_of.iter().any(|x| *x == to) {
                    if lib_named(&m.files[to]) {
                        header.push_str(&format!("use {} as ns{}\n", import_path(&m.files[0], &m.files[to], false), alias_no(0, to, m.files.len())));
                    } else {
                        header.push_str(&format!("use {}\n", import_path(&m.files[0], &m.files[to], false)));
                    }
                }
            }
        }
        let header_lines = header.matches('\n').count();
        // pass 2: real rendering with the right line numbers
        let mut pr = Printer::new(p, plan);
        pr.file = f;
        pr.line = header_lines + 1;
        pr.render_items(&items);
        for (k, v) in pr.unreachable_lines.iter() {
            unreachable_lines.insert(*k, *v);
        }
        files.insert(format!("/p/{}.sy", m.files[f]), format!("{}{}", header, pr.out));
    }
    // a module with its own `start`
    if let Some(k) = m.module_start {
        let main_path = format!("/p/{}.sy", m.files[0]);
        if k > 0 && k < m.files.len() {
            let mod_path = format!("/p/{}.sy", m.files[k]);
            let main_text = files.get(&main_path).cloned().unwrap_or_default();
            // the namespace under which the main file knows that module (a `use path` / `use path as ns` line)
            let plain = import_path(&m.files[0], &m.files[k], false);
            let rooted = import_path(&m.files[0], &m.files[k], true);
            let mut ns: Option<String> = None;
            for l in main_text.lines() {
                if !(l.starts_with("use ") || l.starts_with("from ")) {
                    break;
                }
                let mut it = l.split_whitespace();
                if it.next() == Some("use") {
                    let path = it.next().unwrap_or("");
                    if path == plain || path == rooted {
                        ns = Some(match (it.next(), it.next()) {
                            (Some("as"), Some(a)) => a.to_string(),
                            _ => module_ns(path),
                        });
                    }
                }
            }
            let lines: Vec<&str> = main_text.lines().collect();
            if let (Some(ns), Some(mod_text), Some(last)) = (ns, files.get(&mod_path).cloned(), lines.iter().rposition(|l| *l == "end")) {
                let nl = if plan.crlf { "\r\n" } else { "\n" };
                let mut out: Vec<String> = lines.iter().map(|x| x.to_string()).collect();
                out.insert(last, format!("    {}.start()", ns));
                files.insert(main_path, out.join("\n") + "\n");
                files.insert(mod_path, format!("{}start :: fn do{}end{}", mod_text, nl, nl));
            }
        }
    }
    PrintedFiles { files, main: format!("/p/{}.sy", m.files[0]), unreachable_lines, import_styles_used: styles, cross_file_refs: cross }
}

pub fn print_program(p: &Program, plan: &Plan) -> Printed {
    Printer::new(p, plan).program()
}
