//! GenAST: a typed core of Sylt with unique binder identities, independent of `sylt_parser`'s AST.
use serde::{Deserialize, Serialize};

pub type VarId = u32;

#[derive(Clone, Debug, PartialEq, Eq, Hash, Serialize, Deserialize)]
pub enum Ty {
    Int,
    Float,
    Str,
    Bool,
    Void,
    Tuple(Vec<Ty>),
    List(Box<Ty>),
    /// params, return (Void allowed), pure
    Fn(Vec<Ty>, Box<Ty>, bool),
    Blob(usize),
    Enum(usize),
    /// the std `Maybe(*V)` enum
    Maybe(Box<Ty>),
}

impl Ty {
    pub fn is_num(&self) -> bool {
        matches!(self, Ty::Int | Ty::Float)
    }
    pub fn is_fn(&self) -> bool {
        matches!(self, Ty::Fn(..))
    }
    /// can `print`/`as_str` of a value of this type be compared textually (no addresses, no hash order)?
    pub fn printable(&self, p: &Program) -> bool {
        match self {
            Ty::Int | Ty::Float | Ty::Str | Ty::Bool => true,
            Ty::Void | Ty::Fn(..) | Ty::Blob(_) => false,
            Ty::Tuple(ts) => ts.iter().all(|t| t.printable(p)),
            Ty::List(t) | Ty::Maybe(t) => t.printable(p),
            Ty::Enum(e) => p.enums[*e].variants.iter().all(|v| v.payload.as_ref().map(|t| t.printable(p)).unwrap_or(true)),
        }
    }
    /// does `==` on this type avoid function identity (so that results are deterministic)?
    pub fn eq_ok(&self, p: &Program) -> bool {
        match self {
            Ty::Int | Ty::Float | Ty::Str | Ty::Bool => true,
            Ty::Void | Ty::Fn(..) => false,
            Ty::Tuple(ts) => ts.iter().all(|t| t.eq_ok(p)),
            Ty::List(t) | Ty::Maybe(t) => t.eq_ok(p),
            Ty::Blob(b) => p.blobs[*b].fields.iter().all(|f| f.ty.eq_ok(p)),
            Ty::Enum(e) => p.enums[*e].variants.iter().all(|v| v.payload.as_ref().map(|t| t.eq_ok(p)).unwrap_or(true)),
        }
    }
    /// `<`-comparable with itself
    pub fn ord_ok(&self) -> bool {
        match self {
            Ty::Int | Ty::Float | Ty::Str => true,
            Ty::Tuple(ts) => !ts.is_empty() && ts.iter().all(|t| t.ord_ok()),
            _ => false,
        }
    }
    /// `+ - *` element-wise capable (numbers and tuples of such)
    pub fn arith_ok(&self) -> bool {
        match self {
            Ty::Int | Ty::Float => true,
            Ty::Tuple(ts) => !ts.is_empty() && ts.iter().all(|t| t.arith_ok()),
            _ => false,
        }
    }
    pub fn depth(&self) -> usize {
        match self {
            Ty::Tuple(ts) => 1 + ts.iter().map(|t| t.depth()).max().unwrap_or(0),
            Ty::List(t) | Ty::Maybe(t) => 1 + t.depth(),
            Ty::Fn(ps, r, _) => 1 + ps.iter().map(|t| t.depth()).max().unwrap_or(0).max(r.depth()),
            _ => 0,
        }
    }
}

#[derive(Clone, Copy, Debug, PartialEq, Eq, Hash, Serialize, Deserialize)]
pub enum BinOp {
    Add,
    Sub,
    Mul,
    Div,
    Eq,
    Ne,
    Lt,
    Le,
    Gt,
    Ge,
    And,
    Or,
}
impl BinOp {
    pub fn text(self) -> &'static str {
        match self {
            BinOp::Add => "+",
            BinOp::Sub => "-",
            BinOp::Mul => "*",
            BinOp::Div => "/",
            BinOp::Eq => "==",
            BinOp::Ne => "!=",
            BinOp::Lt => "<",
            BinOp::Le => "<=",
            BinOp::Gt => ">",
            BinOp::Ge => ">=",
            BinOp::And => "and",
            BinOp::Or => "or",
        }
    }
}

#[derive(Clone, Copy, Debug, PartialEq, Eq, Hash, Serialize, Deserialize)]
pub enum StdFn {
    Print,
    AsStr,
    ListPush,
    ListLen,
    ListGet,
    ListMap,
    ListFilter,
    ListFold,
    ListForEach,
    AsFloat,
}

#[derive(Clone, Debug, PartialEq, Serialize, Deserialize)]
pub struct Expr {
    pub ty: Ty,
    pub kind: EKind,
}

#[derive(Clone, Debug, PartialEq, Serialize, Deserialize)]
pub enum EKind {
    Int(i64),
    /// literal text exactly as written in the source (must match the Sylt float token)
    Float(String),
    Str(String),
    Bool(bool),
    Var(VarId),
    Bin(BinOp, Box<Expr>, Box<Expr>),
    Neg(Box<Expr>),
    Not(Box<Expr>),
    /// `a <=> b` used as an expression (value: bool)
    AssertEq(Box<Expr>, Box<Expr>),
    /// if-expression; every branch block carries a value when `ty != Void`
    If(Vec<(Expr, Block)>, Option<Block>),
    Case { scrut: Box<Expr>, arms: Vec<Arm>, default: Option<Block> },
    Call(Box<Expr>, Vec<Expr>),
    Std(StdFn, Vec<Expr>),
    Lambda(Box<FnDef>),
    BlobNew { blob: usize, self_var: VarId, fields: Vec<(String, Expr)> },
    Field(Box<Expr>, String),
    TupleIdx(Box<Expr>, usize),
    Tuple(Vec<Expr>),
    List(Vec<Expr>),
    /// user enum variant: (enum index, variant name, payload)
    Variant(usize, String, Option<Box<Expr>>),
    MaybeJust(Box<Expr>),
    MaybeNone,
    /// literal source text (planted faults / perturbations); printed as is
    Raw(String),
    /// transparent marker around a perturbed expression: printed as its content; the reference interpreter
    /// counts how often it is evaluated
    Mark(Box<Expr>),
}

#[derive(Clone, Debug, PartialEq, Serialize, Deserialize)]
pub struct Arm {
    pub variant: String,
    pub bind: Option<VarId>,
    pub body: Block,
}

#[derive(Clone, Debug, PartialEq, Default, Serialize, Deserialize)]
pub struct Block {
    pub stmts: Vec<Stmt>,
    /// trailing expression whose value is the block's value (printed as a last expression statement)
    pub value: Option<Box<Expr>>,
}

#[derive(Clone, Copy, Debug, PartialEq, Eq, Hash, Serialize, Deserialize)]
pub enum AssignOp {
    Set,
    Add,
    Sub,
    Mul,
    Div,
}
impl AssignOp {
    pub fn text(self) -> &'static str {
        match self {
            AssignOp::Set => "=",
            AssignOp::Add => "+=",
            AssignOp::Sub => "-=",
            AssignOp::Mul => "*=",
            AssignOp::Div => "/=",
        }
    }
}

#[derive(Clone, Debug, PartialEq, Serialize, Deserialize)]
pub enum LValue {
    Var(VarId),
    Field(Box<Expr>, String),
}

#[derive(Clone, Debug, PartialEq, Serialize, Deserialize)]
pub enum Stmt {
    Def { var: VarId, mutable: bool, value: Expr },
    Assign { target: LValue, op: AssignOp, value: Expr },
    /// expression statement (calls, if/case in statement position, unused expressions)
    Expr(Expr),
    Loop { cond: Option<Expr>, body: Block },
    Break,
    Continue,
    Ret(Option<Expr>),
    Block(Block),
    /// `<!>`; uid lets the printer report the line it was printed on
    Unreachable(u32),
    Assert(Expr, Expr),
    /// literal source text of one statement (planted faults); printed as is at the block's indentation
    Raw(String),
}

#[derive(Clone, Debug, PartialEq, Serialize, Deserialize)]
pub struct FnDef {
    pub params: Vec<VarId>,
    pub ret: Ty,
    pub body: Block,
    pub pure: bool,
}

#[derive(Clone, Debug, PartialEq, Serialize, Deserialize)]
pub struct FieldDecl {
    pub name: String,
    pub ty: Ty,
}
#[derive(Clone, Debug, PartialEq, Serialize, Deserialize)]
pub struct BlobDecl {
    pub name: String,
    pub fields: Vec<FieldDecl>,
}
#[derive(Clone, Debug, PartialEq, Serialize, Deserialize)]
pub struct VariantDecl {
    pub name: String,
    pub payload: Option<Ty>,
}
#[derive(Clone, Debug, PartialEq, Serialize, Deserialize)]
pub struct EnumDecl {
    pub name: String,
    pub variants: Vec<VariantDecl>,
}

#[derive(Clone, Copy, Debug, PartialEq, Eq, Serialize, Deserialize)]
pub enum VarKind {
    Global,
    Local,
    Param,
    CaseBind,
    SelfVar,
}

#[derive(Clone, Debug, PartialEq, Serialize, Deserialize)]
pub struct VarInfo {
    pub name: String,
    pub ty: Ty,
    pub kind: VarKind,
    pub mutable: bool,
}

#[derive(Clone, Debug, PartialEq, Serialize, Deserialize)]
pub struct Global {
    pub var: VarId,
    pub mutable: bool,
    pub value: Expr,
}

#[derive(Clone, Debug, PartialEq, Default, Serialize, Deserialize)]
pub struct Program {
    pub blobs: Vec<BlobDecl>,
    pub enums: Vec<EnumDecl>,
    pub vars: Vec<VarInfo>,
    /// in a valid initialisation order; `start` is the last one
    pub globals: Vec<Global>,
}

impl Program {
    pub fn new_var(&mut self, name: String, ty: Ty, kind: VarKind, mutable: bool) -> VarId {
        self.vars.push(VarInfo { name, ty, kind, mutable });
        (self.vars.len() - 1) as VarId
    }
    pub fn var(&self, v: VarId) -> &VarInfo {
        &self.vars[v as usize]
    }
}

pub fn e(ty: Ty, kind: EKind) -> Expr {
    Expr { ty, kind }
}
pub fn int(i: i64) -> Expr {
    e(Ty::Int, EKind::Int(i))
}
pub fn boolean(b: bool) -> Expr {
    e(Ty::Bool, EKind::Bool(b))
}
pub fn string(s: &str) -> Expr {
    e(Ty::Str, EKind::Str(s.to_string()))
}
pub fn float(s: &str) -> Expr {
    e(Ty::Float, EKind::Float(s.to_string()))
}
pub fn var(p: &Program, v: VarId) -> Expr {
    e(p.var(v).ty.clone(), EKind::Var(v))
}
pub fn bin(op: BinOp, ty: Ty, a: Expr, b: Expr) -> Expr {
    e(ty, EKind::Bin(op, Box::new(a), Box::new(b)))
}
pub fn print_stmt(x: Expr) -> Stmt {
    Stmt::Expr(e(Ty::Void, EKind::Std(StdFn::Print, vec![x])))
}
