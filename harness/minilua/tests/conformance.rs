//! Runtime conformance: small chunks with expected stdout / error text, written from the Lua 5.3 reference
//! manual and the reference implementation's sources (lvm.c, lobject.c, lstrlib.c, ltablib.c, ...).

use minilua::{load, run, Limits, RunOutcome};

enum E {
    /// exact stdout, outcome Ok
    Out(&'static str),
    /// outcome Error with exactly this message
    Fail(&'static str),
    /// outcome Error whose message contains this
    FailHas(&'static str),
    /// out of budget
    Budget(&'static str),
}
use E::*;

fn check(name: &str, src: &str, e: &E) -> Result<(), String> {
    let chunk = load(src.as_bytes()).map_err(|e| format!("{}: load error [{}] {}", name, e.class, e.msg))?;
    let r = run(&chunk, &Limits { max_steps: 200_000, ..Limits::default() });
    let out = String::from_utf8_lossy(&r.stdout).to_string();
    match (e, &r.outcome) {
        (Out(exp), RunOutcome::Ok) => {
            if out == *exp {
                Ok(())
            } else {
                Err(format!("{}: stdout mismatch\n  expected {:?}\n  got      {:?}", name, exp, out))
            }
        }
        (Fail(exp), RunOutcome::Error { msg }) => {
            if msg == exp {
                Ok(())
            } else {
                Err(format!("{}: error mismatch\n  expected {:?}\n  got      {:?}", name, exp, msg))
            }
        }
        (FailHas(exp), RunOutcome::Error { msg }) => {
            if msg.contains(exp) {
                Ok(())
            } else {
                Err(format!("{}: error mismatch\n  expected to contain {:?}\n  got {:?}", name, exp, msg))
            }
        }
        (Budget(w), RunOutcome::OutOfBudget { what }) if w == what => Ok(()),
        (_, o) => Err(format!("{}: unexpected outcome {:?} (stdout {:?})", name, o, out)),
    }
}

fn run_cases(cases: Vec<(&'static str, &'static str, E)>) {
    let n = cases.len();
    let fails = minilua::with_big_stack(move || {
        let mut fails = Vec::new();
        for (name, src, e) in cases.iter() {
            if let Err(m) = check(name, src, e) {
                fails.push(m);
            }
        }
        fails
    });
    for f in fails.iter() {
        eprintln!("FAIL {}", f);
    }
    assert!(fails.is_empty(), "{} of {} conformance cases failed", fails.len(), n);
}

#[test]
fn numbers_and_formatting() {
    run_cases(vec![
        ("int", "print(1, -1, 0, 123456789012)", Out("1\t-1\t0\t123456789012\n")),
        ("float-int-valued", "print(100.0, 1.0, -2.0, 0.0)", Out("100.0\t1.0\t-2.0\t0.0\n")),
        ("neg-zero", "print(-0.0)", Out("-0.0\n")),
        ("neg-zero-2", "local z = 0.0 print(-z, 0.0 * -1)", Out("-0.0\t-0.0\n")),
        ("1e15", "print(1e15)", Out("1e+15\n")),
        ("1e14", "print(1e14, 123456789012345.0)", Out("1e+14\t1.2345678901234e+14\n")),
        ("2^53", "print(2^53)", Out("9.007199254741e+15\n")),
        ("1e100", "print(1e100)", Out("1e+100\n")),
        ("0.1", "print(0.1, 0.5, 1.5, 3.14159)", Out("0.1\t0.5\t1.5\t3.14159\n")),
        ("third", "print(1/3, 2/3, 10/3)", Out("0.33333333333333\t0.66666666666667\t3.3333333333333\n")),
        ("inf", "print(1/0, -1/0, math.huge, -math.huge)", Out("inf\t-inf\tinf\t-inf\n")),
        ("nan", "print(0/0, -(0/0))", Out("-nan\tnan\n")),
        ("nan-neq", "local n = 0/0 print(n == n, n ~= n, n < n, n <= n)", Out("false\ttrue\tfalse\tfalse\n")),
        ("overflow-mul", "print(1e308*10, -1e308*10)", Out("inf\t-inf\n")),
        ("small", "print(1e-5, 0.0001, 5e-324, 2.2250738585072014e-308)", Out("1e-05\t0.0001\t4.9406564584125e-324\t2.2250738585072e-308\n")),
        ("div", "print(3 / 2, 10 / 2, 7 / 7)", Out("1.5\t5.0\t1.0\n")),
        ("pow", "print(2^2, 2^0.5, 10^2, 2^-1)", Out("4.0\t1.4142135623731\t100.0\t0.5\n")),
        ("idiv-int", "print(7 // 2, -7 // 2, 7 // -2, -7 // -2, 0 // 5)", Out("3\t-4\t-4\t3\t0\n")),
        ("idiv-float", "print(5.5 // 2, -5.5 // 2, 7 // 2.0, 1 // 0.0, -1 // 0.0)", Out("2.0\t-3.0\t3.0\tinf\t-inf\n")),
        ("mod-int", "print(-7 % 3, 7 % -3, 7 % 3, -7 % -3, 5 % 5)", Out("2\t-2\t1\t-1\t0\n")),
        ("mod-float", "print(5.5 % 2, -5.5 % 2, 5.5 % -2, 5 % 2.5)", Out("1.5\t0.5\t-0.5\t0.0\n")),
        ("mod-inf", "print(1 % math.huge, -1 % math.huge, 1 % -math.huge)", Out("1.0\tinf\t-inf\n")),
        ("idiv-zero", "print(1 // 0)", Fail("stdin:1: attempt to perform 'n//0'")),
        ("mod-zero", "print(1 % 0)", Fail("stdin:1: attempt to perform 'n%0'")),
        ("mod-zero-float", "print(1 % 0.0, 1.0 % 0)", Out("-nan\t-nan\n")),
        ("wrap", "print(math.maxinteger + 1 == math.mininteger, math.mininteger - 1 == math.maxinteger)", Out("true\ttrue\n")),
        ("wrap-print", "print(math.maxinteger, math.mininteger, math.maxinteger * 2)", Out("9223372036854775807\t-9223372036854775808\t-2\n")),
        ("minint-div", "print(math.mininteger // -1, math.mininteger % -1)", Out("-9223372036854775808\t0\n")),
        ("neg-minint", "print(-math.mininteger == math.mininteger)", Out("true\n")),
        ("mixed", "print(1 + 1.0, 2 * 1.5, 3 - 0.5, 1 + 2)", Out("2.0\t3.0\t2.5\t3\n")),
        ("int-float-eq", "print(1 == 1.0, 2^53 == 2^53 + 1, math.maxinteger + 0.0 == math.maxinteger)", Out("true\ttrue\tfalse\n")),
        ("2^53-edge", "print(9007199254740993 == 2^53, 9007199254740993 < 2^53 + 2, 9007199254740992 == 2^53, 9007199254740993 > 2^53)", Out("false\ttrue\ttrue\ttrue\n")),
        ("int-float-order", "print(1 < 1.5, 2 > 1.5, math.maxinteger < math.huge, math.mininteger > -math.huge, 1 <= 1.0, 1 >= 1.0)", Out("true\ttrue\ttrue\ttrue\ttrue\ttrue\n")),
        ("maxint-float", "print(math.maxinteger < 2^63, math.maxinteger + 0.0 == 2^63, math.maxinteger <= 2^63, 2^63 > math.maxinteger)", Out("true\ttrue\ttrue\ttrue\n")),
        ("str-arith", "print(\"10\" + 1, \"3\" * \"4\", \"0x10\" + 0, \" 5 \" + 0, -\"2\")", Out("11.0\t12.0\t16.0\t5.0\t-2.0\n")),
        ("str-arith-eq", "print(\"10\" + 1 == 11)", Out("true\n")),
        ("str-arith-bad", "print(\"abc\" + 1)", Fail("stdin:1: attempt to perform arithmetic on a string value")),
        ("str-arith-bad2", "local s = \"abc\" print(1 + s)", Fail("stdin:1: attempt to perform arithmetic on a string value (local 's')")),
        ("concat-num", "print(10 .. 20, 1.5 .. \"x\", 2^53 .. \"\", 1.0 .. \"\")", Out("1020\t1.5x\t9.007199254741e+15\t1.0\n")),
        ("tostring", "print(tostring(nil), tostring(true), tostring(false), tostring(12), tostring(1.25), tostring(\"s\"))", Out("nil\ttrue\tfalse\t12\t1.25\ts\n")),
        ("tonumber", "print(tonumber(\"10\"), tonumber(\"1e1\"), tonumber(\"0x10\"), tonumber(\"  12  \"), tonumber(\"1 2\"), tonumber(\"\"), tonumber(\"abc\"), tonumber(nil))", Out("10\t10.0\t16\t12\tnil\tnil\tnil\tnil\n")),
        ("tonumber-base", "print(tonumber(\"ff\", 16), tonumber(\"zz\", 36), tonumber(\"8\", 8), tonumber(\"-101\", 2), tonumber(\"7fffffffffffffff\", 16))", Out("255\t1295\tnil\t-5\t9223372036854775807\n")),
        ("tonumber-hexfloat", "print(tonumber(\"0x1p4\"), tonumber(\"0x.8\"), 0xA, 0Xa.8p0, 0x10p-1)", Out("16.0\t0.5\t10\t10.5\t8.0\n")),
        ("numerals", "print(3, 3.0, 3.1416, 314.16e-2, 0.31416E1, 34e1, 0xff, 0xBEBADA)", Out("3\t3.0\t3.1416\t3.1416\t3.1416\t340.0\t255\t12499674\n")),
        ("big-int-literal", "print(9223372036854775807, 9223372036854775808, 0xffffffffffffffff, 0x7fffffffffffffff)", Out("9223372036854775807\t9.2233720368548e+18\t-1\t9223372036854775807\n")),
        ("math.type", "print(math.type(1), math.type(1.0), math.type(\"1\"), math.type(2^31), math.type(7 // 2), math.type(7 // 2.0))", Out("integer\tfloat\tnil\tfloat\tinteger\tfloat\n")),
        ("floor-ceil", "print(math.floor(3.7), math.ceil(3.2), math.floor(-3.7), math.ceil(-3.2), math.floor(5), math.floor(2^62), math.floor(2^63), math.floor(-0.0))", Out("3\t4\t-4\t-3\t5\t4611686018427387904\t9.2233720368548e+18\t0\n")),
        ("abs-etc", "print(math.abs(-5), math.abs(-5.5), math.abs(math.mininteger), math.max(1, 2.5), math.min(3, 1, 2), math.max(2, 2.0))", Out("5\t5.5\t-9223372036854775808\t2.5\t1\t2\n")),
        ("sqrt-etc", "print(math.sqrt(16), math.sqrt(2), math.sin(0), math.cos(0), math.pi, math.exp(0), math.log(1), math.log(8, 2), math.log(100, 10))", Out("4.0\t1.4142135623731\t0.0\t1.0\t3.1415926535898\t1.0\t0.0\t3.0\t2.0\n")),
        ("modf-fmod", "print(math.modf(3.7), math.modf(-3.7), math.modf(5), math.fmod(7, 3), math.fmod(-7, 3), math.fmod(7, -3), math.fmod(5.5, 2))", Out("3.0\t-3.0\t5\t1\t-1\t1\t1.5\n")),
        ("modf-frac", "local i, f = math.modf(3.25) print(i, f) print(math.modf(math.huge))", Out("3.0\t0.25\ninf\t0.0\n")),
        ("tointeger", "print(math.tointeger(3.0), math.tointeger(3.5), math.tointeger(\"8\"), math.tointeger({}), math.ult(1, -1))", Out("3\tnil\t8\tnil\ttrue\n")),
        ("atan", "print(math.atan(1), math.atan(1, 1), math.atan(0, -1), math.atan(1, 0))", Out("0.78539816339745\t0.78539816339745\t3.1415926535898\t1.5707963267949\n")),
        ("fmt-f", "print(string.format('%5.2f|%.3f|%f|%10.4f|%-8.1f|', 3.14159, 2.0, 1.5, math.pi, 2.25))", Out(" 3.14|2.000|1.500000|    3.1416|2.2     |\n")),
        ("fmt-g", "print(string.format('%g %g %g %g %g %g', 1e20, 0.1, 100, 1e-5, 123456789, 2^53))", Out("1e+20 0.1 100 1e-05 1.23457e+08 9.0072e+15\n")),
        ("fmt-14g", "print(string.format('%.14g', 2^53), string.format('%.14g', 0.1), string.format('%.17g', 0.1), string.format('%.3g', 1234.5))", Out("9.007199254741e+15\t0.1\t0.10000000000000001\t1.23e+03\n")),
        ("fmt-e", "print(string.format('%e|%.2e|%E', 12345.678, 0.00012, 1.0))", Out("1.234568e+04|1.20e-04|1.000000E+00\n")),
        ("fmt-d", "print(string.format('%d|%5d|%-5d|%05d|%+d|% d|%.3d|%x|%X|%o|%#x|%c', 42, 42, 42, 42, 42, 42, 7, 255, 255, 8, 255, 65))", Out("42|   42|42   |00042|+42| 42|007|ff|FF|10|0xff|A\n")),
        ("fmt-d-float", "print(string.format('%d', 3.0))", Out("3\n")),
        ("fmt-d-bad", "print(string.format('%d', 3.5))", Fail("stdin:1: bad argument #2 to 'format' (number has no integer representation)")),
        ("fmt-s", "print(string.format('%s|%10s|%-10s|%.2s|%s|%s', 'hi', 'hi', 'hi', 'hello', nil, true))", Out("hi|        hi|hi        |he|nil|true\n")),
        ("fmt-q", "print(string.format('%q', 'a\\nb\"c\\\\d\\0e\\0001'))", Out("\"a\\\nb\\\"c\\\\d\\0e\\0001\"\n")),
        ("fmt-q-ctrl", "print(string.format('%q', '\\1\\0012\\r'))", Out("\"\\1\\0012\\13\"\n")),
        ("fmt-pct", "print(string.format('100%%'), string.format('%5s%%', 'x'))", Out("100%\t    x%\n")),
        ("fmt-bad", "print(string.format('%y', 1))", Fail("stdin:1: invalid option '%y' to 'format'")),
        ("fmt-missing", "print(string.format('%d'))", Fail("stdin:1: bad argument #2 to 'format' (no value)")),
        ("fmt-i", "print(string.format('%i %u', 5, 7))", Out("5 7\n")),
        ("fmt-round", "print(string.format('%.0f %.0f %.0f %.1f %.2f', 0.5, 1.5, 2.5, 0.25, 0.125))", Out("0 2 2 0.2 0.12\n")),
        ("bitwise", "print(5 & 3, 5 | 3, 5 ~ 3, ~5, 1 << 4, 256 >> 4, -1 >> 60, 1 << 64, 1 << -1, 3.0 | 0)", Out("1\t7\t6\t-6\t16\t16\t15\t0\t0\t3\n")),
        ("bitwise-float-bad", "print(1.5 | 0)", Fail("stdin:1: number has no integer representation")),
        ("bitwise-str", "print(\"3\" | 0)", Out("3\n")),
        ("bitwise-bad", "print({} | 0)", Fail("stdin:1: attempt to perform bitwise operation on a table value")),
        ("unm-int-float", "print(-5, - -5, -5.5, -(2^63))", Out("-5\t5\t-5.5\t-9.2233720368548e+18\n")),
        ("len-str", "print(#\"\", #\"abc\", #\"a\\0b\")", Out("0\t3\t3\n")),
    ]);
}

#[test]
fn comparison_and_logic() {
    run_cases(vec![
        ("str-cmp", "print(\"a\" < \"b\", \"a\" < \"B\", \"abc\" < \"abd\", \"\" < \"a\", \"a\" <= \"a\", \"Z\" < \"a\", \"10\" < \"9\")", Out("true\tfalse\ttrue\ttrue\ttrue\ttrue\ttrue\n")),
        ("str-cmp-prefix", "print(\"ab\" < \"abc\", \"abc\" > \"ab\", \"a\\0b\" < \"a\\0c\")", Out("true\ttrue\ttrue\n")),
        ("cmp-mixed-err", "print(1 < \"2\")", Fail("stdin:1: attempt to compare number with string")),
        ("cmp-nil-err", "local x print(1 < x)", Fail("stdin:1: attempt to compare number with nil")),
        ("cmp-gt-swaps", "local x print(1 > x)", Fail("stdin:1: attempt to compare nil with number")),
        ("cmp-tables-err", "print({} < {})", Fail("stdin:1: attempt to compare two table values")),
        ("cmp-bool-err", "print(true < false)", Fail("stdin:1: attempt to compare two boolean values")),
        ("cmp-fn-err", "print(print <= {})", Fail("stdin:1: attempt to compare function with table")),
        ("eq-types", "print(1 == \"1\", \"1\" == 1, nil == false, 0 == false, {} == {}, \"a\" == \"a\", print == print)", Out("false\tfalse\tfalse\tfalse\tfalse\ttrue\ttrue\n")),
        ("and-or", "print(nil and 1, false and 1, 0 and 1, \"\" and 2, nil or 1, false or nil, 1 or 2, nil and nil, false or false)", Out("nil\tfalse\t1\t2\t1\tnil\t1\tnil\tfalse\n")),
        ("not", "print(not nil, not false, not 0, not \"\", not not nil)", Out("true\ttrue\tfalse\tfalse\tfalse\n")),
        ("short-circuit", "local function f() print('f') return true end local x = false and f() local y = true or f() print(x, y)", Out("false\ttrue\n")),
        ("and-or-prec", "print(1 or 2 and 3, (1 or 2) and 3, nil and 1 or 2, 1 and nil or 3)", Out("1\t3\t2\t3\n")),
        ("prec", "print(2 + 3 * 4, (2 + 3) * 4, 2 ^ 3 ^ 2, -2 ^ 2, 1 .. 2 .. 3, 2 * 3 % 4, 1 + 2 < 4, not 1 == 2)", Out("14\t20\t512.0\t-4.0\t123\t2\ttrue\tfalse\n")),
        ("concat-right-assoc", "local t = setmetatable({}, {__concat = function(a, b) return 'M' end}) print(\"a\" .. \"b\" .. t)", Out("aM\n")),
        ("cmp-chain-bits", "print(1 | 2 ~ 3 & 4, 1 << 2 + 1, 5 // 2 * 2)", Out("3\t8\t4\n")),
    ]);
}

#[test]
fn metatables() {
    run_cases(vec![
        ("index-fn", "local t = setmetatable({}, {__index = function(t, k) return k * 2 end}) print(t[21], rawget(t, 21))", Out("42\tnil\n")),
        ("index-chain", "local a = {x = 1} local b = setmetatable({y = 2}, {__index = a}) local c = setmetatable({}, {__index = b}) print(c.x, c.y, c.z)", Out("1\t2\tnil\n")),
        ("newindex-fn", "local log = {} local t = setmetatable({a = 1}, {__newindex = function(t, k, v) log[#log + 1] = k rawset(t, k, v) end}) t.a = 2 t.b = 3 t.b = 4 print(t.a, t.b, #log, log[1])", Out("2\t4\t1\tb\n")),
        ("newindex-table", "local store = {} local t = setmetatable({}, {__newindex = store}) t.x = 1 print(rawget(t, 'x'), store.x)", Out("nil\t1\n")),
        ("call", "local t = setmetatable({}, {__call = function(self, a, b) return a + b, self end}) local r, s = t(1, 2) print(r, s == t)", Out("3\ttrue\n")),
        ("call-nonfn", "local t = setmetatable({}, {__call = 1}) t()", Fail("stdin:1: attempt to call a table value (local 't')")),
        ("tostring-mm", "local t = setmetatable({}, {__tostring = function() return 'OBJ' end}) print(t, tostring(t)) print(\"x\" .. tostring(t))", Out("OBJ\tOBJ\nxOBJ\n")),
        ("tostring-bad", "local t = setmetatable({}, {__tostring = function() return {} end}) print(t)", FailHas("'__tostring' must return a string")),
        ("name-mm", "local t = setmetatable({}, {__name = 'MyType'}) print((tostring(t):gsub('0x%x+', 'PTR'))) print(pcall(function() return t + 1 end))", Out("MyType: PTR\nfalse\tstdin:1: attempt to perform arithmetic on a MyType value (upvalue 't')\n")),
        ("eq-mm", "local mt = {__eq = function(a, b) return a.v == b.v end} local a = setmetatable({v = 1}, mt) local b = setmetatable({v = 1}, mt) local c = setmetatable({v = 2}, mt) print(a == b, a == c, a ~= b, a ~= c, rawequal(a, b))", Out("true\tfalse\tfalse\ttrue\tfalse\n")),
        ("eq-only-tables", "local n = 0 local mt = {__eq = function() n = n + 1 return true end} local a = setmetatable({}, mt) print(a == 1, 1 == a, a == \"x\", a == nil, n)", Out("false\tfalse\tfalse\tfalse\t0\n")),
        ("eq-same-ref", "local n = 0 local a = setmetatable({}, {__eq = function() n = n + 1 return false end}) print(a == a, n)", Out("true\t0\n")),
        ("eq-second-operand", "local a = {} local b = setmetatable({}, {__eq = function() return 1 end}) print(a == b, b == a)", Out("true\ttrue\n")),
        ("eq-first-wins", "local a = setmetatable({}, {__eq = function() return true end}) local b = setmetatable({}, {__eq = function() return false end}) print(a == b, b == a)", Out("true\tfalse\n")),
        ("lt-mm", "local mt = {__lt = function(a, b) return a.v < b.v end} local a = setmetatable({v = 1}, mt) local b = setmetatable({v = 2}, mt) print(a < b, b < a, a > b, b > a)", Out("true\tfalse\tfalse\ttrue\n")),
        ("le-fallback", "local mt = {__lt = function(a, b) return a.v < b.v end} local a = setmetatable({v = 1}, mt) local b = setmetatable({v = 2}, mt) print(a <= b, b <= a, a >= b, a <= a)", Out("true\tfalse\tfalse\ttrue\n")),
        ("le-mm", "local mt = {__le = function(a, b) return 'yes' end} local a = setmetatable({}, mt) print(a <= a, a >= {})", Out("true\ttrue\n")),
        ("lt-mixed", "local mt = {__lt = function(a, b) return true end} local a = setmetatable({}, mt) print(a < 1, 1 < a, a > 1)", Out("true\ttrue\ttrue\n")),
        ("arith-order", "local log = {} local function mk(n) return setmetatable({n = n}, {__add = function(a, b) return n end}) end local a, b = mk('A'), mk('B') print(a + b, b + a, a + 1, 1 + a, 1 + b)", Out("A\tB\tA\tA\tB\n")),
        ("arith-all", "local mt = {} for _, n in ipairs{'add','sub','mul','div','mod','pow','idiv','band','bor','bxor','shl','shr','concat'} do mt['__' .. n] = function() return n end end mt.__unm = function() return 'unm' end mt.__bnot = function() return 'bnot' end mt.__len = function() return 'len' end local a = setmetatable({}, mt) print(a+1, a-1, a*1, a/1, a%1, a^1, a//1, a&1, a|1, a~1, a<<1, a>>1, a..1, -a, ~a, #a)", Out("add\tsub\tmul\tdiv\tmod\tpow\tidiv\tband\tbor\tbxor\tshl\tshr\tconcat\tunm\tbnot\tlen\n")),
        ("unm-args", "local a = setmetatable({}, {__unm = function(x, y) return rawequal(x, y) end}) print(-a)", Out("true\n")),
        ("len-mm", "local t = setmetatable({1, 2, 3}, {__len = function() return 42 end}) print(#t, rawlen(t))", Out("42\t3\n")),
        ("concat-mm-num", "local a = setmetatable({}, {__concat = function(x, y) return type(x) .. type(y) end}) print(a .. 1, 1 .. a, \"s\" .. a)", Out("tablenumber\tnumbertable\tstringtable\n")),
        ("getmetatable-field", "local t = setmetatable({}, {__metatable = 'locked'}) print(getmetatable(t)) print(pcall(setmetatable, t, {}))", Out("locked\nfalse\tcannot change a protected metatable\n")),
        ("string-mt", "print((\"x\"):len(), (\"abc\"):upper(), #getmetatable(\"\").__index == #string, getmetatable(\"\").__index == string)", Out("1\tABC\ttrue\ttrue\n")),
        ("string-index-num", "local s = 'abc' print(s.len, s[1], s.foo)", Out("function: builtin: string.len\tnil\tnil\n")),
        ("index-nil-err", "local t = {} print(t.a.b)", Fail("stdin:1: attempt to index a nil value (field 'a')")),
        ("index-global-err", "print(undefinedvar.x)", Fail("stdin:1: attempt to index a nil value (global 'undefinedvar')")),
        ("index-upval-err", "local u local function f() return u.x end f()", Fail("stdin:1: attempt to index a nil value (upvalue 'u')")),
        ("index-num-err", "local x = 5 print(x.y)", Fail("stdin:1: attempt to index a number value (local 'x')")),
        ("index-call-err", "local function f() end print(f().x)", Fail("stdin:1: attempt to index a nil value")),
        ("newindex-nil-err", "local t t.x = 1", Fail("stdin:1: attempt to index a nil value (local 't')")),
        ("index-key-err", "local t = {} t[nil] = 1", Fail("stdin:1: table index is nil")),
        ("index-nan-err", "local t = {} t[0/0] = 1", Fail("stdin:1: table index is NaN")),
        ("index-nil-read", "local t = {} print(t[nil], t[0/0])", Out("nil\tnil\n")),
        ("pairs-mm", "local t = setmetatable({}, {__pairs = function(t) return function(_, k) if not k then return 1, 'one' end end, t, nil end}) for k, v in pairs(t) do print(k, v) end", Out("1\tone\n")),
        ("index-rawget-first", "local t = setmetatable({x = 1}, {__index = function() return 'mm' end}) print(t.x, t.y)", Out("1\tmm\n")),
        ("setmetatable-ret", "local t = {} print(setmetatable(t, nil) == t, getmetatable(t))", Out("true\tnil\n")),
        ("setmetatable-bad", "setmetatable({}, 1)", Fail("stdin:1: bad argument #2 to 'setmetatable' (nil or table expected)")),
        ("setmetatable-bad1", "setmetatable(1, {})", Fail("stdin:1: bad argument #1 to 'setmetatable' (table expected, got number)")),
    ]);
}

#[test]
fn functions_and_closures() {
    run_cases(vec![
        ("closure-counter", "local function mk() local n = 0 return function() n = n + 1 return n end end local a, b = mk(), mk() print(a(), a(), b(), a())", Out("1\t2\t1\t3\n")),
        ("for-fresh-local", "local fs = {} for i = 1, 3 do fs[i] = function() return i end end print(fs[1](), fs[2](), fs[3]())", Out("1\t2\t3\n")),
        ("while-fresh-local", "local fs = {} local i = 1 while i <= 3 do local j = i fs[i] = function() j = j + 10 return j end i = i + 1 end print(fs[1](), fs[1](), fs[2](), fs[3]())", Out("11\t21\t12\t13\n")),
        ("genfor-fresh-local", "local fs = {} for k, v in ipairs{'a', 'b'} do fs[k] = function() return v end end print(fs[1](), fs[2]())", Out("a\tb\n")),
        ("shared-upvalue", "local function mk() local n = 0 local function inc() n = n + 1 end local function get() return n end return inc, get end local inc, get = mk() inc() inc() print(get())", Out("2\n")),
        ("upvalue-after-scope", "local get do local x = 5 get = function() return x end x = 6 end print(get())", Out("6\n")),
        ("goto-fresh-local", "local fs = {} local i = 0 ::top:: do local x = i fs[#fs + 1] = function() return x end end i = i + 1 if i < 3 then goto top end print(fs[1](), fs[2](), fs[3]())", Out("0\t1\t2\n")),
        ("repeat-scope", "local i = 0 repeat local done = i >= 2 i = i + 1 until done print(i)", Out("3\n")),
        ("recursion", "local function fact(n) if n <= 1 then return 1 end return n * fact(n - 1) end print(fact(10), fact(20), fact(21))", Out("3628800\t2432902008176640000\t-4249290049419214848\n")),
        ("global-function", "function f(a, b) return b, a end print(f(1, 2)) function t_f() end print(type(t_f))", Out("2\t1\nfunction\n")),
        ("method-def", "local obj = {n = 1} function obj:inc(d) self.n = self.n + d return self end function obj.static(x) return x end print(obj:inc(2):inc(3).n, obj.static(9))", Out("6\t9\n")),
        ("varargs", "local function f(...) return select('#', ...), ... end print(f()) print(f(nil, nil)) print((f(1, 2, 3)))", Out("0\n2\tnil\tnil\n3\n")),
        ("varargs-table", "local function f(...) local t = {...} return #t, t[2] end print(f(1, 2, 3)) local function g(...) local a, b = ... return a, b end print(g(1)) print(g(1, 2, 3))", Out("3\t2\n1\tnil\n1\t2\n")),
        ("varargs-middle", "local function f(...) return ... end print(f(1, 2), f(3, 4)) print(({f(1, 2), f(3, 4)})[3], #{f(1, 2), f(3, 4)})", Out("1\t3\t4\n4\t3\n")),
        ("select-neg", "print(select(-1, 1, 2, 3), select(-2, 1, 2, 3)) print(select(2, 'a')) print(pcall(select, 0))", Out("3\t2\t3\n\nfalse\tbad argument #1 to 'select' (index out of range)\n")),
        ("multi-ret-trunc", "local function f() return 1, 2, 3 end local a, b = f() print(a, b) local c, d, e, g = f() print(c, d, e, g) print(f(), 10) print(10, f()) print((f()))", Out("1\t2\n1\t2\t3\tnil\n1\t10\n10\t1\t2\t3\n1\n")),
        ("multi-assign-order", "local i = 1 local a = {} i, a[i] = i + 1, 20 print(i, a[1], a[2])", Out("2\t20\tnil\n")),
        ("multi-assign-swap", "local x, y = 1, 2 x, y = y, x print(x, y) local t = {1, 2} t[1], t[2] = t[2], t[1] print(t[1], t[2])", Out("2\t1\n2\t1\n")),
        ("multi-assign-rtl", "local log = {} local t = setmetatable({}, {__newindex = function(_, k, v) log[#log + 1] = k end}) t.a, t.b, t.c = 1, 2, 3 print(table.concat(log, ','))", Out("c,b,a\n")),
        ("multi-assign-same", "local a a, a = 1, 2 print(a)", Out("1\n")),
        ("multi-assign-eval-order", "local log = {} local function f(x) log[#log + 1] = x return x end local t = {} t[f('k1')], t[f('k2')] = f('v1'), f('v2') print(table.concat(log, ','))", Out("k1,k2,v1,v2\n")),
        ("multi-assign-extra", "local a, b, c = 1 print(a, b, c) local d, e = 1, 2, 3 print(d, e)", Out("1\tnil\tnil\n1\t2\n")),
        ("arg-eval-order", "local log = {} local function f(x) log[#log + 1] = x return x end print(f(1) + f(2) * f(3), table.concat(log))", Out("7\t123\n")),
        ("call-nil-global", "foo()", Fail("stdin:1: attempt to call a nil value (global 'foo')")),
        ("call-nil-local", "local x x()", Fail("stdin:1: attempt to call a nil value (local 'x')")),
        ("call-nil-field", "local t = {} t.bar()", Fail("stdin:1: attempt to call a nil value (field 'bar')")),
        ("call-nil-method", "local t = {} t:bar()", Fail("stdin:1: attempt to call a nil value (method 'bar')")),
        ("call-nil-upvalue", "local u local function f() u() end f()", Fail("stdin:1: attempt to call a nil value (upvalue 'u')")),
        ("call-nil-index", "local t = {} t[1]()", Fail("stdin:1: attempt to call a nil value (field '?')")),
        ("call-number", "local x = 5 x()", Fail("stdin:1: attempt to call a number value (local 'x')")),
        ("call-result", "local function f() end f()()", Fail("stdin:1: attempt to call a nil value")),
        ("unpack-nil", "unpack({1})", Fail("stdin:1: attempt to call a nil value (global 'unpack')")),
        ("arith-global", "print(V12 + 1)", Fail("stdin:1: attempt to perform arithmetic on a nil value (global 'V12')")),
        ("arith-field", "local t = {} print(t.x * 2)", Fail("stdin:1: attempt to perform arithmetic on a nil value (field 'x')")),
        ("arith-second", "local a, b = 1 print(a + b)", Fail("stdin:1: attempt to perform arithmetic on a nil value (local 'b')")),
        ("arith-table", "print({} + 1)", Fail("stdin:1: attempt to perform arithmetic on a table value")),
        ("arith-upvalue", "local u local function f() return u + 1 end f()", Fail("stdin:1: attempt to perform arithmetic on a nil value (upvalue 'u')")),
        ("concat-table", "print('a' .. {})", Fail("stdin:1: attempt to concatenate a table value")),
        ("concat-nil-local", "local x print('a' .. x)", Fail("stdin:1: attempt to concatenate a nil value (local 'x')")),
        ("concat-bool", "print(true .. 'a')", Fail("stdin:1: attempt to concatenate a boolean value")),
        ("len-nil", "local x print(#x)", Fail("stdin:1: attempt to get length of a nil value (local 'x')")),
        ("unm-nil", "local x print(-x)", Fail("stdin:1: attempt to perform arithmetic on a nil value (local 'x')")),
        ("error-line", "local x = 1\n\nlocal y = x + nil", Fail("stdin:3: attempt to perform arithmetic on a nil value")),
        ("error-line-multiline-call", "local t = {}\nprint(\n  t.x.y\n)", Fail("stdin:3: attempt to index a nil value (field 'x')")),
        ("tailcall-deep", "local function loop(n) if n == 0 then return 'done' end return loop(n - 1) end print(loop(10000))", Out("done\n")),
        ("deep-recursion-budget", "local function f(n) return 1 + f(n + 1) end f(1)", Budget("stack")),
        ("step-budget", "while true do end", Budget("steps")),
        ("string-call-syntax", "local function f(s) return s end print(f'abc', f\"d\", f[[e]], #f{1, 2})", Out("abc\td\te\t2\n")),
        ("paren-truncates", "local function f() return 1, 2 end local t = {(f())} print(#t) print((f()))", Out("1\n1\n")),
    ]);
}

#[test]
fn control_flow() {
    run_cases(vec![
        ("goto-continue", "local i = 0 local s = '' while true do ::L:: i = i + 1 if i > 5 then break end if i % 2 == 0 then goto L end s = s .. i end print(s)", Out("135\n")),
        ("goto-continue-end", "local s = '' for i = 1, 5 do if i % 2 == 0 then goto continue end s = s .. i ::continue:: end print(s)", Out("135\n")),
        ("goto-out-of-nested", "for i = 1, 3 do for j = 1, 3 do if i * j == 4 then goto done end end end ::done:: print('ok')", Out("ok\n")),
        ("goto-backward-loop", "local n = 0 ::again:: n = n + 1 if n < 5 then goto again end print(n)", Out("5\n")),
        ("numeric-for", "for i = 1, 3 do io.write(i, ' ') end for i = 3, 1, -1 do io.write(i, ' ') end for i = 1, 0 do io.write('never') end print()", Out("1 2 3 3 2 1 \n")),
        ("for-float-step", "for i = 1, 2, 0.5 do io.write(i, ' ') end print() for i = 1.0, 3 do io.write(i, ' ') end print()", Out("1.0 1.5 2.0 \n1.0 2.0 3.0 \n")),
        ("for-float-limit", "for i = 1, 3.5 do io.write(i, ' ') end print() for i = 3, 1.5, -1 do io.write(i, ' ') end print()", Out("1 2 3 \n3 2 \n")),
        ("for-var-copy", "for i = 1, 3 do local j = i i = i * 10 io.write(j, ':', i, ' ') end print()", Out("1:10 2:20 3:30 \n")),
        ("for-overflow-edge", "local n = 0 for i = math.maxinteger - 1, math.maxinteger do n = n + 1 if n > 3 then break end io.write(i, ' ') end print(n)", Out("9223372036854775806 9223372036854775807 -9223372036854775808 4\n")),
        ("for-huge-limit", "local n = 0 for i = 1, math.huge do n = n + 1 if n == 3 then break end end print(n) for i = 1, -math.huge do print('never') end", Out("3\n")),
        ("for-bad-init", "for i = 'a', 2 do end", Fail("stdin:1: 'for' initial value must be a number")),
        ("for-bad-limit", "for i = 1, {} do end", Fail("stdin:1: 'for' limit must be a number")),
        ("for-bad-step", "for i = 1, 2, nil do end", Fail("stdin:1: 'for' step must be a number")),
        ("for-string-limit", "for i = 1, '3' do io.write(i, ' ') end print()", Out("1 2 3 \n")),
        ("for-eval-once", "local n = 0 local function lim() n = n + 1 return 3 end for i = 1, lim() do end print(n)", Out("1\n")),
        ("while-break", "local i = 0 while true do i = i + 1 if i == 3 then break end end print(i)", Out("3\n")),
        ("repeat-until-local", "local i = 0 repeat local x = i i = i + 1 until x == 2 print(i)", Out("3\n")),
        ("nested-break", "for i = 1, 2 do for j = 1, 5 do if j == 2 then break end io.write(i, j, ' ') end end print()", Out("11 21 \n")),
        ("if-elseif", "for _, v in ipairs{1, 2, 3} do if v == 1 then io.write('one ') elseif v == 2 then io.write('two ') else io.write('many ') end end print()", Out("one two many \n")),
        ("ipairs-stops", "for i, v in ipairs{1, 2, nil, 4} do io.write(i, '=', v, ' ') end print()", Out("1=1 2=2 \n")),
        ("ipairs-index-mm", "local t = setmetatable({}, {__index = function(_, i) if i <= 3 then return i * 10 end end}) for i, v in ipairs(t) do io.write(v, ' ') end print()", Out("10 20 30 \n")),
        ("pairs-order", "local t = {10, 20, 30, x = 1, y = 2} t.z = 3 for k, v in pairs(t) do io.write(tostring(k), '=', v, ' ') end print()", Out("1=10 2=20 3=30 x=1 y=2 z=3 \n")),
        ("pairs-remove-during", "local t = {a = 1, b = 2, c = 3} for k in pairs(t) do t[k] = nil end print(next(t))", Out("nil\n")),
        ("pairs-after-removal", "local t = {a = 1, b = 2, c = 3} t.b = nil for k, v in pairs(t) do io.write(k, '=', v, ' ') end print()", Out("a=1 c=3 \n")),
        ("next", "local t = {5} print(next(t)) print(next(t, 1)) print(next({})) print(type(next))", Out("1\t5\nnil\nnil\nfunction\n")),
        ("next-invalid", "next({}, 'nokey')", Fail("invalid key to 'next'")),
        ("pairs-nil", "for k in pairs(nil) do end", Fail("stdin:1: bad argument #1 to 'for iterator' (table expected, got nil)")),
        ("for-in-nil", "for k in nil do end", Fail("stdin:1: attempt to call a nil value")),
        ("custom-iterator", "local function range(n) local i = 0 return function() i = i + 1 if i <= n then return i end end end local s = 0 for v in range(4) do s = s + v end print(s)", Out("10\n")),
        ("stateless-iterator", "local function iter(t, i) i = i + 1 if t[i] then return i, t[i] end end for i, v in iter, {7, 8}, 0 do io.write(i, v, ' ') end print()", Out("17 28 \n")),
        ("gmatch-words", "for w in string.gmatch('one two  three', '([^%s]+)') do io.write('[', w, ']') end print()", Out("[one][two][three]\n")),
    ]);
}

#[test]
fn tables_and_strings() {
    run_cases(vec![
        ("len-seq", "print(#{}, #{1, 2, 3}, #{n = 1}, #{1, 2, nil}, #{nil})", Out("0\t3\t0\t2\t0\n")),
        ("len-after-set", "local t = {} for i = 1, 10 do t[i] = i end print(#t) t[#t] = nil print(#t) t[#t + 1] = 'x' print(#t, t[10])", Out("10\n9\n10\tx\n")),
        ("len-hash-then-array", "local t = {} t[2] = 'b' t[1] = 'a' print(#t) t[3] = 'c' print(#t)", Out("2\n3\n")),
        ("insert-remove", "local t = {} table.insert(t, 'a') table.insert(t, 'c') table.insert(t, 2, 'b') table.insert(t, 1, 'z') print(table.concat(t, ',')) print(table.remove(t, 1), table.remove(t), table.concat(t, ','), #t)", Out("z,a,b,c\nz\tc\ta,b\t2\n")),
        ("remove-empty", "local t = {} print(table.remove(t), #t) print(table.remove({}, 0))", Out("nil\t0\nnil\n")),
        ("remove-shifts", "local t = {1, 2, 3, 4, 5} table.remove(t, 2) print(table.concat(t, ','), #t) table.remove(t, #t) print(table.concat(t, ','))", Out("1,3,4,5\t4\n1,3,4\n")),
        ("insert-oob", "table.insert({1, 2}, 5, 'x')", Fail("stdin:1: bad argument #2 to 'insert' (position out of bounds)")),
        ("insert-oob0", "table.insert({}, 0, 'x')", Fail("stdin:1: bad argument #2 to 'insert' (position out of bounds)")),
        ("insert-argc", "table.insert({}, 1, 2, 3)", Fail("stdin:1: wrong number of arguments to 'insert'")),
        ("insert-nontable", "table.insert(nil, 1)", Fail("stdin:1: bad argument #1 to 'insert' (table expected, got nil)")),
        ("insert-alias-name", "local push = table.insert push(nil, 1)", Fail("stdin:1: bad argument #1 to 'push' (table expected, got nil)")),
        ("remove-oob", "table.remove({1, 2, 3}, 7)", Fail("stdin:1: bad argument #1 to 'remove' (position out of bounds)")),
        ("remove-size-plus-1", "local t = {1, 2, 3} print(table.remove(t, 4), #t)", Out("nil\t3\n")),
        ("concat", "print(table.concat({}), table.concat({1, 2.5, 'x'}, '-'), table.concat({1, 2, 3}, ',', 2, 3), table.concat({1, 2}, ',', 3))", Out("\t1-2.5-x\t2,3\t\n")),
        ("concat-bad", "table.concat({1, {}, 3})", Fail("stdin:1: invalid value (at index 2) in table for 'concat'")),
        ("unpack", "print(table.unpack({1, 2, 3})) print(table.unpack({1, 2, 3}, 2)) print(table.unpack({1, 2, 3}, 2, 5)) print(table.unpack({}, 1, 0))", Out("1\t2\t3\n2\t3\n2\t3\tnil\tnil\n\n")),
        ("pack", "local t = table.pack(1, nil, 3) print(t.n, t[1], t[2], t[3]) print(table.pack().n)", Out("3\t1\tnil\t3\n0\n")),
        ("sort", "local t = {5, 2, 8, 1, 9, 3} table.sort(t) print(table.concat(t, ',')) table.sort(t, function(a, b) return a > b end) print(table.concat(t, ','))", Out("1,2,3,5,8,9\n9,8,5,3,2,1\n")),
        ("sort-strings", "local t = {'b', 'a', 'C', 'B'} table.sort(t) print(table.concat(t))", Out("BCab\n")),
        ("sort-mixed-err", "table.sort({1, 'a', 2})", FailHas("attempt to compare")),
        ("sort-bigger", "local t = {} for i = 1, 100 do t[i] = (i * 37) % 101 end table.sort(t) local ok = true for i = 2, 100 do if t[i - 1] > t[i] then ok = false end end print(ok, t[1], t[100])", Out("true\t1\t100\n")),
        ("sort-invalid-order", "local t = {} for i = 1, 50 do t[i] = i end print(pcall(table.sort, t, function(a, b) return true end))", Out("false\tinvalid order function for sorting\n")),
        ("constructor", "local t = {1, 2, x = 'a', [10] = 'b', ['k k'] = 'c', 3; 4} print(#t, t.x, t[10], t['k k'], t[4])", Out("4\ta\tb\tc\t4\n")),
        ("constructor-pos-wins", "local t = {[1] = 'x', 'y'} print(t[1]) local u = {'y', [1] = 'x'} print(u[1])", Out("y\ny\n")),
        ("constructor-multi", "local function f() return 1, 2, 3 end local t = {f(), f()} print(#t) local u = {f(), (f())} print(#u) local v = {f(), x = 1} print(#v)", Out("4\n2\n1\n")),
        ("constructor-nil-key", "local t = {[nil] = 1}", Fail("stdin:1: table index is nil")),
        ("float-keys", "local t = {} t[1.0] = 'a' t[2] = 'b' print(t[1], t[2.0], #t) t[1.5] = 'c' print(t[1.5]) t[2^53] = 'big' print(t[2^53], t[9007199254740992])", Out("a\tb\t2\nc\nbig\tbig\n")),
        ("float-key-next", "local t = {} t[3.0] = 'x' for k, v in pairs(t) do print(math.type(k), v) end", Out("integer\tx\n")),
        ("mixed-keys", "local t = {} t[true] = 1 t[print] = 2 local k = {} t[k] = 3 t['1'] = 4 t[1] = 5 print(t[true], t[print], t[k], t['1'], t[1])", Out("1\t2\t3\t4\t5\n")),
        ("rawops", "local t = setmetatable({}, {__index = function() return 'mm' end, __newindex = function() end}) rawset(t, 'a', 1) t.b = 2 print(rawget(t, 'a'), rawget(t, 'b'), t.b, rawlen({1, 2}), rawlen('abc'), rawequal(t, t))", Out("1\tnil\tmm\t2\t3\ttrue\n")),
        ("string-sub", "local s = 'hello' print(s:sub(1, 2), s:sub(-3), s:sub(2), s:sub(0), s:sub(10), s:sub(2, 100), s:sub(3, 2), s:sub(-100, 2))", Out("he\tllo\tello\thello\t\tello\t\the\n")),
        ("string-byte-char", "print(string.byte('A'), string.byte('abc', 2), string.byte('abc', 1, -1)) print(string.byte('', 1)) print(string.char(72, 105), string.char())", Out("65\t98\t97\t98\t99\n\nHi\t\n")),
        ("string-char-range", "string.char(256)", Fail("stdin:1: bad argument #1 to 'char' (value out of range)")),
        ("string-misc", "print(('abc'):upper(), ('ABC'):lower(), ('abc'):reverse(), ('ab'):rep(3), ('ab'):rep(3, '-'), ('x'):rep(0), ('x'):rep(-1), ('abc'):len())", Out("ABC\tabc\tcba\tababab\tab-ab-ab\t\t\t3\n")),
        ("string-find", "print(('hello world'):find('wor')) print(('hello'):find('l')) print(('hello'):find('xyz')) print(('hello'):find('')) print(('hello'):find('', 10)) print(('a.b'):find('.', 1, true)) print(('hello'):find('l', -2))", Out("7\t9\n3\t3\nnil\n1\t0\nnil\n2\t2\n4\t4\n")),
        ("string-find-captures", "print(('key = value'):find('(%w+)%s*=%s*(%w+)')) print(('abc'):find('b()'))", Out("1\t11\tkey\tvalue\n2\t2\t3\n")),
        ("string-match", "print(('2024-01-15'):match('(%d+)-(%d+)-(%d+)')) print(('hello'):match('l+')) print(('hello'):match('^h(.-)o$')) print(('  trim  '):match('^%s*(.-)%s*$') .. '|') print(('abc'):match('^b'))", Out("2024\t01\t15\nll\nell\ntrim|\nnil\n")),
        ("string-match-classes", "print(('a1 B2_c3'):match('%a%d'), ('x y'):match('%s'), ('abc123'):match('%d+'), ('abc'):match('%u'), ('aBc'):match('%u'), ('a,b'):match('%p'), ('0x1F'):match('%x+', 3), ('a\\1b'):match('%c') == '\\1')", Out("a1\t \t123\tnil\tB\t,\t1F\ttrue\n")),
        ("string-match-sets", "print(('hello123'):match('[a-z]+'), ('hello123'):match('[^a-z]+'), ('a-b'):match('[%-]'), ('a]b'):match('[]]'), ('x^y'):match('[%^]'), ('abc'):match('[%a]+'))", Out("hello\t123\t-\t]\t^\tabc\n")),
        ("string-match-quant", "print(('aaa'):match('a-'), ('aaa'):match('a-$'), ('aaab'):match('a*b'), ('b'):match('a*b'), ('b'):match('a+b'), ('ab'):match('a?b'), ('b'):match('a?b'))", Out("\taaa\taaab\tb\tnil\tab\tb\n")),
        ("string-match-balanced", "print(('f(a(b)c)d'):match('%b()'), ('THE (quick) fox'):find('%((%a+)%)'))", Out("(a(b)c)\t5\t11\tquick\n")),
        ("string-match-frontier", "print(('THE (quick) fox'):find('%f[%a]%a+', 2), ('hello world'):gsub('%f[%w]%w+', string.upper))", Out("6\tHELLO WORLD\t2\n")),
        ("string-match-backref", "print(('hello hello'):match('(%w+) %1'), ('\"quoted\"'):match('([\"\\'])(.-)%1'))", Out("hello\t\"\tquoted\n")),
        ("string-match-anchors", "print(('abc'):match('^abc$'), ('abc'):match('^ab$'), ('a$b'):match('a$b'), ('a^b'):match('a^b'))", Out("abc\tnil\ta$b\ta^b\n")),
        ("string-match-pos", "print(('hello'):match('()ll()'))", Out("3\t5\n")),
        ("string-gsub", "print(('hello world'):gsub('o', '0')) print(('hello'):gsub('', '-')) print(('abc'):gsub('%w', '%0%0')) print(('hello world'):gsub('(%w+) (%w+)', '%2 %1')) print(('abc'):gsub('b', '%%'))", Out("hell0 w0rld\t2\n-h-e-l-l-o-\t6\naabbcc\t3\nworld hello\t1\na%c\t1\n")),
        ("string-gsub-fn-table", "print(('a b c'):gsub('%w', {a = '1', b = false})) print(('abc'):gsub('%w', function(c) if c == 'b' then return nil end return c:upper() end)) print(('abc'):gsub('%w', 'x', 2))", Out("1 b c\t3\nAbC\t3\nxxc\t2\n")),
        ("string-gsub-anchor", "print(('aaa'):gsub('^a', 'b'))", Out("baa\t1\n")),
        ("string-gsub-bad-repl", "('abc'):gsub('b', '%2')", Fail("stdin:1: invalid capture index %2")),
        ("string-gsub-bad-pct", "('abc'):gsub('b', '%x')", Fail("stdin:1: invalid use of '%' in replacement string")),
        ("string-pattern-errors", "print(pcall(string.find, 'a', '[a')) print(pcall(string.find, 'a', '%')) print(pcall(string.find, 'a', '(a')) print(pcall(string.match, 'a', 'a)')) print(pcall(string.find, 'a', 'a)')) print(pcall(string.find, 'a', '%f'))", Out("false\tmalformed pattern (missing ']')\nfalse\tmalformed pattern (ends with '%')\nfalse\tunfinished capture\nfalse\tinvalid pattern capture\ntrue\tnil\nfalse\tmissing '[' after '%f' in pattern\n")),
        ("gmatch-pairs", "local t = {} for k, v in string.gmatch('a=1, b=2', '(%w+)=(%w+)') do t[#t + 1] = k .. v end print(table.concat(t, ' '))", Out("a1 b2\n")),
        ("gmatch-empty", "local n = 0 for w in string.gmatch('abc', '%a*') do n = n + 1 end print(n) local m = 0 for _ in string.gmatch('abc', '') do m = m + 1 end print(m)", Out("1\n4\n")),
        ("gmatch-type", "print(type(string.gmatch('a', 'a')))", Out("function\n")),
        ("escapes", "print('a\\tb', 'a\\\\b', \"q\\\"q\", 'q\\'q', '\\65\\066\\x43\\u{44}\\u{20AC}', 'x\\z   \n   y', 'line1\\\nline2', #'\\0')", Out("a\tb\ta\\b\tq\"q\tq'q\tABCD\u{20AC}\txy\tline1\nline2\t1\n")),
        ("long-strings", "print([[a\nb]], [==[x]]y]==], #[[\nskip]], [[\\n]])", Out("a\nb\tx]]y\t4\t\\n\n")),
        ("comments", "-- line comment\nprint(1) --[[ block\ncomment ]] print(2) --[==[ another\n]] still ]==] print(3)\n--[[ unterminated-looking ]]", Out("1\n2\n3\n")),
        ("tostring-table-fn", "print((tostring({}):gsub('0x%x+', 'P')), (tostring(function() end):gsub('0x%x+', 'P')), tostring(print))", Out("table: P\tfunction: P\tfunction: builtin: print\n")),
    ]);
}

#[test]
fn errors_and_pcall() {
    run_cases(vec![
        ("error-string", "error('boom')", Fail("stdin:1: boom")),
        ("error-level0", "error('boom', 0)", Fail("boom")),
        ("error-level2", "local function f() error('boom', 2) end\nf()", Fail("stdin:2: boom")),
        ("error-level2-pcall", "local function f() error('boom', 2) end\nprint(pcall(function()\n f()\nend))", Out("false\tstdin:3: boom\n")),
        ("error-table", "error({})", Fail("(error object is a table value)")),
        ("error-table-tostring", "error(setmetatable({}, {__tostring = function() return 'custom' end}))", Fail("custom")),
        ("error-nil", "error()", Fail("(error object is a nil value)")),
        ("error-number", "print(pcall(error, 42)) print(pcall(error, 42, 2))", Out("false\t42\nfalse\t42\n")),
        ("error-obj-passthrough", "local e = {code = 7} local ok, got = pcall(error, e) print(ok, got == e, got.code)", Out("false\ttrue\t7\n")),
        ("pcall-ok", "print(pcall(function(a, b) return a + b, 'x' end, 1, 2))", Out("true\t3\tx\n")),
        ("pcall-runtime", "print(pcall(function() local t t.x = 1 end))", Out("false\tstdin:1: attempt to index a nil value (local 't')\n")),
        ("pcall-line", "local function f()\n  local x = nil + 1\nend\nprint(pcall(f))", Out("false\tstdin:2: attempt to perform arithmetic on a nil value\n")),
        ("pcall-nonfunction", "print(pcall(5))", Out("false\tattempt to call a number value\n")),
        ("pcall-noargs", "pcall()", Fail("stdin:1: bad argument #1 to 'pcall' (value expected)")),
        ("pcall-nested", "print(pcall(pcall, error, 'x'))", Out("true\tfalse\tx\n")),
        ("pcall-continues", "local ok = pcall(error, 'x') print(ok) print('after')", Out("false\nafter\n")),
        ("pcall-restores-state", "local function deep(n) if n == 0 then error('bottom') end return 1 + deep(n - 1) end for i = 1, 50 do pcall(deep, 100) end print('ok')", Out("ok\n")),
        ("xpcall", "print(xpcall(function() error('E', 0) end, function(m) return 'handled ' .. m end)) print(xpcall(function(a) return a end, print, 5))", Out("false\thandled E\ntrue\t5\n")),
        ("assert-pass", "print(assert(1, 'm')) print(assert('v'))", Out("1\tm\nv\n")),
        ("assert-table-msg", "local e = {} local ok, got = pcall(assert, false, e) print(ok, got == e)", Out("false\ttrue\n")),
        ("assert-direct-pcall", "print(pcall(assert, false, 'X')) print(pcall(assert, nil)) print(pcall(assert))", Out("false\tX\nfalse\tassertion failed!\nfalse\tbad argument #1 to 'assert' (value expected)\n")),
        ("assert-in-lua-fn", "print(pcall(function() assert(false, 'msg') end)) print(pcall(function() assert(false) end))", Out("false\tstdin:1: msg\nfalse\tstdin:1: assertion failed!\n")),
        ("assert-toplevel", "assert(1 == 2, 'Assert failed!')", FailHas("Assert failed!")),
        ("error-in-metamethod", "local t = setmetatable({}, {__index = function(t, k) error('no field ' .. k) end})\nprint(pcall(function() return t.foo end))", Out("false\tstdin:1: no field foo\n")),
        ("builtin-arg-errors", "print(pcall(string.rep)) print(pcall(string.sub, 'x')) print(pcall(math.floor, 'a')) print(pcall(ipairs)) print(pcall(setmetatable, {}))", Out("false\tbad argument #1 to 'string.rep' (string expected, got no value)\nfalse\tbad argument #2 to 'string.sub' (number expected, got no value)\nfalse\tbad argument #1 to 'math.floor' (number expected, got string)\nfalse\tbad argument #1 to 'ipairs' (value expected)\nfalse\tbad argument #2 to 'setmetatable' (nil or table expected)\n")),
        ("builtin-arg-error-method", "local s = 'x' s:rep({})", Fail("stdin:1: bad argument #1 to 'rep' (number expected, got table)")),
        ("builtin-arg-error-self", "string.rep()", Fail("stdin:1: bad argument #1 to 'rep' (string expected, got no value)")),
        ("random-interval", "math.random(2, 1)", Fail("stdin:1: bad argument #2 to 'random' (interval is empty)")),
        ("random-range", "for i = 1, 50 do local r = math.random(3) assert(r >= 1 and r <= 3) local f = math.random() assert(f >= 0 and f < 1) local z = math.random(0, 0) assert(z == 0) end print('ok')", Out("ok\n")),
        ("require", "require 'foo'", FailHas("module 'foo' not found:")),
        ("misc-globals", "print(_VERSION, type(_G), _G._G == _G, _G.print == print, collectgarbage(), collectgarbage('count'), os.time(), type(os.clock()), math.pow == nil, unpack)", Out("Lua 5.3\ttable\ttrue\ttrue\t0\t0\t0\tnumber\tfalse\tnil\n")),
        ("global-assign-read", "x = 5 print(x, _G.x) _G.y = 6 print(y) x = nil print(x, rawget(_G, 'x'))", Out("5\t5\n6\nnil\tnil\n")),
        ("print-uses-global-tostring", "local old = tostring tostring = function(v) return '<' .. old(v) .. '>' end print(1, 'a') tostring = old", Out("<1>\t<a>\n")),
        ("io-write", "io.write('a', 1, 2.5, '\\n') io.stdout:write('b', '\\n') print(io.write('') == io.stdout)", Out("a12.5\nb\ntrue\n")),
        ("type-fn", "print(type(nil), type(1), type('s'), type({}), type(print), type(function() end), type(true)) print(pcall(type))", Out("nil\tnumber\tstring\ttable\tfunction\tfunction\tboolean\nfalse\tbad argument #1 to 'type' (value expected)\n")),
        ("env-local", "local function f() local _ENV = {y = 5} return y end print(f()) local _ENV = {print = print, x = 9} print(x)", Out("5\n9\n")),
        ("env-assign", "local g = _G local print = print _ENV = {} z = 1 print(z, g.z)", Out("1\tnil\n")),
        ("memory-budget", "local s = 'x' while true do s = s .. s end", Budget("memory")),
    ]);
}

#[test]
fn reference_manual_examples() {
    run_cases(vec![
        ("gsub-1", "print(string.gsub('hello world', '(%w+)', '%1 %1'))", Out("hello hello world world\t2\n")),
        ("gsub-2", "print(string.gsub('hello world', '%w+', '%0 %0', 1))", Out("hello hello world\t1\n")),
        ("gsub-3", "print(string.gsub('hello world from Lua', '(%w+)%s*(%w+)', '%2 %1'))", Out("world hello Lua from\t2\n")),
        ("gsub-4", "local t = {name = 'lua', version = '5.3'} print(string.gsub('$name-$version.tar.gz', '%$(%w+)', t))", Out("lua-5.3.tar.gz\t2\n")),
        ("gsub-5", "print(string.gsub('abc', '%w', '%%%0'))", Out("%a%b%c\t3\n")),
        ("find-1", "print(string.find('hello Lua user', 'Lua')) print(string.find('hello Lua user', 'banana')) print(('hello Lua user'):find('l+'))", Out("7\t9\nnil\n3\t4\n")),
        ("format-q", "print(string.format('%q', 'a string with \"quotes\" and \\n new line'))", Out("\"a string with \\\"quotes\\\" and \\\n new line\"\n")),
        ("gmatch-1", "for w in string.gmatch('hello world from Lua', '%a+') do io.write(w, '.') end print()", Out("hello.world.from.Lua.\n")),
        ("gmatch-2", "local t = {} for k, v in string.gmatch('from=world, to=Lua', '(%w+)=(%w+)') do t[k] = v end print(t.from, t.to)", Out("world\tLua\n")),
        ("match-1", "print(string.match('  hello', '^%s*(.*)'), string.match('hello', '(h)(e)(l)'))", Out("hello\th\te\tl\n")),
        ("idiv-zero-float", "print(3 // 0.0, -3 // 0.0, 0.0 / 0.0 ~= 0.0 / 0.0, 3 % -2, -3 % 2, 3.5 % -2)", Out("inf\t-inf\ttrue\t-1\t1\t-0.5\n")),
        ("int-conv", "print(3 | 0, 3.0 | 0, 2^53 | 0, '0x10' | 0, math.tointeger('3'), 7 // 1, 7.0 // 1)", Out("3\t3\t9007199254740992\t16\t3\t7\t7.0\n")),
        ("float-to-string-roundtrip", "print(255 // 1 | 0, 1e2, 1e2 | 0, 2^31, 2^31 | 0, 10 // 3 * 3 + 10 % 3)", Out("255\t100.0\t100\t2147483648.0\t2147483648\t10\n")),
        ("len-border", "local t = {10, 20, 30, nil, 50} print(#t == 5 or #t == 3) t = {} t[1] = 1 t[2] = 2 t[4] = 4 print(#t == 2 or #t == 4)", Out("true\ntrue\n")),
        ("goto-manual-continue", "for i = 1, 3 do for j = 1, 3 do if j == 2 then goto continue end io.write(i, j, ' ') ::continue:: end end print()", Out("11 13 21 23 31 33 \n")),
        ("closure-per-iteration-manual", "local a = {} for i = 1, 3 do local j = i a[i] = function() j = j + 1 return j end end print(a[1](), a[1](), a[2](), a[3]())", Out("2\t3\t3\t4\n")),
        ("vararg-select", "local function f(...) local a, b = select(2, ...) return a, b, select('#', ...) end print(f(1, 2, 3, 4)) print(f())", Out("2\t3\t4\nnil\tnil\t0\n")),
        ("table-move", "local t = table.move({1, 2, 3}, 1, 3, 2) print(table.concat(t, ',')) print(table.concat(table.move({1, 2, 3}, 2, 3, 1), ',')) print(#table.move({1, 2}, 1, 2, 1, {}))", Out("1,1,2,3\n2,3,3\n2\n")),
        ("pattern-budget", "print(string.match(string.rep('a', 3000), '(.-)(.-)(.-)(.-)(.-)x'))", Budget("steps")),
        ("integer-keys-normalised", "local t = {} t[2^53] = 1 t[1e15] = 2 for k in pairs(t) do io.write(math.type(k), ' ') end print()", Out("integer integer \n")),
        ("string-keys-vs-number-keys", "local t = {} t[1] = 'n' t['1'] = 's' print(t[1], t['1'], #t)", Out("n\ts\t1\n")),
        ("compat-mathlib", "print(math.pow(2, 10), math.atan2(1, 1) == math.atan(1, 1), math.log10(1000), math.ldexp(1, 4), math.frexp(8), math.cosh(0))", Out("1024.0\ttrue\t3.0\t16.0\t0.5\t1.0\n")),
    ]);
}

#[test]
fn without_compat_mathlib() {
    minilua::with_big_stack(|| {
        let chunk = load(b"print(math.pow, math.atan2, math.log10, math.cosh, math.ldexp, math.frexp, math.floor ~= nil)").unwrap();
        let r = minilua::run_with_options(&chunk, &Limits::default(), &minilua::RunOptions { compat_mathlib: false, ..Default::default() });
        assert_eq!(r.outcome, RunOutcome::Ok);
        assert_eq!(String::from_utf8_lossy(&r.stdout), "nil\tnil\tnil\tnil\tnil\tnil\ttrue\n");
    });
}

#[test]
fn assert_without_position_option() {
    minilua::with_big_stack(|| {
        let chunk = load(b"assert(false, 'Assert failed!')").unwrap();
        let r = minilua::run(&chunk, &Limits::default());
        assert_eq!(r.outcome, RunOutcome::Error { msg: "stdin:1: Assert failed!".to_string() });
        let o = minilua::RunOptions { assert_adds_position: false, ..Default::default() };
        let r = minilua::run_with_options(&chunk, &Limits::default(), &o);
        assert_eq!(r.outcome, RunOutcome::Error { msg: "Assert failed!".to_string() });
    });
}
