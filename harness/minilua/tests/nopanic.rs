//! Robustness: `load` + `run` must never panic, whatever the input (random bytes, random token soup, random
//! mutations of a realistic chunk).

use minilua::{load, run, Limits, RunOutcome};

struct Rng(u64);
impl Rng {
    fn next(&mut self) -> u64 {
        let mut x = self.0;
        x ^= x << 13;
        x ^= x >> 7;
        x ^= x << 17;
        self.0 = x;
        x
    }
    fn below(&mut self, n: usize) -> usize {
        (self.next() % n.max(1) as u64) as usize
    }
}

fn base_chunk() -> Vec<u8> {
    let mut src = std::fs::read("/repo/sylt-compiler/src/preamble.lua").unwrap_or_default();
    src.extend_from_slice(
        br#"
local function V0(V1, V2)
  local V3 = __ADD(V1, V2)
  if (V3 > 10) then
    return __TUPLE{ V3, "big" }
  else
  end
  return __LIST{ V3, 1.5, "x\n" }
end
local V10 = nil
V10 = 0
while true do
  ::L1::
  V10 = __ADD(V10, 1)
  if (V10 > 5) then
    break
  else
  end
  if (V10 == 2) then
    goto L1
  else
  end
  local V11 = V0(V10, 7)
  print(tostring(V11), #V11, __INDEX(V11, 0))
end
local V20 = __BLOB{ a = 1, b = __VARIANT{ "Just", 2 } }
print(tostring(V20), V20.a, V20 == V20)
for k, v in pairs(__DICT{ x = 1 }) do print(k, v) end
for w in string.gmatch("a b", "([^%s]+)") do print(w) end
print(string.format("%5.2f %d %s %q", 1.5, 3, "s", "q"), 7 // 2, 2 ^ 0.5, 1 .. 2)
assert((V10 == 6), "Assert failed!")
"#,
    );
    src
}

fn exercise(src: &[u8]) {
    let loaded = load(src);
    if let Err(e) = &loaded {
        assert_ne!(e.class, "internal", "internal loader error: {}\n--- source ---\n{}", e.msg, String::from_utf8_lossy(src));
    }
    if let Ok(chunk) = loaded {
        let r = run(&chunk, &Limits { max_steps: 20_000, max_call_depth: 60, max_heap_objects: 20_000, max_string_bytes: 1 << 20 });
        if let RunOutcome::Error { msg } = &r.outcome {
            assert!(!msg.starts_with("minilua internal"), "internal error: {}\n--- source ---\n{}", msg, String::from_utf8_lossy(src));
        }
        let _ = minilua::load_stats(&chunk);
        let _ = minilua::free_global_names(&chunk);
    }
}

#[test]
fn base_chunk_runs() {
    minilua::with_big_stack(|| {
        let src = base_chunk();
        let chunk = load(&src).expect("base chunk loads");
        let r = run(&chunk, &Limits::default());
        assert_eq!(r.outcome, RunOutcome::Ok, "stdout: {}", String::from_utf8_lossy(&r.stdout));
    });
}

#[test]
fn random_bytes() {
    minilua::with_big_stack(|| {
        let mut rng = Rng(0x1234_5678_9abc_def1);
        for _ in 0..3000 {
            let n = rng.below(200);
            let src: Vec<u8> = (0..n).map(|_| rng.next() as u8).collect();
            exercise(&src);
        }
        // printable soup
        let alphabet = b"abcxyz_019 \n\t()[]{}=<>~+-*/%^#.,;:'\"\\&|";
        for _ in 0..3000 {
            let n = rng.below(120);
            let src: Vec<u8> = (0..n).map(|_| alphabet[rng.below(alphabet.len())]).collect();
            exercise(&src);
        }
    });
}

#[test]
fn token_soup() {
    let toks: [&str; 70] = [
        "and", "break", "do", "else", "elseif", "end", "false", "for", "function", "goto", "if", "in", "local", "nil",
        "not", "or", "repeat", "return", "then", "true", "until", "while", "//", "..", "...", "==", ">=", "<=", "~=",
        "<<", ">>", "::", "+", "-", "*", "/", "%", "^", "#", "&", "~", "|", "<", ">", "=", "(", ")", "{", "}", "[",
        "]", ";", ":", ",", ".", "x", "y", "f", "t", "1", "2.5", "0x10", "\"s\"", "'c'", "[[l]]", "print", "pairs",
        "setmetatable", "L", "\n",
    ];
    minilua::with_big_stack(move || {
        let mut rng = Rng(0xfeed_beef_1234_4321);
        for _ in 0..6000 {
            let n = rng.below(40);
            let mut s = String::new();
            for _ in 0..n {
                s.push_str(toks[rng.below(toks.len())]);
                s.push(' ');
            }
            exercise(s.as_bytes());
        }
    });
}

#[test]
fn mutations_of_a_real_chunk() {
    minilua::with_big_stack(|| {
        let base = base_chunk();
        let mut rng = Rng(0x0bad_cafe_dead_beef);
        // mutate only the part after the preamble most of the time (the preamble is long)
        let tail_start = base.len().saturating_sub(1400);
        for i in 0..2500 {
            let mut src = base.clone();
            let nm = 1 + rng.below(4);
            for _ in 0..nm {
                let lo = if i % 4 == 0 { 0 } else { tail_start };
                let pos = lo + rng.below(src.len() - lo);
                match rng.below(5) {
                    0 => {
                        src[pos] = rng.next() as u8;
                    }
                    1 => {
                        src.remove(pos);
                    }
                    2 => {
                        let b = b" \n()=,\"'-0123456789endlocalfunction{}[]"[rng.below(38)];
                        src.insert(pos, b);
                    }
                    3 => {
                        // delete a span
                        let len = rng.below(30).min(src.len() - pos);
                        src.drain(pos..pos + len);
                    }
                    _ => {
                        // duplicate a span
                        let len = rng.below(40).min(src.len() - pos);
                        let span: Vec<u8> = src[pos..pos + len].to_vec();
                        let at = lo + rng.below(src.len() - lo);
                        for (k, b) in span.into_iter().enumerate() {
                            src.insert(at + k, b);
                        }
                    }
                }
            }
            exercise(&src);
        }
    });
}
