//! Loader fidelity: what `luaL_loadbuffer` of Lua 5.3 accepts / rejects, with classified errors.

use minilua::{load, load_stats, free_global_names};

fn accept(name: &str, src: &str) {
    let s = src.to_string();
    let n = name.to_string();
    minilua::with_big_stack(move || match load(s.as_bytes()) {
        Ok(_) => {}
        Err(e) => panic!("{}: expected accept, got [{}] {}", n, e.class, e.msg),
    });
}

fn reject(name: &str, src: &str, class: &str) -> String {
    let s = src.to_string();
    let n = name.to_string();
    let c = class.to_string();
    minilua::with_big_stack(move || match load(s.as_bytes()) {
        Ok(_) => panic!("{}: expected reject [{}], but it loaded", n, c),
        Err(e) => {
            assert_eq!(e.class, c, "{}: wrong class; message: {}", n, e.msg);
            e.msg
        }
    })
}

fn reject_msg(name: &str, src: &str, class: &str, msg: &str) {
    let m = reject(name, src, class);
    assert_eq!(m, msg, "{}: message mismatch", name);
}

fn locals(n: usize, prefix: &str) -> String {
    let mut s = String::new();
    for i in 0..n {
        s.push_str(&format!("local {}{} = {}\n", prefix, i, i));
    }
    s
}

#[test]
fn too_many_locals() {
    accept("200 locals", &locals(200, "a"));
    let m = reject("201 locals", &locals(201, "a"), "too-many-locals");
    assert_eq!(m, "stdin:201: too many local variables (limit is 200) in main function near '='");
    // in a nested function; error names the function's line
    accept("200 in function", &format!("local function f()\n{}end", locals(200, "a")));
    let m = reject("201 in function", &format!("local x\nlocal function f()\n{}end", locals(201, "a")), "too-many-locals");
    assert!(m.contains("in function at line 2"), "{}", m);
    // parameters count
    accept("199 + 1 param", &format!("local function f(p)\n{}end", locals(199, "a")));
    reject("200 + 1 param", &format!("local function f(p)\n{}end", locals(200, "a")), "too-many-locals");
    // only *active* locals count: locals of closed blocks do not
    accept("blocks", &format!("{}do\n{}end\ndo\n{}end\n{}", locals(100, "a"), locals(100, "b"), locals(100, "c"), locals(100, "d")));
    reject("blocks over", &format!("{}do\n{}end\n", locals(100, "a"), locals(101, "b")), "too-many-locals");
    // the enclosing function's locals do not count for the nested function
    accept("nested independent", &format!("{}local function f()\n{}end", locals(199, "a"), locals(200, "b")));
    // numeric for: 3 hidden + 1 visible
    accept("for-num 196+4", &format!("{}for i = 1, 2 do end", locals(196, "a")));
    reject("for-num 197+4", &format!("{}for i = 1, 2 do end", locals(197, "a")), "too-many-locals");
    // generic for: 3 hidden + 2 visible
    accept("for-in 195+5", &format!("{}for k, v in pairs({{}}) do end", locals(195, "a")));
    reject("for-in 196+5", &format!("{}for k, v in pairs({{}}) do end", locals(196, "a")), "too-many-locals");
    // for variables go out of scope
    accept("for then more", &format!("{}for i = 1, 2 do end\nlocal z1, z2, z3, z4 = 1", locals(196, "a")));
    // local function counts
    reject("local function over", &format!("{}local function f() end", locals(200, "a")), "too-many-locals");
    // a multiple declaration registers all names before activation
    reject("multi decl", &format!("{}local x, y, z = 1", locals(198, "a")), "too-many-locals");
    // repeat-until scope includes the condition
    accept("repeat", &format!("{}repeat local q = 1 until q", locals(199, "a")));
    let st = minilua::with_big_stack(|| load_stats(&load(locals(150, "a").as_bytes()).unwrap()));
    assert_eq!(st.max_active_locals, 150);
}

#[test]
fn too_many_upvalues() {
    // a function referencing N outer locals (declared across several enclosing functions to stay < 200 locals)
    fn src(n: usize, use_global: bool) -> String {
        let mut s = String::new();
        let half = n / 2;
        for i in 0..half {
            s.push_str(&format!("local a{} = {}\n", i, i));
        }
        s.push_str("local function outer()\n");
        for i in half..n {
            s.push_str(&format!("local a{} = {}\n", i, i));
        }
        s.push_str("return function()\nreturn ");
        if use_global {
            s.push_str("g + ");
        }
        for i in 0..n {
            s.push_str(&format!("a{}{}", i, if i + 1 < n { " + " } else { "\n" }));
        }
        s.push_str("end\nend\n");
        s
    }
    accept("255 upvalues", &src(255, false));
    let m = reject("256 upvalues", &src(256, false), "too-many-upvalues");
    assert!(m.contains("too many upvalues (limit is 255) in function at line"), "{}", m);
    // _ENV is an upvalue too: 254 locals + a global is fine, 255 + a global is not
    accept("254 + _ENV", &src(254, true));
    reject("255 + _ENV", &src(255, true), "too-many-upvalues");
    let st = minilua::with_big_stack(|| load_stats(&load(src(100, true).as_bytes()).unwrap()));
    assert_eq!(st.max_upvalues, 101);
}

#[test]
fn return_must_be_last() {
    reject("return return", "return 1 return 2", "return-not-last");
    reject_msg("return stat", "return 1 print(2)", "return-not-last", "stdin:1: <eof> expected near 'print'");
    accept("return ; end", "local function f() return; end");
    accept("return semicolon eof", "return 1;");
    accept("return in if", "local x = 1 if x then return 1 else return 2 end");
    accept("return before until", "repeat return until true");
    reject_msg("return in function", "local function f() return 1 local x = 2 end", "return-not-last", "stdin:1: 'end' expected near 'local'");
    reject("return then local", "return\nlocal x = 1", "return-not-last");
    reject("return ;;", "return 1;;", "return-not-last");
    accept("do return end stat", "do return end print(1)");
    reject("return in block then stat", "if true then return 1 print(2) end", "return-not-last");
    accept("return call continues", "local f return f\n(1)");
}

#[test]
fn reserved_names() {
    reject("field name = in constructor", "local t = { repeat = 1 }", "reserved-name");
    reject_msg("dot field", "local t = {} print(t.until)", "reserved-name", "stdin:1: <name> expected near 'until'");
    accept("bracket field", "local t = {} print(t[\"repeat\"]) t[\"end\"] = 1 local u = { [\"while\"] = 2 }");
    reject("assign dot field", "local t = {} t.end = 1", "reserved-name");
    reject("local name", "local end = 1", "reserved-name");
    reject("local function name", "local function while() end", "reserved-name");
    reject("function name", "function t.nil() end", "reserved-name");
    reject("method name", "local t = {} t:for()", "reserved-name");
    reject("parameter", "local function f(a, then) end", "reserved-name");
    reject("label", "::do::", "reserved-name");
    reject("goto", "goto else", "reserved-name");
    reject("for var", "for in = 1, 2 do end", "reserved-name");
    reject("for second var", "for k, not in pairs({}) do end", "reserved-name");
    accept("non reserved look-alikes", "local t = { Repeat = 1, continue = 2, self = 3, _end = 4 } print(t.Repeat, t.continue)");
    // a reserved word where an expression is expected is a plain syntax error
    reject("expr position", "local x = end", "syntax");
}

#[test]
fn assignment_targets_and_expression_statements() {
    reject_msg("false = false", "false = false", "assign-to-non-lvalue", "stdin:1: unexpected symbol near 'false'");
    reject_msg("call = ", "f() = 1", "assign-to-non-lvalue", "stdin:1: syntax error near '='");
    reject("paren = ", "(a) = 1", "assign-to-non-lvalue");
    reject("second target", "a, f() = 1, 2", "assign-to-non-lvalue");
    reject("number = ", "1 = 2", "assign-to-non-lvalue");
    reject("string = ", "\"x\" = 2", "assign-to-non-lvalue");
    reject("method call = ", "a:b() = 1", "assign-to-non-lvalue");
    reject_msg("x alone", "x", "syntax", "stdin:1: syntax error near <eof>");
    reject("(a + b)", "(a + b)", "syntax");
    reject("a.b alone", "a.b", "syntax");
    reject("literal alone", "false", "syntax");
    accept("call stat", "f()");
    accept("string method", "(\"x\"):len()");
    accept("call chain", "f()()() a.b.c:d(1)(2) f{1}\"s\"");
    accept("index assigns", "a.b = 1 a[1] = 2 a.b.c, d = 1, 2 f().x = 1 (f()).y = 2 (\"s\").z = 3");
    reject("paren call then paren", "(f)() = 1", "assign-to-non-lvalue");
    accept("semicolons", ";;; local x = 1; ; x = 2;");
    reject("and expr as stat", "local a, b a and b", "syntax");
}

#[test]
fn break_and_goto() {
    reject_msg("break outside", "break", "break-outside-loop", "stdin:1: <break> at line 1 not inside a loop");
    reject("break in if", "if true then break end", "break-outside-loop");
    reject("break in function in loop", "while true do local function f() break end end", "break-outside-loop");
    accept("break in loops", "while true do break end for i = 1, 2 do if i then break end end repeat break until true for k in pairs({}) do do break end end");
    let m = reject("break line", "local x = 1\nlocal function f()\n  if x then\n    break\n  end\nend\nprint(1)", "break-outside-loop");
    // reported when the function is closed, i.e. after `end` was consumed and the next token (line 7) was read
    assert_eq!(m, "stdin:7: <break> at line 4 not inside a loop");
    reject_msg("goto nowhere", "goto nope", "goto-no-label", "stdin:1: no visible label 'nope' for <goto> at line 1");
    accept("goto enclosing block label (backward)", "::top:: do do goto top end end");
    accept("goto enclosing block label (forward)", "do do goto out end end ::out::");
    accept("goto continue", "for i = 1, 3 do if i == 2 then goto continue end print(i) ::continue:: end");
    reject("goto into nested function label", "goto inner local function f() ::inner:: end", "goto-no-label");
    reject("goto from function to outer label", "::outer:: local function f() goto outer end", "goto-no-label");
    reject("goto into nested block", "goto inside do ::inside:: end", "goto-no-label");
    reject("goto sibling block", "do ::a:: end do goto a end", "goto-no-label");
    let m = reject("goto into local scope", "goto f\nlocal x = 1\n::f::\nprint(x)", "goto-into-local-scope");
    // reported after the label statement was read, i.e. with the lexer already at the next token (line 4)
    assert_eq!(m, "stdin:4: <goto f> at line 1 jumps into the scope of local 'x'");
    accept("label at end of block", "do goto f local x = 1 ::f:: end");
    accept("label at end of block + void stats", "do goto f local x = 1 ::f:: ; ; ::g:: end");
    accept("label at end of chunk", "goto f local x = 1 ::f::");
    reject("label before until", "repeat goto f local x = 1 ::f:: until x", "goto-into-local-scope");
    accept("backward goto past locals", "do ::top:: local x = 1 if x then goto top end end");
    reject("continue with local after label", "for i = 1, 2 do goto continue local x = 1 ::continue:: print(x) end", "goto-into-local-scope");
    accept("continue pattern emitted by sylt", "while true do\n  ::L1::\n  local a = 1\n  if a then\n    goto L1\n  else\n  end\n  local b = 2\nend");
    accept("nested goto out of loops", "for i = 1, 2 do for j = 1, 2 do goto done end end ::done::");
    accept("goto then-branch special form", "local x if x then goto l end ::l::");
    reject("then-branch goto into scope", "local x if x then goto l end local y ::l:: print(y)", "goto-into-local-scope");
}

#[test]
fn duplicate_labels() {
    let m = reject("same block", "::a:: ::a::", "duplicate-label");
    assert_eq!(m, "stdin:1: label 'a' already defined on line 1");
    reject("same block later", "::a::\nlocal x\n::a::", "duplicate-label");
    // Lua 5.3 (unlike 5.4) only checks the labels of the *current block*
    accept("nested block may repeat (5.3)", "::a:: do ::a:: end");
    accept("sibling blocks", "do ::a:: end do ::a:: end");
    accept("different functions", "::a:: local function f() ::a:: end");
    accept("loop bodies", "for i = 1, 2 do ::c:: end for i = 1, 2 do ::c:: end");
}

#[test]
fn strings_and_escapes() {
    reject_msg("raw newline", "local s = \"abc\ndef\"", "unfinished-string", "stdin:1: unfinished string near '\"abc'");
    reject("raw CR", "local s = 'abc\rdef'", "unfinished-string");
    reject_msg("eof in string", "local s = \"abc", "unfinished-string", "stdin:1: unfinished string near <eof>");
    reject("backslash quote then eof", "local s = \"abc\\\"", "unfinished-string");
    reject("backslash then eof", "local s = \"abc\\", "unfinished-string");
    reject_msg("bad escape", "local s = \"\\q\"", "bad-escape", "stdin:1: invalid escape sequence near '\"\\q'");
    accept("all escapes", "local s = \"\\065\\x41\\u{48}\\z   x\\a\\b\\f\\n\\r\\t\\v\\\\\\\"\\'\\\n\"");
    reject_msg("decimal too large", "local s = \"\\256\"", "bad-escape", "stdin:1: decimal escape too large near '\"\\256\"'");
    accept("decimal 255", "local s = \"\\255\\0\\00\\000\\0001\"");
    reject_msg("bad hex", "local s = \"\\xZZ\"", "bad-escape", "stdin:1: hexadecimal digit expected near '\"\\xZ'");
    reject("short hex", "local s = \"\\x4\"", "bad-escape");
    reject_msg("u missing brace", "local s = \"\\u0041\"", "bad-escape", "stdin:1: missing '{' near '\"\\u0'");
    reject("u missing close", "local s = \"\\u{41\"", "bad-escape");
    reject("u empty", "local s = \"\\u{}\"", "bad-escape");
    reject_msg("u too large", "local s = \"\\u{110000}\"", "bad-escape", "stdin:1: UTF-8 value too large near '\"\\u{110000'");
    accept("u max", "local s = \"\\u{10FFFF}\\u{0}\\u{7FF}\\u{FFFF}\"");
    accept("escaped newline", "local s = \"line1\\\nline2\"");
    accept("z skips newlines", "local s = \"a\\z\n\n   b\"");
    accept("long strings", "local s = [[a\nb]] local t = [==[ ]] ]=] ]==]");
    reject("unfinished long string", "local s = [[abc", "unfinished-string");
    reject("invalid long delimiter", "local s = [=abc", "syntax");
    reject("unfinished long comment", "--[[ abc", "syntax");
    accept("comment at eof", "local x = 1 -- trailing");
    accept("quotes in quotes", "local a, b = \"it's\", 'say \"hi\"'");
    // line numbers after multi-line strings
    let m = reject("line after long string", "local s = [[\n\n\n]]\nlocal = 1", "syntax");
    assert!(m.starts_with("stdin:5:"), "{}", m);
}

#[test]
fn numerals() {
    accept("numerals", "local a = {3, 345, 0xff, 0xBEBADA, 3.0, 3.1416, 314.16e-2, 0.31416E1, 34e1, 0x0.1E, 0xA23p-4, 0X1.921FB54442D18P+1, .5, 5., 0x.1, 1e+10, 1E-10}");
    reject_msg("malformed exp", "local x = 1e", "malformed-number", "stdin:1: malformed number near '1e'");
    reject("malformed hex", "local x = 0x", "malformed-number");
    reject("two dots", "local x = 1..2", "malformed-number");
    reject("letters", "local x = 12abc", "malformed-number");
    reject("hex letters", "local x = 0xfg", "syntax"); // '0xf' then name 'g'
    reject("double exponent", "local x = 1e5e5", "malformed-number");
    accept("concat needs space", "local x = 1 .. 2");
    accept("huge literals", "local x = 1e999 local y = 99999999999999999999 local z = 0xffffffffffffffffff");
    accept("minus numbers", "local x = -1 local y = - - 2 local z = -0x10 local w = -1e5");
}

#[test]
fn generic_syntax_errors() {
    reject_msg("missing end", "if true then", "syntax", "stdin:1: 'end' expected near <eof>");
    reject_msg("missing end multi-line", "if true then\nlocal x = 1\n", "syntax", "stdin:3: 'end' expected (to close 'if' at line 1) near <eof>");
    reject_msg("missing then", "if true print(1) end", "syntax", "stdin:1: 'then' expected near 'print'");
    reject_msg("unexpected symbol", "local x = )", "syntax", "stdin:1: unexpected symbol near ')'");
    reject_msg("extra end", "end", "syntax", "stdin:1: <eof> expected near 'end'");
    reject("missing =", "local t = {} t.x 1", "syntax");
    reject("unclosed paren", "print((1 + 2)", "syntax");
    reject("unclosed brace", "local t = {1, 2", "syntax");
    reject("bad for", "for i do end", "syntax");
    reject("for missing do", "for i = 1, 2 print(i) end", "syntax");
    reject("missing until", "repeat local x = 1", "syntax");
    reject("function args", "local function f(a,) end", "syntax");
    reject("vararg outside", "local function f() return ... end", "syntax");
    accept("vararg main", "print(...) local function g(...) return ... end");
    reject("vararg after vararg", "local function f(..., a) end", "syntax");
    reject("stray char", "local x = 1 @", "syntax");
    reject("operator missing operand", "local x = 1 +", "syntax");
    reject("double operator", "local x = 1 * / 2", "syntax");
    accept("unary chains", "local x = - - not not # {} local y = ~ ~ 1 local z = -x ^ -2");
    accept("all statements", "local a <const_is_not_53> = 1".replace(" <const_is_not_53>", "").as_str());
    reject("attribs are 5.4", "local a <const> = 1", "syntax");
    reject("integer division assign", "local a = 1 a //= 2", "syntax");
    accept("method and field defs", "local t = {} function t.a.b.c:d() end function t:m(...) return self, ... end");
    reject("method then dot", "function t:a.b() end", "syntax");
    accept("empty chunk", "");
    accept("only comments", "-- hi\n--[[ there ]]");
    accept("shebang is not skipped by loadbuffer but '#' starts a syntax error", "local x = #'abc'");
    reject("shebang", "#!/usr/bin/lua\nprint(1)", "syntax");
    accept("eq chain", "local x = 1 == 2 == false ~= true");
    accept("table constructor separators", "local t = {1, 2; 3, a = 1; [2] = 3, f(), ...; }");
    reject("constructor double sep", "local t = {1,,2}", "syntax");
    accept("nested functions", "local f = function() return function(a) return function(...) return a, ... end end end");
    accept("if chain", "local x if x then elseif x then elseif x then else end");
    reject("else after else", "if x then else else end", "syntax");
    reject("elseif after else", "if x then else elseif y then end", "syntax");
    accept("bitops", "local x = 1 & 2 | 3 ~ 4 << 5 >> 6 // 7 local y = ~x");
    reject("ne wrong", "local x = 1 != 2", "syntax");
    accept("line endings", "local a = 1\r\nlocal b = 2\rlocal c = 3\n\rlocal d = 4");
}

fn nest(open: &str, close: &str, n: usize, core: &str) -> String {
    let mut s = String::new();
    for _ in 0..n {
        s.push_str(open);
    }
    s.push_str(core);
    for _ in 0..n {
        s.push_str(close);
    }
    s
}

#[test]
fn c_levels() {
    // parentheses: one level per '(' plus the statement and the first subexpr
    accept("parens 190", &format!("local x = {}", nest("(", ")", 190, "1")));
    let m = reject("parens 220", &format!("local x = {}", nest("(", ")", 220, "1")), "c-levels");
    assert!(m.contains("too many C levels (limit is 200) in main function near '('"), "{}", m);
    // exact boundary for parentheses: nCcalls = 1 (lua.c) + 1 (statement) + 1 (subexpr) + n
    accept("parens 197", &format!("local x = {}", nest("(", ")", 197, "1")));
    reject("parens 198", &format!("local x = {}", nest("(", ")", 198, "1")), "c-levels");
    // nested blocks: one level per statement
    accept("do-blocks 190", &nest("do ", " end", 190, "local x = 1"));
    reject("do-blocks 220", &nest("do ", " end", 220, "local x = 1"), "c-levels");
    // 1 (lua.c) + n + 1 (inner statement) + 1 (its expression)
    accept("do-blocks 197", &nest("do ", " end", 197, "local x = 1"));
    reject("do-blocks 198", &nest("do ", " end", 198, "local x = 1"), "c-levels");
    accept("if-blocks 190", &nest("if x then ", " end", 190, "y = 1"));
    reject("if-blocks 220", &nest("if x then ", " end", 220, "y = 1"), "c-levels");
    accept("while-blocks 190", &nest("while x do ", " end", 190, "y = 1"));
    reject("while-blocks 220", &nest("while x do ", " end", 220, "y = 1"), "c-levels");
    // nested table constructors: one level per '{'
    accept("tables 190", &format!("local x = {}", nest("{", "}", 190, "")));
    reject("tables 220", &format!("local x = {}", nest("{", "}", 220, "")), "c-levels");
    // nested functions: two levels per function (subexpr + statement)
    accept("functions 95", &format!("local f = {}", nest("function() return ", " end", 95, "1")));
    reject("functions 110", &format!("local f = {}", nest("function() return ", " end", 110, "1")), "c-levels");
    // right-associative chains nest
    let chain = |op: &str, n: usize| -> String {
        let mut s = String::from("local x = a");
        for _ in 0..n {
            s.push_str(op);
            s.push('a');
        }
        s
    };
    accept("concat chain 190", &chain(" .. ", 190));
    reject("concat chain 220", &chain(" .. ", 220), "c-levels");
    accept("pow chain 190", &chain(" ^ ", 190));
    reject("pow chain 220", &chain(" ^ ", 220), "c-levels");
    // left-associative chains do not nest
    accept("add chain 1000", &chain(" + ", 1000));
    accept("and chain 1000", &chain(" and ", 1000));
    accept("eq chain 1000", &chain(" == ", 1000));
    // unary chains nest
    accept("unary 190", &format!("local x = {}1", "- ".repeat(190)));
    reject("unary 220", &format!("local x = {}1", "- ".repeat(220)), "c-levels");
    accept("not 190", &format!("local x = {}1", "not ".repeat(190)));
    reject("not 220", &format!("local x = {}1", "not ".repeat(220)), "c-levels");
    // multiple assignment targets count against the limit as well
    let targets = |n: usize| -> String {
        let mut s = String::new();
        for i in 0..n {
            s.push_str(&format!("a{}{}", i, if i + 1 < n { ", " } else { " = 1" }));
        }
        s
    };
    accept("targets 150", &targets(150));
    reject("targets 220", &targets(220), "c-levels");
    let st = minilua::with_big_stack(move || load_stats(&load(format!("local x = {}", nest("(", ")", 100, "1")).as_bytes()).unwrap()));
    assert_eq!(st.max_c_levels, 103);
}

#[test]
fn registers() {
    // a call with many constant arguments needs one register per argument
    let call = |n: usize| -> String {
        let mut s = String::from("f(");
        for i in 0..n {
            s.push_str(&format!("{}{}", i, if i + 1 < n { ", " } else { ")" }));
        }
        s
    };
    accept("call 200 args", &call(200));
    accept("call 240 args", &call(240));
    reject("call 300 args", &call(300), "too-many-registers");
    let st = minilua::with_big_stack(move || load_stats(&load(call(100).as_bytes()).unwrap()));
    assert_eq!(st.max_register_estimate, 101); // function + 100 arguments
    // locals + call arguments
    let src = format!("{}{}", locals(190, "a"), call(80));
    reject("190 locals + 80 args", &src, "too-many-registers");
    let src = format!("{}{}", locals(190, "a"), call(30));
    accept("190 locals + 30 args", &src);
    let st = minilua::with_big_stack(move || load_stats(&load(src.as_bytes()).unwrap()));
    assert_eq!(st.max_register_estimate, 221);
    // table constructors flush every 50 items, so long lists are cheap
    let mut t = String::from("local t = {");
    for i in 0..1000 {
        t.push_str(&format!("{},", i));
    }
    t.push('}');
    accept("constructor 1000 items", &t);
    let st = minilua::with_big_stack(move || load_stats(&load(t.as_bytes()).unwrap()));
    assert!(st.max_register_estimate <= 52, "{}", st.max_register_estimate);
    // right-nested concatenations keep all operands in registers
    let mut c = String::from("local s = a");
    for _ in 0..150 {
        c.push_str(" .. a");
    }
    accept("concat 150", &c);
    let st = minilua::with_big_stack(move || load_stats(&load(c.as_bytes()).unwrap()));
    assert!(st.max_register_estimate >= 150 && st.max_register_estimate <= 153, "{}", st.max_register_estimate);
    // simple statements use few registers
    let st = minilua::with_big_stack(|| load_stats(&load(b"local a = 1 local b = a + 2 print(a, b)").unwrap()));
    assert_eq!(st.max_register_estimate, 5);
    assert_eq!(st.functions, 1);
}

#[test]
fn free_names() {
    let names = minilua::with_big_stack(|| {
        let c = load(b"local l = 1 x = 1 print(y) local function f() z = 2 w = w + l return l end function g() end t.a = 1").unwrap();
        free_global_names(&c)
    });
    let get = |n: &str| names.iter().find(|(name, _, _)| name == n).cloned();
    assert_eq!(get("x"), Some(("x".to_string(), true, false)));
    assert_eq!(get("print"), Some(("print".to_string(), false, false)));
    assert_eq!(get("y"), Some(("y".to_string(), false, false)));
    assert_eq!(get("z"), Some(("z".to_string(), true, true)));
    assert_eq!(get("w"), Some(("w".to_string(), true, true)));
    assert_eq!(get("g"), Some(("g".to_string(), true, false)));
    assert_eq!(get("t"), Some(("t".to_string(), false, false)));
    assert_eq!(get("l"), None);
    assert_eq!(get("f"), None);
}

#[test]
fn chunk_is_send_sync_and_reusable() {
    fn assert_send_sync<T: Send + Sync>() {}
    assert_send_sync::<minilua::Chunk>();
    let chunk = std::sync::Arc::new(load(b"local s = 0 for i = 1, 100 do s = s + i end print(s)").unwrap());
    let mut hs = Vec::new();
    for _ in 0..8 {
        let c = chunk.clone();
        hs.push(std::thread::spawn(move || {
            for _ in 0..50 {
                let r = minilua::run(&c, &minilua::Limits::default());
                assert_eq!(r.outcome, minilua::RunOutcome::Ok);
                assert_eq!(r.stdout, b"5050\n");
            }
        }));
    }
    for h in hs {
        h.join().unwrap();
    }
}
