//! Corpus validation: compile every test program under /repo/tests with the sylt compiler, then load and
//! run the emitted Lua with minilua and compare with the expectation encoded in the `// error:` lines.
//!
//!   cargo run --release --offline -p minilua --example corpus [-- --verbose] [-- --time]
use std::path::{Path, PathBuf};
use std::process::Command;

fn collect(dir: &Path, out: &mut Vec<PathBuf>) {
    let mut entries: Vec<_> = match std::fs::read_dir(dir) {
        Ok(rd) => rd.filter_map(|e| e.ok()).map(|e| e.path()).collect(),
        Err(_) => return,
    };
    entries.sort();
    for p in entries {
        let name = p.file_name().unwrap().to_string_lossy().to_string();
        if name.starts_with('_') {
            continue; // helper modules (the upstream test runner skips them too)
        }
        if p.is_dir() {
            collect(&p, out);
        } else if name.ends_with(".sy") {
            out.push(p);
        }
    }
}

#[derive(PartialEq, Debug, Clone, Copy)]
enum Expect {
    Ok,
    RuntimeError,
    CompileError,
}

fn expectation(src: &str) -> Expect {
    let mut any = false;
    let mut all_runtime = true;
    for line in src.split('\n') {
        if let Some(rest) = line.strip_prefix("// error:") {
            any = true;
            let r = rest.trim();
            if !(r.starts_with('#') || r == "Runtime") {
                all_runtime = false;
            }
        }
    }
    if !any {
        Expect::Ok
    } else if all_runtime {
        Expect::RuntimeError
    } else {
        Expect::CompileError
    }
}

fn main() {
    // the evaluator recurses on the native stack: do everything on one big-stack thread
    let code = minilua::with_big_stack(real_main);
    std::process::exit(code);
}

fn real_main() -> i32 {
    let args: Vec<String> = std::env::args().collect();
    let verbose = args.iter().any(|a| a == "--verbose");
    let timing = args.iter().any(|a| a == "--time");
    let root = std::env::var("SYLT_TESTS").unwrap_or_else(|_| "/repo/tests".to_string());
    let sylt = std::env::var("SYLT_BIN").unwrap_or_else(|_| "/repo/target/release/sylt".to_string());
    if !Path::new(&sylt).exists() {
        eprintln!("compiler binary {} not found: build it with `cd /repo && cargo build --release --offline -p sylt`", sylt);
        return 2;
    }
    let mut files = Vec::new();
    collect(Path::new(&root), &mut files);
    let tmpdir = std::env::temp_dir().join(format!("minilua-corpus-{}", std::process::id()));
    std::fs::create_dir_all(&tmpdir).unwrap();
    let (mut n_ok, mut n_rt, mut n_skipped, mut n_dev) = (0, 0, 0, 0);
    let mut deviations: Vec<String> = Vec::new();
    let mut load_ns: u128 = 0;
    let mut run_ns: u128 = 0;
    let mut loads: Vec<u128> = Vec::new();
    let mut runs: Vec<u128> = Vec::new();
    let mut timed = 0u128;
    let mut bytes = 0usize;
    for f in files.iter() {
        let src = std::fs::read_to_string(f).unwrap_or_default();
        let exp = expectation(&src);
        if exp == Expect::CompileError {
            n_skipped += 1;
            continue;
        }
        let out = tmpdir.join("out.lua");
        let _ = std::fs::remove_file(&out);
        let res = Command::new(&sylt).arg("-o").arg(&out).arg(f).output();
        let compiled = match res {
            Ok(o) => o.status.success() && out.exists(),
            Err(_) => false,
        };
        if !compiled {
            n_dev += 1;
            deviations.push(format!("{}: expected {:?} but the compiler rejected it", f.display(), exp));
            continue;
        }
        let lua = std::fs::read(&out).unwrap();
        bytes += lua.len();
        let t0 = std::time::Instant::now();
        let chunk = match minilua::load(&lua) {
            Ok(c) => c,
            Err(e) => {
                n_dev += 1;
                deviations.push(format!("{}: expected {:?}, got LOAD ERROR [{}] {}", f.display(), exp, e.class, e.msg));
                continue;
            }
        };
        let t1 = std::time::Instant::now();
        let r = minilua::run(&chunk, &minilua::Limits { max_steps: 50_000_000, ..Default::default() });
        let t2 = std::time::Instant::now();
        load_ns += (t1 - t0).as_nanos();
        run_ns += (t2 - t1).as_nanos();
        loads.push((t1 - t0).as_nanos());
        runs.push((t2 - t1).as_nanos());
        timed += 1;
        let detail = format!(
            "{:?} steps={} stdout={:?}",
            r.outcome,
            r.steps,
            String::from_utf8_lossy(&r.stdout).chars().take(300).collect::<String>()
        );
        let good = matches!(
            (&exp, &r.outcome),
            (Expect::Ok, minilua::RunOutcome::Ok) | (Expect::RuntimeError, minilua::RunOutcome::Error { .. })
        );
        if good {
            if exp == Expect::Ok {
                n_ok += 1;
            } else {
                n_rt += 1;
            }
            if verbose {
                println!("ok   {} ({:?}) {}", f.display(), exp, detail);
            }
        } else {
            n_dev += 1;
            deviations.push(format!("{}: expected {:?}, got {}", f.display(), exp, detail));
        }
    }
    let _ = std::fs::remove_dir_all(&tmpdir);
    println!(
        "corpus: {} files, {} ok-as-expected, {} runtime-error-as-expected, {} skipped (compile error expected), {} deviations",
        files.len(),
        n_ok,
        n_rt,
        n_skipped,
        n_dev
    );
    if timing && timed > 0 {
        println!(
            "mean chunk {} bytes: mean load {:.1} us, mean run {:.1} us over {} chunks",
            bytes / timed as usize,
            load_ns as f64 / timed as f64 / 1000.0,
            run_ns as f64 / timed as f64 / 1000.0,
            timed
        );
        loads.sort();
        runs.sort();
        println!(
            "median load {:.1} us, median run {:.1} us (the mean run time is dominated by tests/bench/*)",
            loads[loads.len() / 2] as f64 / 1000.0,
            runs[runs.len() / 2] as f64 / 1000.0
        );
    }
    for d in deviations.iter() {
        println!("DEVIATION {}", d);
    }
    if n_dev > 0 {
        1
    } else {
        0
    }
}
