//! Timing: `cargo run --release --offline -p minilua --example bench -- file.lua [iterations]`
fn main() {
    let args: Vec<String> = std::env::args().collect();
    let src = std::fs::read(&args[1]).expect("read");
    let iters: usize = args.get(2).and_then(|s| s.parse().ok()).unwrap_or(1000);
    minilua::with_big_stack(move || {
        let t0 = std::time::Instant::now();
        let mut chunk = None;
        for _ in 0..iters {
            chunk = Some(minilua::load(&src).expect("load"));
        }
        let t1 = std::time::Instant::now();
        let chunk = chunk.unwrap();
        let mut steps = 0;
        let mut outcome = minilua::RunOutcome::Ok;
        for _ in 0..iters {
            let r = minilua::run(&chunk, &minilua::Limits::default());
            steps = r.steps;
            outcome = r.outcome;
        }
        let t2 = std::time::Instant::now();
        println!(
            "{} bytes, {} lines: load {:.1} us, run {:.1} us ({} steps, {:?})",
            src.len(),
            src.iter().filter(|&&b| b == b'\n').count(),
            (t1 - t0).as_secs_f64() * 1e6 / iters as f64,
            (t2 - t1).as_secs_f64() * 1e6 / iters as f64,
            steps,
            outcome
        );
    });
}
