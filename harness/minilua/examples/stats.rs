//! Print load statistics and free global names of a Lua file:
//!   cargo run --release --offline -p minilua --example stats -- file.lua
fn main() {
    let path = std::env::args().nth(1).expect("usage: stats file.lua");
    let src = std::fs::read(&path).expect("read");
    minilua::with_big_stack(move || match minilua::load(&src) {
        Ok(c) => {
            println!("{:?}", minilua::load_stats(&c));
            let names = minilua::free_global_names(&c);
            let assigned_nested: Vec<&str> = names.iter().filter(|n| n.2).map(|n| n.0.as_str()).collect();
            println!("{} free names; assigned inside nested functions: {:?}", names.len(), assigned_nested);
        }
        Err(e) => println!("load error [{}] line {}: {}", e.class, e.line, e.msg),
    });
}
