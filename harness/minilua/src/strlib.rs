//! string library: a port of lstrlib.c (Lua 5.3.6) including the pattern matcher and `string.format`.

use crate::interp::*;
use crate::numfmt::{fmt_float, fmt_hexfloat, pad, Spec};
use crate::value::*;

const L_ESC: u8 = b'%';
const MAXCAPTURES: usize = 32;
const CAP_UNFINISHED: isize = -1;
const CAP_POSITION: isize = -2;
const MAXCCALLS: i32 = 200;

fn posrelat(pos: i64, len: usize) -> i64 {
    if pos >= 0 {
        pos
    } else if (0u64.wrapping_sub(pos as u64)) > len as u64 {
        0
    } else {
        len as i64 + pos + 1
    }
}

fn str_arg(it: &mut Interp, base: usize, nargs: usize, i: usize) -> R<Vec<u8>> {
    let id = it.check_str(base, nargs, i)?;
    Ok(it.str_bytes(id).to_vec())
}

pub fn s_len(it: &mut Interp, base: usize, nargs: usize) -> R<usize> {
    let id = it.check_str(base, nargs, 0)?;
    let n = it.str_bytes(id).len();
    it.ret1(base, Value::Int(n as i64))
}

pub fn s_sub(it: &mut Interp, base: usize, nargs: usize) -> R<usize> {
    let id = it.check_str(base, nargs, 0)?;
    let l = it.str_bytes(id).len();
    let mut start = posrelat(it.check_int(base, nargs, 1)?, l);
    let mut end = posrelat(it.opt_int(base, nargs, 2, -1)?, l);
    if start < 1 {
        start = 1;
    }
    if end > l as i64 {
        end = l as i64;
    }
    if start <= end {
        let b = it.str_bytes(id)[(start - 1) as usize..end as usize].to_vec();
        let v = it.new_str_vec(b)?;
        it.ret1(base, v)
    } else {
        it.ret1(base, Value::Str(sid::EMPTY))
    }
}

pub fn s_byte(it: &mut Interp, base: usize, nargs: usize) -> R<usize> {
    let id = it.check_str(base, nargs, 0)?;
    let l = it.str_bytes(id).len();
    let mut posi = posrelat(it.opt_int(base, nargs, 1, 1)?, l);
    let mut pose = posrelat(it.opt_int(base, nargs, 2, posi)?, l);
    if posi < 1 {
        posi = 1;
    }
    if pose > l as i64 {
        pose = l as i64;
    }
    if posi > pose {
        it.stack.truncate(base);
        return Ok(0);
    }
    let vals: Vec<Value> =
        it.str_bytes(id)[(posi - 1) as usize..pose as usize].iter().map(|&b| Value::Int(b as i64)).collect();
    it.ret(base, &vals)
}

pub fn s_char(it: &mut Interp, base: usize, nargs: usize) -> R<usize> {
    let mut b = Vec::with_capacity(nargs);
    for i in 0..nargs {
        let c = it.check_int(base, nargs, i)?;
        if !(0..=255).contains(&c) {
            return Err(it.arg_error(i + 1, "value out of range"));
        }
        b.push(c as u8);
    }
    let v = it.new_str_vec(b)?;
    it.ret1(base, v)
}

pub fn s_upper(it: &mut Interp, base: usize, nargs: usize) -> R<usize> {
    let s = str_arg(it, base, nargs, 0)?;
    let v = it.new_str_vec(s.to_ascii_uppercase())?;
    it.ret1(base, v)
}

pub fn s_lower(it: &mut Interp, base: usize, nargs: usize) -> R<usize> {
    let s = str_arg(it, base, nargs, 0)?;
    let v = it.new_str_vec(s.to_ascii_lowercase())?;
    it.ret1(base, v)
}

pub fn s_reverse(it: &mut Interp, base: usize, nargs: usize) -> R<usize> {
    let mut s = str_arg(it, base, nargs, 0)?;
    s.reverse();
    let v = it.new_str_vec(s)?;
    it.ret1(base, v)
}

pub fn s_rep(it: &mut Interp, base: usize, nargs: usize) -> R<usize> {
    let s = str_arg(it, base, nargs, 0)?;
    let n = it.check_int(base, nargs, 1)?;
    let sep = if it.arg(base, nargs, 2).is_nil() { Vec::new() } else { str_arg(it, base, nargs, 2)? };
    if n <= 0 {
        return it.ret1(base, Value::Str(sid::EMPTY));
    }
    let unit = s.len() as u128 + sep.len() as u128;
    let total = unit * n as u128;
    if total >= 0x7fff_ffff_ffff_ffffu128 {
        return Err(it.lib_error("resulting string too large"));
    }
    if total > it.max_string_bytes as u128 {
        return Err(Ctl::Budget("memory"));
    }
    let mut out = Vec::with_capacity(total as usize);
    for i in 0..n {
        out.extend_from_slice(&s);
        if i + 1 < n {
            out.extend_from_slice(&sep);
        }
    }
    let v = it.new_str_vec(out)?;
    it.ret1(base, v)
}

// ---------------------------------------------------------------------------------------------- patterns

struct Capture {
    init: usize,
    len: isize,
}

struct MatchState<'a> {
    src: &'a [u8],
    pat: &'a [u8],
    level: usize,
    capture: Vec<Capture>,
    matchdepth: i32,
    err: Option<String>,
    /// work counter (budget): every match step counts; `over` is set when the limit is exceeded
    work: u64,
    limit: u64,
    over: bool,
}

fn is_class(c: u8, cl: u8) -> bool {
    let res = match cl.to_ascii_lowercase() {
        b'a' => c.is_ascii_alphabetic(),
        b'c' => c.is_ascii_control(),
        b'd' => c.is_ascii_digit(),
        b'g' => c.is_ascii_graphic(),
        b'l' => c.is_ascii_lowercase(),
        b'p' => c.is_ascii_punctuation(),
        b's' => c == b' ' || (9..=13).contains(&c),
        b'u' => c.is_ascii_uppercase(),
        b'w' => c.is_ascii_alphanumeric(),
        b'x' => c.is_ascii_hexdigit(),
        b'z' => c == 0,
        _ => return cl == c,
    };
    if cl.is_ascii_uppercase() {
        !res
    } else {
        res
    }
}

impl<'a> MatchState<'a> {
    fn new(src: &'a [u8], pat: &'a [u8]) -> MatchState<'a> {
        MatchState {
            src,
            pat,
            level: 0,
            capture: Vec::new(),
            matchdepth: MAXCCALLS,
            err: None,
            work: 0,
            limit: u64::MAX,
            over: false,
        }
    }

    fn reprep(&mut self) {
        self.level = 0;
        self.matchdepth = MAXCCALLS;
    }

    #[inline]
    fn p(&self, i: usize) -> u8 {
        if i < self.pat.len() {
            self.pat[i]
        } else {
            0
        }
    }

    #[inline]
    fn s(&self, i: usize) -> u8 {
        if i < self.src.len() {
            self.src[i]
        } else {
            0
        }
    }

    fn fail<T>(&mut self, msg: String) -> Option<T> {
        if self.err.is_none() {
            self.err = Some(msg);
        }
        None
    }

    fn class_end(&mut self, p: usize) -> Option<usize> {
        let mut p = p;
        let c = self.p(p);
        p += 1;
        if c == L_ESC {
            if p >= self.pat.len() {
                return self.fail("malformed pattern (ends with '%')".to_string());
            }
            return Some(p + 1);
        }
        if c == b'[' {
            if self.p(p) == b'^' {
                p += 1;
            }
            loop {
                if p >= self.pat.len() {
                    return self.fail("malformed pattern (missing ']')".to_string());
                }
                let cc = self.p(p);
                p += 1;
                if cc == L_ESC && p < self.pat.len() {
                    p += 1;
                }
                if self.p(p) == b']' && p < self.pat.len() {
                    break;
                }
                if p >= self.pat.len() {
                    return self.fail("malformed pattern (missing ']')".to_string());
                }
            }
            return Some(p + 1);
        }
        Some(p)
    }

    fn match_bracket_class(&self, c: u8, p: usize, ec: usize) -> bool {
        let mut p = p;
        let mut sig = true;
        if self.p(p + 1) == b'^' {
            sig = false;
            p += 1;
        }
        loop {
            p += 1;
            if p >= ec {
                break;
            }
            if self.p(p) == L_ESC {
                p += 1;
                if is_class(c, self.p(p)) {
                    return sig;
                }
            } else if self.p(p + 1) == b'-' && p + 2 < ec {
                p += 2;
                if self.p(p - 2) <= c && c <= self.p(p) {
                    return sig;
                }
            } else if self.p(p) == c {
                return sig;
            }
        }
        !sig
    }

    fn single_match(&self, s: usize, p: usize, ep: usize) -> bool {
        if s >= self.src.len() {
            return false;
        }
        let c = self.src[s];
        match self.p(p) {
            b'.' => true,
            L_ESC => is_class(c, self.p(p + 1)),
            b'[' => self.match_bracket_class(c, p, ep - 1),
            pc => pc == c,
        }
    }

    fn match_balance(&mut self, s: usize, p: usize) -> Option<usize> {
        if p + 1 >= self.pat.len() {
            return self.fail("malformed pattern (missing arguments to '%b')".to_string());
        }
        if s >= self.src.len() || self.src[s] != self.pat[p] {
            return None;
        }
        let b = self.pat[p];
        let e = self.pat[p + 1];
        let mut cont = 1;
        let mut s = s + 1;
        while s < self.src.len() {
            let c = self.src[s];
            if c == e {
                cont -= 1;
                if cont == 0 {
                    return Some(s + 1);
                }
            } else if c == b {
                cont += 1;
            }
            s += 1;
        }
        None
    }

    fn max_expand(&mut self, s: usize, p: usize, ep: usize) -> Option<usize> {
        let mut i: isize = 0;
        while self.single_match(s + i as usize, p, ep) {
            i += 1;
        }
        self.work += (i as u64) / 8;
        while i >= 0 {
            if let Some(r) = self.do_match(s + i as usize, ep + 1) {
                return Some(r);
            }
            if self.err.is_some() {
                return None;
            }
            i -= 1;
        }
        None
    }

    fn min_expand(&mut self, s: usize, p: usize, ep: usize) -> Option<usize> {
        let mut s = s;
        loop {
            if let Some(r) = self.do_match(s, ep + 1) {
                return Some(r);
            }
            if self.err.is_some() {
                return None;
            }
            if self.single_match(s, p, ep) {
                s += 1;
            } else {
                return None;
            }
        }
    }

    fn start_capture(&mut self, s: usize, p: usize, what: isize) -> Option<usize> {
        let level = self.level;
        if level >= MAXCAPTURES {
            return self.fail("too many captures".to_string());
        }
        if self.capture.len() <= level {
            self.capture.push(Capture { init: s, len: what });
        } else {
            self.capture[level] = Capture { init: s, len: what };
        }
        self.level = level + 1;
        let r = self.do_match(s, p);
        if r.is_none() {
            self.level -= 1;
        }
        r
    }

    fn capture_to_close(&mut self) -> Option<usize> {
        let mut level = self.level as isize - 1;
        while level >= 0 {
            if self.capture[level as usize].len == CAP_UNFINISHED {
                return Some(level as usize);
            }
            level -= 1;
        }
        self.fail("invalid pattern capture".to_string())
    }

    fn end_capture(&mut self, s: usize, p: usize) -> Option<usize> {
        let l = self.capture_to_close()?;
        self.capture[l].len = (s - self.capture[l].init) as isize;
        let r = self.do_match(s, p);
        if r.is_none() {
            self.capture[l].len = CAP_UNFINISHED;
        }
        r
    }

    fn check_capture(&mut self, l: u8) -> Option<usize> {
        let li = l as isize - b'1' as isize;
        if li < 0 || li as usize >= self.level || self.capture[li as usize].len == CAP_UNFINISHED {
            return self.fail(format!("invalid capture index %{}", li + 1));
        }
        Some(li as usize)
    }

    fn match_capture(&mut self, s: usize, l: u8) -> Option<usize> {
        let l = self.check_capture(l)?;
        let len = self.capture[l].len as usize;
        let init = self.capture[l].init;
        if self.src.len() - s >= len && self.src[init..init + len] == self.src[s..s + len] {
            Some(s + len)
        } else {
            None
        }
    }

    fn do_match(&mut self, s: usize, p: usize) -> Option<usize> {
        self.work += 1;
        if self.work > self.limit {
            self.over = true;
            return self.fail("minilua: pattern matching exceeded the step budget".to_string());
        }
        if self.matchdepth == 0 {
            return self.fail("pattern too complex".to_string());
        }
        self.matchdepth -= 1;
        let r = self.match_inner(s, p);
        self.matchdepth += 1;
        r
    }

    fn match_inner(&mut self, s: usize, p: usize) -> Option<usize> {
        let mut s = s;
        let mut p = p;
        loop {
            if p >= self.pat.len() {
                return Some(s);
            }
            let pc = self.pat[p];
            let dflt;
            match pc {
                b'(' => {
                    return if self.p(p + 1) == b')' {
                        self.start_capture(s, p + 2, CAP_POSITION)
                    } else {
                        self.start_capture(s, p + 1, CAP_UNFINISHED)
                    };
                }
                b')' => return self.end_capture(s, p + 1),
                b'$' => {
                    if p + 1 != self.pat.len() {
                        dflt = true;
                    } else {
                        return if s == self.src.len() { Some(s) } else { None };
                    }
                }
                L_ESC => match self.p(p + 1) {
                    b'b' => {
                        let r = self.match_balance(s, p + 2)?;
                        s = r;
                        p += 4;
                        continue;
                    }
                    b'f' => {
                        p += 2;
                        if self.p(p) != b'[' {
                            return self.fail("missing '[' after '%f' in pattern".to_string());
                        }
                        let ep = self.class_end(p)?;
                        let prev = if s == 0 { 0 } else { self.src[s - 1] };
                        let cur = self.s(s);
                        if !self.match_bracket_class(prev, p, ep - 1) && self.match_bracket_class(cur, p, ep - 1) {
                            p = ep;
                            continue;
                        }
                        return None;
                    }
                    b'0'..=b'9' => {
                        let l = self.p(p + 1);
                        let r = self.match_capture(s, l)?;
                        s = r;
                        p += 2;
                        continue;
                    }
                    _ => dflt = true,
                },
                _ => dflt = true,
            }
            if dflt {
                let ep = self.class_end(p)?;
                let epc = self.p(ep);
                if !self.single_match(s, p, ep) {
                    if epc == b'*' || epc == b'?' || epc == b'-' {
                        p = ep + 1;
                        continue;
                    }
                    return None;
                }
                match epc {
                    b'?' => {
                        if let Some(r) = self.do_match(s + 1, ep + 1) {
                            return Some(r);
                        }
                        if self.err.is_some() {
                            return None;
                        }
                        p = ep + 1;
                        continue;
                    }
                    b'+' => return self.max_expand(s + 1, p, ep),
                    b'*' => return self.max_expand(s, p, ep),
                    b'-' => return self.min_expand(s, p, ep),
                    _ => {
                        s += 1;
                        p = ep;
                        continue;
                    }
                }
            }
        }
    }
}

/// one capture as a value: Ok(Left(bytes range)) or position
enum Cap {
    Str(usize, usize),
    Pos(i64),
}

fn get_onecapture(ms: &mut MatchState, i: usize, s: usize, e: usize) -> Option<Cap> {
    if i >= ms.level {
        if i == 0 {
            Some(Cap::Str(s, e))
        } else {
            ms.fail(format!("invalid capture index %{}", i + 1))
        }
    } else {
        let l = ms.capture[i].len;
        if l == CAP_UNFINISHED {
            return ms.fail("unfinished capture".to_string());
        }
        if l == CAP_POSITION {
            Some(Cap::Pos(ms.capture[i].init as i64 + 1))
        } else {
            Some(Cap::Str(ms.capture[i].init, ms.capture[i].init + l as usize))
        }
    }
}

fn cap_value(it: &mut Interp, src: &[u8], c: Cap) -> R<Value> {
    match c {
        Cap::Pos(p) => Ok(Value::Int(p)),
        Cap::Str(a, b) => it.new_str(&src[a..b]),
    }
}

/// push_captures: whole match if there are no captures and `whole` is set
fn captures(it: &mut Interp, ms: &mut MatchState, src: &[u8], s: usize, e: usize, whole: bool) -> R<Vec<Value>> {
    let nlevels = if ms.level == 0 && whole { 1 } else { ms.level };
    let mut out = Vec::with_capacity(nlevels);
    for i in 0..nlevels {
        match get_onecapture(ms, i, s, e) {
            Some(c) => out.push(cap_value(it, src, c)?),
            None => {
                let m = ms.err.take().unwrap_or_default();
                return Err(it.lib_error(&m));
            }
        }
    }
    Ok(out)
}

fn pat_error(it: &mut Interp, ms: &mut MatchState) -> Ctl {
    let m = ms.err.take().unwrap_or_default();
    if ms.over {
        return Ctl::Budget("steps");
    }
    it.lib_error(&m)
}

/// give the matcher a work limit derived from the remaining step budget; 8 match steps = 1 step
fn arm(it: &Interp, ms: &mut MatchState) {
    ms.limit = it.max_steps.saturating_sub(it.steps).saturating_mul(8).saturating_add(64);
}

fn settle(it: &mut Interp, ms: &mut MatchState) {
    it.steps += ms.work / 8;
    ms.limit = ms.limit.saturating_sub(ms.work);
    ms.work = 0;
}

fn nospecials(p: &[u8]) -> bool {
    !p.iter().any(|c| b"^$*+?.([%-".contains(c))
}

fn memfind(s: &[u8], p: &[u8]) -> Option<usize> {
    if p.is_empty() {
        return Some(0);
    }
    if p.len() > s.len() {
        return None;
    }
    s.windows(p.len()).position(|w| w == p)
}

fn str_find_aux(it: &mut Interp, base: usize, nargs: usize, find: bool) -> R<usize> {
    let src = str_arg(it, base, nargs, 0)?;
    let pat = str_arg(it, base, nargs, 1)?;
    let ls = src.len();
    let mut init = posrelat(it.opt_int(base, nargs, 2, 1)?, ls);
    if init < 1 {
        init = 1;
    } else if init > ls as i64 + 1 {
        return it.ret1(base, Value::Nil);
    }
    let init = (init - 1) as usize;
    if find && (it.arg(base, nargs, 3).truthy() || nospecials(&pat)) {
        return match memfind(&src[init..], &pat) {
            Some(p) => {
                let a = (init + p + 1) as i64;
                it.ret(base, &[Value::Int(a), Value::Int(a + pat.len() as i64 - 1)])
            }
            None => it.ret1(base, Value::Nil),
        };
    }
    let anchor = !pat.is_empty() && pat[0] == b'^';
    let p = if anchor { &pat[1..] } else { &pat[..] };
    let mut ms = MatchState::new(&src, p);
    arm(it, &mut ms);
    let mut s1 = init;
    loop {
        ms.reprep();
        let r = ms.do_match(s1, 0);
        settle(it, &mut ms);
        if ms.err.is_some() {
            return Err(pat_error(it, &mut ms));
        }
        if let Some(e) = r {
            if find {
                let mut vals = vec![Value::Int(s1 as i64 + 1), Value::Int(e as i64)];
                vals.extend(captures(it, &mut ms, &src, s1, e, false)?);
                return it.ret(base, &vals);
            } else {
                let vals = captures(it, &mut ms, &src, s1, e, true)?;
                return it.ret(base, &vals);
            }
        }
        s1 += 1;
        if s1 > ls || anchor {
            break;
        }
        it.step()?;
    }
    it.ret1(base, Value::Nil)
}

pub fn s_find(it: &mut Interp, base: usize, nargs: usize) -> R<usize> {
    str_find_aux(it, base, nargs, true)
}

pub fn s_match(it: &mut Interp, base: usize, nargs: usize) -> R<usize> {
    str_find_aux(it, base, nargs, false)
}

/// gmatch returns a builtin closure bound to a hidden state table {src, pat, pos, lastmatch}
/// (real Lua keeps the state in the C closure's upvalues).
pub fn s_gmatch(it: &mut Interp, base: usize, nargs: usize) -> R<usize> {
    let s = it.check_str(base, nargs, 0)?;
    let p = it.check_str(base, nargs, 1)?;
    let mut t = Table::with_capacity(4, 0);
    t.arr.push(Value::Str(s));
    t.arr.push(Value::Str(p));
    t.arr.push(Value::Int(0));
    t.arr.push(Value::Int(-1));
    let st = it.new_table(t)?;
    let iter_id = crate::stdlib::BUILTINS.iter().position(|(n, _)| *n == "string.gmatch_iter").unwrap() as u32;
    let cell = it.new_cell(st)?;
    it.closures.push(Closure { proto: BUILTIN_CLOSURE_BASE + iter_id, upvals: vec![cell].into_boxed_slice() });
    let f = Value::Func((it.closures.len() - 1) as u32);
    it.ret1(base, f)
}

pub fn s_gmatch_iter(it: &mut Interp, base: usize, nargs: usize) -> R<usize> {
    let st = match it.arg(base, nargs, 0) {
        Value::Table(t) => t,
        _ => return Err(it.lib_error("minilua internal: bad gmatch state")),
    };
    let (sv, pv, pos, last) = {
        let t = &it.tables[st as usize];
        (t.get_int(1), t.get_int(2), t.get_int(3), t.get_int(4))
    };
    let (sid_, pid) = match (sv, pv) {
        (Value::Str(a), Value::Str(b)) => (a, b),
        _ => return Err(it.lib_error("minilua internal: bad gmatch state")),
    };
    let src = it.str_bytes(sid_).to_vec();
    let pat = it.str_bytes(pid).to_vec();
    let mut s = match pos {
        Value::Int(i) => i as usize,
        _ => 0,
    };
    let lastmatch: i64 = match last {
        Value::Int(i) => i,
        _ => -1,
    };
    let mut ms = MatchState::new(&src, &pat);
    arm(it, &mut ms);
    while s <= src.len() {
        ms.reprep();
        let r = ms.do_match(s, 0);
        settle(it, &mut ms);
        if ms.err.is_some() {
            return Err(pat_error(it, &mut ms));
        }
        if let Some(e) = r {
            if e as i64 != lastmatch {
                it.tables[st as usize].set(Value::Int(3), Value::Int(e as i64));
                it.tables[st as usize].set(Value::Int(4), Value::Int(e as i64));
                let vals = captures(it, &mut ms, &src, s, e, true)?;
                return it.ret(base, &vals);
            }
        }
        s += 1;
        it.step()?;
    }
    it.tables[st as usize].set(Value::Int(3), Value::Int(src.len() as i64 + 1));
    it.ret1(base, Value::Nil)
}

pub fn s_gsub(it: &mut Interp, base: usize, nargs: usize) -> R<usize> {
    let src = str_arg(it, base, nargs, 0)?;
    let pat_full = str_arg(it, base, nargs, 1)?;
    let repl = it.arg(base, nargs, 2);
    let max_s = it.opt_int(base, nargs, 3, src.len() as i64 + 1)?;
    let anchor = !pat_full.is_empty() && pat_full[0] == b'^';
    let pat = if anchor { &pat_full[1..] } else { &pat_full[..] };
    if !matches!(
        repl,
        Value::Int(_) | Value::Float(_) | Value::Str(_) | Value::Table(_) | Value::Func(_) | Value::Builtin(_)
    ) || nargs < 3
    {
        return Err(it.type_error(base, nargs, 2, "string/function/table"));
    }
    let repl_s: Vec<u8> = match repl {
        Value::Str(_) | Value::Int(_) | Value::Float(_) => it.concat_piece(&repl).unwrap_or_default(),
        _ => Vec::new(),
    };
    let mut ms = MatchState::new(&src, pat);
    arm(it, &mut ms);
    let mut out: Vec<u8> = Vec::new();
    let mut s = 0usize;
    let mut lastmatch: Option<usize> = None;
    let mut n: i64 = 0;
    while n < max_s {
        ms.reprep();
        let r = ms.do_match(s, 0);
        settle(it, &mut ms);
        if ms.err.is_some() {
            return Err(pat_error(it, &mut ms));
        }
        match r {
            Some(e) if Some(e) != lastmatch => {
                n += 1;
                // add_value
                let val: Value = match repl {
                    Value::Func(_) | Value::Builtin(_) => {
                        let caps = captures(it, &mut ms, &src, s, e, true)?;
                        it.call1(repl, &caps)?
                    }
                    Value::Table(_) => {
                        let c = match get_onecapture(&mut ms, 0, s, e) {
                            Some(c) => cap_value(it, &src, c)?,
                            None => return Err(pat_error(it, &mut ms)),
                        };
                        it.index_lib(repl, c)?
                    }
                    _ => {
                        // add_s
                        let mut i = 0;
                        while i < repl_s.len() {
                            let c = repl_s[i];
                            if c != L_ESC {
                                out.push(c);
                            } else {
                                i += 1;
                                let d = if i < repl_s.len() { repl_s[i] } else { 0 };
                                if !d.is_ascii_digit() {
                                    if d != L_ESC {
                                        return Err(it.lib_error("invalid use of '%' in replacement string"));
                                    }
                                    out.push(d);
                                } else if d == b'0' {
                                    out.extend_from_slice(&src[s..e]);
                                } else {
                                    match get_onecapture(&mut ms, (d - b'1') as usize, s, e) {
                                        Some(Cap::Str(a, b)) => out.extend_from_slice(&src[a..b]),
                                        Some(Cap::Pos(p)) => out.extend_from_slice(p.to_string().as_bytes()),
                                        None => return Err(pat_error(it, &mut ms)),
                                    }
                                }
                            }
                            i += 1;
                        }
                        Value::Bool(true) // marker: already added
                    }
                };
                match (repl, val) {
                    (Value::Func(_) | Value::Builtin(_) | Value::Table(_), v) => {
                        if !v.truthy() {
                            out.extend_from_slice(&src[s..e]);
                        } else {
                            match it.concat_piece(&v) {
                                Some(b) => out.extend_from_slice(&b),
                                None => {
                                    let tn = it.type_name_of(&v);
                                    return Err(it.lib_error(&format!("invalid replacement value (a {})", tn)));
                                }
                            }
                        }
                    }
                    _ => {}
                }
                s = e;
                lastmatch = Some(e);
            }
            _ => {
                if s < src.len() {
                    out.push(src[s]);
                    s += 1;
                } else {
                    break;
                }
            }
        }
        if out.len() > it.max_string_bytes {
            return Err(Ctl::Budget("memory"));
        }
        if anchor {
            break;
        }
        it.step()?;
    }
    if s < src.len() {
        out.extend_from_slice(&src[s..]);
    }
    let v = it.new_str_vec(out)?;
    it.ret(base, &[v, Value::Int(n)])
}

// ---------------------------------------------------------------------------------------------- format

fn fmt_int(n: i64, conv: u8, spec: &Spec) -> Vec<u8> {
    let (neg, digits): (bool, String) = match conv {
        b'd' | b'i' => (n < 0, (n as i128).abs().to_string()),
        b'u' => (false, (n as u64).to_string()),
        b'o' => (false, format!("{:o}", n as u64)),
        b'x' => (false, format!("{:x}", n as u64)),
        _ => (false, format!("{:X}", n as u64)),
    };
    let mut digits = digits;
    if let Some(p) = spec.prec {
        if p == 0 && n == 0 {
            digits.clear();
        }
        while digits.len() < p {
            digits.insert(0, '0');
        }
    }
    let mut sign = String::new();
    if matches!(conv, b'd' | b'i') {
        if neg {
            sign.push('-');
        } else if spec.plus {
            sign.push('+');
        } else if spec.space {
            sign.push(' ');
        }
    }
    if spec.alt && n != 0 {
        match conv {
            b'x' => sign.push_str("0x"),
            b'X' => sign.push_str("0X"),
            b'o' => {
                if !digits.starts_with('0') {
                    digits.insert(0, '0');
                }
            }
            _ => {}
        }
    } else if spec.alt && conv == b'o' && digits.is_empty() {
        digits.push('0');
    }
    pad(sign.as_bytes(), digits.as_bytes(), spec, spec.prec.is_none())
}

fn add_quoted(out: &mut Vec<u8>, s: &[u8]) {
    out.push(b'"');
    let mut i = 0;
    while i < s.len() {
        let c = s[i];
        if c == b'"' || c == b'\\' || c == b'\n' {
            out.push(b'\\');
            out.push(c);
        } else if c == 0 || c.is_ascii_control() {
            let next_digit = i + 1 < s.len() && s[i + 1].is_ascii_digit();
            if next_digit {
                out.extend_from_slice(format!("\\{:03}", c).as_bytes());
            } else {
                out.extend_from_slice(format!("\\{}", c).as_bytes());
            }
        } else {
            out.push(c);
        }
        i += 1;
    }
    out.push(b'"');
}

pub fn s_format(it: &mut Interp, base: usize, nargs: usize) -> R<usize> {
    let fmt = str_arg(it, base, nargs, 0)?;
    let mut out: Vec<u8> = Vec::new();
    let mut arg = 0usize;
    let mut i = 0;
    while i < fmt.len() {
        let c = fmt[i];
        i += 1;
        if c != L_ESC {
            out.push(c);
            continue;
        }
        if i < fmt.len() && fmt[i] == L_ESC {
            out.push(L_ESC);
            i += 1;
            continue;
        }
        // format item
        arg += 1;
        if arg >= nargs {
            return Err(it.arg_error(arg + 1, "no value"));
        }
        let mut spec = Spec::default();
        let fstart = i;
        while i < fmt.len() && b"-+ #0".contains(&fmt[i]) {
            match fmt[i] {
                b'-' => spec.minus = true,
                b'+' => spec.plus = true,
                b' ' => spec.space = true,
                b'#' => spec.alt = true,
                _ => spec.zero = true,
            }
            i += 1;
        }
        if i - fstart >= 6 {
            return Err(it.lib_error("invalid format (repeated flags)"));
        }
        let mut w = 0usize;
        let mut nd = 0;
        while i < fmt.len() && fmt[i].is_ascii_digit() && nd < 2 {
            w = w * 10 + (fmt[i] - b'0') as usize;
            i += 1;
            nd += 1;
        }
        spec.width = w;
        if i < fmt.len() && fmt[i] == b'.' {
            i += 1;
            let mut p = 0usize;
            let mut nd = 0;
            while i < fmt.len() && fmt[i].is_ascii_digit() && nd < 2 {
                p = p * 10 + (fmt[i] - b'0') as usize;
                i += 1;
                nd += 1;
            }
            spec.prec = Some(p);
        }
        if i < fmt.len() && fmt[i].is_ascii_digit() {
            return Err(it.lib_error("invalid format (width or precision too long)"));
        }
        let conv = if i < fmt.len() { fmt[i] } else { 0 };
        i += 1;
        match conv {
            b'c' => {
                let n = it.check_int(base, nargs, arg)?;
                let b = [n as u8];
                out.extend_from_slice(&pad(b"", &b, &spec, false));
            }
            b'd' | b'i' | b'o' | b'u' | b'x' | b'X' => {
                let n = it.check_int(base, nargs, arg)?;
                out.extend_from_slice(&fmt_int(n, conv, &spec));
            }
            b'a' | b'A' => {
                let x = it.check_num(base, nargs, arg)?;
                out.extend_from_slice(&fmt_hexfloat(x, conv == b'A', &spec));
            }
            b'e' | b'E' | b'f' | b'F' | b'g' | b'G' => {
                let x = it.check_num(base, nargs, arg)?;
                out.extend_from_slice(&fmt_float(x, conv, &spec));
            }
            b'q' => {
                let v = it.arg(base, nargs, arg);
                match v {
                    Value::Str(s) => {
                        let b = it.str_bytes(s).to_vec();
                        add_quoted(&mut out, &b);
                    }
                    Value::Int(n) => {
                        if n == i64::MIN {
                            out.extend_from_slice(b"0x8000000000000000");
                        } else {
                            out.extend_from_slice(n.to_string().as_bytes());
                        }
                    }
                    Value::Float(f) => {
                        if f == f64::INFINITY {
                            out.extend_from_slice(b"1e9999");
                        } else if f == f64::NEG_INFINITY {
                            out.extend_from_slice(b"-1e9999");
                        } else if f.is_nan() {
                            out.extend_from_slice(b"(0/0)");
                        } else {
                            out.extend_from_slice(&fmt_hexfloat(f, false, &Spec::default()));
                        }
                    }
                    Value::Nil | Value::Bool(_) => {
                        let s = it.tostring_value(v)?;
                        if let Value::Str(s) = s {
                            let b = it.str_bytes(s).to_vec();
                            out.extend_from_slice(&b);
                        }
                    }
                    _ => return Err(it.arg_error(arg + 1, "value has no literal form")),
                }
            }
            b's' => {
                it.check_any(base, nargs, arg)?;
                let v = it.stack[base + arg];
                let sv = it.tostring_value(v)?;
                let b = match sv {
                    Value::Str(s) => it.str_bytes(s).to_vec(),
                    _ => Vec::new(),
                };
                let plain = spec.prec.is_none() && spec.width == 0 && !(spec.minus || spec.plus || spec.space || spec.alt || spec.zero);
                if plain {
                    out.extend_from_slice(&b);
                } else if b.contains(&0) {
                    return Err(it.arg_error(arg + 1, "string contains zeros"));
                } else if spec.prec.is_none() && b.len() >= 100 {
                    out.extend_from_slice(&b);
                } else {
                    let body: &[u8] = match spec.prec {
                        Some(p) if p < b.len() => &b[..p],
                        _ => &b[..],
                    };
                    out.extend_from_slice(&pad(b"", body, &spec, false));
                }
            }
            _ => {
                let shown = if conv == 0 { String::new() } else { (conv as char).to_string() };
                return Err(it.lib_error(&format!("invalid option '%{}' to 'format'", shown)));
            }
        }
        if out.len() > it.max_string_bytes {
            return Err(Ctl::Budget("memory"));
        }
    }
    let v = it.new_str_vec(out)?;
    it.ret1(base, v)
}
