//! Base, table, math, os and io libraries (the subset used by the emitted code and the preamble, plus the
//! usual suspects). Every builtin has the ABI `fn(&mut Interp, base, nargs) -> R<usize>`: arguments are at
//! stack[base..base+nargs]; results must be left at stack[base..] and their count returned.

use crate::interp::*;
use crate::numfmt::{str2number, Num};
use crate::ops::type_name;
use crate::value::*;

pub type Builtin = for<'a, 'c> fn(&'a mut Interp<'c>, usize, usize) -> R<usize>;

pub const BUILTINS: &[(&str, Builtin)] = &[
    ("assert", b_assert),
    ("error", b_error),
    ("pcall", b_pcall),
    ("xpcall", b_xpcall),
    ("select", b_select),
    ("type", b_type),
    ("tostring", b_tostring),
    ("tonumber", b_tonumber),
    ("rawget", b_rawget),
    ("rawset", b_rawset),
    ("rawequal", b_rawequal),
    ("rawlen", b_rawlen),
    ("next", b_next),
    ("pairs", b_pairs),
    ("ipairs", b_ipairs),
    ("ipairs_iter", b_ipairs_iter),
    ("print", b_print),
    ("require", b_require),
    ("collectgarbage", b_collectgarbage),
    ("setmetatable", b_setmetatable),
    ("getmetatable", b_getmetatable),
    ("os.time", b_zero),
    ("os.clock", b_zero_float),
    ("io.write", b_io_write),
    ("table.insert", t_insert),
    ("table.remove", t_remove),
    ("table.concat", t_concat),
    ("table.unpack", t_unpack),
    ("table.pack", t_pack),
    ("table.sort", t_sort),
    ("table.move", t_move),
    ("math.floor", m_floor),
    ("math.ceil", m_ceil),
    ("math.abs", m_abs),
    ("math.sqrt", m_sqrt),
    ("math.sin", m_sin),
    ("math.cos", m_cos),
    ("math.tan", m_tan),
    ("math.asin", m_asin),
    ("math.acos", m_acos),
    ("math.atan", m_atan),
    ("math.exp", m_exp),
    ("math.log", m_log),
    ("math.fmod", m_fmod),
    ("math.modf", m_modf),
    ("math.tointeger", m_tointeger),
    ("math.type", m_type),
    ("math.ult", m_ult),
    ("math.min", m_min),
    ("math.max", m_max),
    ("math.random", m_random),
    ("math.randomseed", m_randomseed),
    // LUA_COMPAT_MATHLIB (on in a stock `make` of Lua 5.3 and in Debian/Ubuntu's lua5.3)
    ("math.atan2", m_atan),
    ("math.pow", m_pow),
    ("math.cosh", m_cosh),
    ("math.sinh", m_sinh),
    ("math.tanh", m_tanh),
    ("math.log10", m_log10),
    ("math.frexp", m_frexp),
    ("math.ldexp", m_ldexp),
    ("string.byte", crate::strlib::s_byte),
    ("string.char", crate::strlib::s_char),
    ("string.len", crate::strlib::s_len),
    ("string.sub", crate::strlib::s_sub),
    ("string.upper", crate::strlib::s_upper),
    ("string.lower", crate::strlib::s_lower),
    ("string.rep", crate::strlib::s_rep),
    ("string.reverse", crate::strlib::s_reverse),
    ("string.format", crate::strlib::s_format),
    ("string.find", crate::strlib::s_find),
    ("string.match", crate::strlib::s_match),
    ("string.gmatch", crate::strlib::s_gmatch),
    ("string.gmatch_iter", crate::strlib::s_gmatch_iter),
    ("string.gsub", crate::strlib::s_gsub),
];

fn builtin_id(name: &str) -> u16 {
    BUILTINS.iter().position(|(n, _)| *n == name).expect("builtin") as u16
}

const COMPAT_MATHLIB: [&str; 8] =
    ["math.atan2", "math.pow", "math.cosh", "math.sinh", "math.tanh", "math.log10", "math.frexp", "math.ldexp"];

pub fn open_libs(it: &mut Interp, compat_mathlib: bool) {
    let g = it.new_table_raw();
    it.globals = g;
    let mut libs: Vec<(&str, u32)> = Vec::new();
    for (i, (name, _)) in BUILTINS.iter().enumerate() {
        if name.ends_with("_iter") {
            continue;
        }
        if !compat_mathlib && COMPAT_MATHLIB.contains(name) {
            continue;
        }
        let (lib, fname) = match name.find('.') {
            Some(p) => (&name[..p], &name[p + 1..]),
            None => ("", *name),
        };
        let tid = if lib.is_empty() {
            g
        } else {
            match libs.iter().find(|(l, _)| *l == lib) {
                Some((_, t)) => *t,
                None => {
                    let t = it.new_table_raw();
                    libs.push((lib, t));
                    let k = it.strings.intern(lib.as_bytes());
                    it.tables[g as usize].set(Value::Str(k), Value::Table(t));
                    t
                }
            }
        };
        let k = it.strings.intern(fname.as_bytes());
        it.tables[tid as usize].set(Value::Str(k), Value::Builtin(i as u16));
    }
    let set = |it: &mut Interp, t: u32, k: &str, v: Value| {
        let k = it.strings.intern(k.as_bytes());
        it.tables[t as usize].set(Value::Str(k), v);
    };
    set(it, g, "_G", Value::Table(g));
    let ver = it.strings.intern(b"Lua 5.3");
    set(it, g, "_VERSION", Value::Str(ver));
    let math = libs.iter().find(|(l, _)| *l == "math").map(|x| x.1).unwrap();
    set(it, math, "huge", Value::Float(f64::INFINITY));
    set(it, math, "pi", Value::Float(std::f64::consts::PI));
    set(it, math, "maxinteger", Value::Int(i64::MAX));
    set(it, math, "mininteger", Value::Int(i64::MIN));
    // io.stdout with a write method
    let io = libs.iter().find(|(l, _)| *l == "io").map(|x| x.1).unwrap();
    let out = it.new_table_raw();
    set(it, out, "write", Value::Builtin(builtin_id("io.write")));
    let outmeta = it.new_table_raw();
    set(it, outmeta, "__index", Value::Table(out));
    let fname = it.strings.intern(b"FILE*");
    set(it, outmeta, "__name", Value::Str(fname));
    it.tables[out as usize].meta = outmeta;
    set(it, io, "stdout", Value::Table(out));
    // string metatable
    let string = libs.iter().find(|(l, _)| *l == "string").map(|x| x.1).unwrap();
    let sm = it.new_table_raw();
    set(it, sm, "__index", Value::Table(string));
    it.string_meta = sm;
    it.tostring_builtin = builtin_id("tostring");
    it.next_builtin = builtin_id("next");
}

// ---------------------------------------------------------------------------------------------- helpers

impl<'c> Interp<'c> {
    #[inline]
    pub fn arg(&self, base: usize, nargs: usize, i: usize) -> Value {
        if i < nargs {
            self.stack[base + i]
        } else {
            Value::Nil
        }
    }

    pub fn ret(&mut self, base: usize, vals: &[Value]) -> R<usize> {
        self.stack.truncate(base);
        self.stack.extend_from_slice(vals);
        Ok(vals.len())
    }

    pub fn ret1(&mut self, base: usize, v: Value) -> R<usize> {
        self.stack.truncate(base);
        self.stack.push(v);
        Ok(1)
    }

    /// name under which the running builtin was called (for messages)
    fn running_name(&self) -> (String, bool) {
        let f = self.frames.last().unwrap();
        match f.name {
            CallName::Global(n) | CallName::Local(n) | CallName::Upvalue(n) | CallName::Field(n) | CallName::Constant(n) => {
                (self.lossy(n), false)
            }
            CallName::Method(n) => (self.lossy(n), true),
            CallName::ForIterator => ("for iterator".to_string(), false),
            CallName::Metamethod(n) => (self.lossy(n), false),
            CallName::None => {
                let q = BUILTINS[f.builtin as usize].0;
                (q.replace("_iter", "").to_string(), false)
            }
        }
    }

    /// luaL_argerror; `arg` is 1-based
    pub fn arg_error(&mut self, arg: usize, extramsg: &str) -> Ctl {
        let (name, is_method) = self.running_name();
        let mut arg = arg;
        if is_method {
            arg -= 1;
            if arg == 0 {
                return self.lib_error(&format!("calling '{}' on bad self ({})", name, extramsg));
            }
        }
        self.lib_error(&format!("bad argument #{} to '{}' ({})", arg, name, extramsg))
    }

    pub fn type_error(&mut self, base: usize, nargs: usize, i: usize, expected: &str) -> Ctl {
        let got = if i >= nargs {
            "no value".to_string()
        } else {
            let v = self.stack[base + i];
            self.type_name_of(&v)
        };
        self.arg_error(i + 1, &format!("{} expected, got {}", expected, got))
    }

    pub fn check_any(&mut self, _base: usize, nargs: usize, i: usize) -> R<()> {
        if i >= nargs {
            return Err(self.arg_error(i + 1, "value expected"));
        }
        Ok(())
    }

    pub fn check_table(&mut self, base: usize, nargs: usize, i: usize) -> R<u32> {
        match self.arg(base, nargs, i) {
            Value::Table(t) => Ok(t),
            _ => Err(self.type_error(base, nargs, i, "table")),
        }
    }

    pub fn check_int(&mut self, base: usize, nargs: usize, i: usize) -> R<i64> {
        let v = self.arg(base, nargs, i);
        match v {
            Value::Int(x) => Ok(x),
            Value::Float(f) => match float_to_int_exact(f) {
                Some(x) => Ok(x),
                None => Err(self.arg_error(i + 1, "number has no integer representation")),
            },
            Value::Str(_) => match self.to_integer(&v) {
                Some(x) => Ok(x),
                None => {
                    if self.to_number(&v).is_some() {
                        Err(self.arg_error(i + 1, "number has no integer representation"))
                    } else {
                        Err(self.type_error(base, nargs, i, "number"))
                    }
                }
            },
            _ => Err(self.type_error(base, nargs, i, "number")),
        }
    }

    pub fn opt_int(&mut self, base: usize, nargs: usize, i: usize, def: i64) -> R<i64> {
        if self.arg(base, nargs, i).is_nil() {
            Ok(def)
        } else {
            self.check_int(base, nargs, i)
        }
    }

    pub fn check_num(&mut self, base: usize, nargs: usize, i: usize) -> R<f64> {
        let v = self.arg(base, nargs, i);
        match self.to_number(&v) {
            Some(x) => Ok(x),
            None => Err(self.type_error(base, nargs, i, "number")),
        }
    }

    /// number argument keeping its subtype (strings are converted)
    pub fn check_number_value(&mut self, base: usize, nargs: usize, i: usize) -> R<Value> {
        let v = self.arg(base, nargs, i);
        match v {
            Value::Int(_) | Value::Float(_) => Ok(v),
            Value::Str(s) => match str2number(self.str_bytes(s)) {
                Some(Num::Int(x)) => Ok(Value::Int(x)),
                Some(Num::Float(x)) => Ok(Value::Float(x)),
                None => Err(self.type_error(base, nargs, i, "number")),
            },
            _ => Err(self.type_error(base, nargs, i, "number")),
        }
    }

    /// string argument (numbers are converted); returns the interned id
    pub fn check_str(&mut self, base: usize, nargs: usize, i: usize) -> R<u32> {
        let v = self.arg(base, nargs, i);
        match v {
            Value::Str(s) => Ok(s),
            Value::Int(_) | Value::Float(_) => {
                let b = self.concat_piece(&v).unwrap_or_default();
                match self.new_str_vec(b)? {
                    Value::Str(s) => Ok(s),
                    _ => Ok(sid::EMPTY),
                }
            }
            _ => Err(self.type_error(base, nargs, i, "string")),
        }
    }

    /// luaL_len with __len support
    pub fn lib_len(&mut self, v: Value) -> R<i64> {
        let r = self.len_of(v, None, 0, None)?;
        match r {
            Value::Int(i) => Ok(i),
            Value::Float(f) => match float_to_int_exact(f) {
                Some(i) => Ok(i),
                None => Err(self.lib_error("object length is not an integer")),
            },
            _ => Err(self.lib_error("object length is not an integer")),
        }
    }

    /// lua_geti honouring __index
    pub fn lib_geti(&mut self, t: Value, i: i64) -> R<Value> {
        if let Value::Table(id) = t {
            let tb = &self.tables[id as usize];
            let v = tb.get_int(i);
            if !v.is_nil() || tb.meta == NO_META {
                return Ok(v);
            }
        }
        self.index_lib(t, Value::Int(i))
    }

    pub fn lib_seti(&mut self, t: Value, i: i64, v: Value) -> R<()> {
        if let Value::Table(id) = t {
            let tb = &mut self.tables[id as usize];
            if tb.meta == NO_META {
                tb.set(Value::Int(i), v);
                return Ok(());
            }
        }
        self.set_index_lib(t, Value::Int(i), v)
    }

    /// checktab of ltablib.c: a table, or something with the needed metamethods
    fn check_tab(&mut self, base: usize, nargs: usize, i: usize, need_newindex: bool) -> R<Value> {
        let v = self.arg(base, nargs, i);
        if let Value::Table(_) = v {
            return Ok(v);
        }
        let m = self.metatable_of(&v);
        if m != NO_META {
            let has = |it: &Interp, ev: u32| !it.tables[m as usize].get_str(ev).is_nil();
            if has(self, sid::INDEX) && (!need_newindex || has(self, sid::NEWINDEX)) && has(self, sid::LEN) {
                return Ok(v);
            }
        }
        Err(self.type_error(base, nargs, i, "table"))
    }
}

// ---------------------------------------------------------------------------------------------- base

fn b_assert(it: &mut Interp, base: usize, nargs: usize) -> R<usize> {
    if it.arg(base, nargs, 0).truthy() {
        return Ok(nargs);
    }
    it.check_any(base, nargs, 0)?;
    let msg = if nargs >= 2 { it.stack[base + 1] } else { it.new_str(b"assertion failed!")? };
    // luaB_assert ends with `return luaB_error(L)` with only the message on the stack: level 1
    let level = if it.assert_adds_position { 1 } else { 0 };
    Err(raise_error(it, msg, level))
}

/// luaB_error: string messages get position information for level > 0
fn raise_error(it: &mut Interp, msg: Value, level: i64) -> Ctl {
    if let Value::Str(s) = msg {
        if level > 0 {
            let w = it.where_(level as usize);
            if !w.is_empty() {
                let mut b = w.into_bytes();
                b.extend_from_slice(it.str_bytes(s));
                return match it.new_str_vec(b) {
                    Ok(v) => Ctl::Error(v),
                    Err(c) => c,
                };
            }
        }
    }
    Ctl::Error(msg)
}

fn b_error(it: &mut Interp, base: usize, nargs: usize) -> R<usize> {
    let level = it.opt_int(base, nargs, 1, 1)?;
    let msg = it.arg(base, nargs, 0);
    Err(raise_error(it, msg, level))
}

fn b_pcall(it: &mut Interp, base: usize, nargs: usize) -> R<usize> {
    it.check_any(base, nargs, 0)?;
    let f = it.stack[base];
    let nframes = it.frames.len();
    let (ld, cd) = (it.lua_depth, it.c_depth);
    // args are already in place after the function slot
    match it.call(f, base + 1, nargs - 1) {
        Ok(n) => {
            it.stack[base] = Value::Bool(true);
            Ok(n + 1)
        }
        Err(Ctl::Error(v)) => {
            it.frames.truncate(nframes);
            it.lua_depth = ld;
            it.c_depth = cd;
            it.pending_name = CallName::None;
            it.ret(base, &[Value::Bool(false), v])
        }
        Err(e) => Err(e),
    }
}

fn b_xpcall(it: &mut Interp, base: usize, nargs: usize) -> R<usize> {
    if nargs < 2 {
        return Err(it.type_error(base, nargs, 1, "function"));
    }
    let h = it.stack[base + 1];
    if !matches!(h, Value::Func(_) | Value::Builtin(_)) {
        return Err(it.type_error(base, nargs, 1, "function"));
    }
    let f = it.stack[base];
    let nframes = it.frames.len();
    let (ld, cd) = (it.lua_depth, it.c_depth);
    match it.call(f, base + 2, nargs - 2) {
        Ok(n) => {
            it.stack[base + 1] = Value::Bool(true);
            it.stack.remove(base);
            Ok(n + 1)
        }
        Err(Ctl::Error(v)) => {
            // real Lua runs the handler at the point of the error (before unwinding); we run it after
            it.frames.truncate(nframes);
            it.lua_depth = ld;
            it.c_depth = cd;
            it.pending_name = CallName::None;
            it.stack.truncate(base);
            let r = it.call1(h, &[v])?;
            it.ret(base, &[Value::Bool(false), r])
        }
        Err(e) => Err(e),
    }
}

fn b_select(it: &mut Interp, base: usize, nargs: usize) -> R<usize> {
    let n = nargs as i64;
    if let Value::Str(s) = it.arg(base, nargs, 0) {
        if it.str_bytes(s).first() == Some(&b'#') {
            return it.ret1(base, Value::Int(n - 1));
        }
    }
    let mut i = it.check_int(base, nargs, 0)?;
    if i < 0 {
        i += n;
    } else if i > n {
        i = n;
    }
    if i < 1 {
        return Err(it.arg_error(1, "index out of range"));
    }
    let cnt = (n - i) as usize;
    let start = base + i as usize;
    it.stack.copy_within(start..start + cnt, base);
    it.stack.truncate(base + cnt);
    Ok(cnt)
}

fn b_type(it: &mut Interp, base: usize, nargs: usize) -> R<usize> {
    it.check_any(base, nargs, 0)?;
    let id = match it.stack[base] {
        Value::Nil => sid::NIL,
        Value::Bool(_) => sid::BOOLEAN,
        Value::Int(_) | Value::Float(_) => sid::NUMBER,
        Value::Str(_) => sid::STRING,
        Value::Table(_) => sid::TABLE,
        _ => sid::FUNCTION,
    };
    it.ret1(base, Value::Str(id))
}

fn b_tostring(it: &mut Interp, base: usize, nargs: usize) -> R<usize> {
    it.check_any(base, nargs, 0)?;
    let v = it.stack[base];
    let s = it.tostring_value(v)?;
    it.ret1(base, s)
}

fn b_tonumber(it: &mut Interp, base: usize, nargs: usize) -> R<usize> {
    if it.arg(base, nargs, 1).is_nil() {
        it.check_any(base, nargs, 0)?;
        let v = it.stack[base];
        let r = match v {
            Value::Int(_) | Value::Float(_) => v,
            Value::Str(s) => match str2number(it.str_bytes(s)) {
                Some(Num::Int(i)) => Value::Int(i),
                Some(Num::Float(f)) => Value::Float(f),
                None => Value::Nil,
            },
            _ => Value::Nil,
        };
        return it.ret1(base, r);
    }
    let b = it.check_int(base, nargs, 1)?;
    let s = match it.arg(base, nargs, 0) {
        Value::Str(s) => s,
        _ => return Err(it.type_error(base, nargs, 0, "string")),
    };
    if !(2..=36).contains(&b) {
        return Err(it.arg_error(2, "base out of range"));
    }
    let bytes = it.str_bytes(s);
    let ws = |c: u8| matches!(c, b' ' | b'\t' | b'\n' | b'\r' | 0x0b | 0x0c);
    let mut i = 0;
    while i < bytes.len() && ws(bytes[i]) {
        i += 1;
    }
    let mut neg = false;
    if i < bytes.len() && bytes[i] == b'-' {
        neg = true;
        i += 1;
    } else if i < bytes.len() && bytes[i] == b'+' {
        i += 1;
    }
    let mut acc: u64 = 0;
    let mut any = false;
    while i < bytes.len() && bytes[i].is_ascii_alphanumeric() {
        let d = if bytes[i].is_ascii_digit() { bytes[i] - b'0' } else { bytes[i].to_ascii_uppercase() - b'A' + 10 } as i64;
        if d >= b {
            any = false;
            break;
        }
        acc = acc.wrapping_mul(b as u64).wrapping_add(d as u64);
        any = true;
        i += 1;
    }
    if any {
        while i < bytes.len() && ws(bytes[i]) {
            i += 1;
        }
    }
    let r = if any && i == bytes.len() {
        Value::Int(if neg { (0u64.wrapping_sub(acc)) as i64 } else { acc as i64 })
    } else {
        Value::Nil
    };
    it.ret1(base, r)
}

fn b_rawget(it: &mut Interp, base: usize, nargs: usize) -> R<usize> {
    let t = it.check_table(base, nargs, 0)?;
    it.check_any(base, nargs, 1)?;
    let k = it.stack[base + 1];
    let v = match k {
        Value::Nil => Value::Nil,
        _ => match normalize_key(k) {
            Some(k) => it.tables[t as usize].get(&k),
            None => Value::Nil,
        },
    };
    it.ret1(base, v)
}

fn b_rawset(it: &mut Interp, base: usize, nargs: usize) -> R<usize> {
    let t = it.check_table(base, nargs, 0)?;
    it.check_any(base, nargs, 1)?;
    it.check_any(base, nargs, 2)?;
    let k = it.stack[base + 1];
    let v = it.stack[base + 2];
    match k {
        Value::Nil => return Err(it.lib_error("table index is nil")),
        _ => match normalize_key(k) {
            Some(k) => it.tables[t as usize].set(k, v),
            None => return Err(it.lib_error("table index is NaN")),
        },
    }
    it.ret1(base, Value::Table(t))
}

fn b_rawequal(it: &mut Interp, base: usize, nargs: usize) -> R<usize> {
    it.check_any(base, nargs, 0)?;
    it.check_any(base, nargs, 1)?;
    let r = raw_equal(&it.stack[base], &it.stack[base + 1]);
    it.ret1(base, Value::Bool(r))
}

fn b_rawlen(it: &mut Interp, base: usize, nargs: usize) -> R<usize> {
    let r = match it.arg(base, nargs, 0) {
        Value::Table(t) => it.tables[t as usize].len(),
        Value::Str(s) => it.str_bytes(s).len() as i64,
        _ => return Err(it.arg_error(1, "table or string expected")),
    };
    it.ret1(base, Value::Int(r))
}

fn b_next(it: &mut Interp, base: usize, nargs: usize) -> R<usize> {
    let t = it.check_table(base, nargs, 0)?;
    let k = it.arg(base, nargs, 1);
    let k = match k {
        Value::Float(_) => normalize_key(k).unwrap_or(k),
        _ => k,
    };
    match it.tables[t as usize].next(&k) {
        Ok(Some((k, v))) => it.ret(base, &[k, v]),
        Ok(None) => it.ret1(base, Value::Nil),
        Err(()) => Err(it.err_val("invalid key to 'next'".to_string())),
    }
}

fn b_pairs(it: &mut Interp, base: usize, nargs: usize) -> R<usize> {
    it.check_any(base, nargs, 0)?;
    let v = it.stack[base];
    let tm = it.metamethod(&v, sid::PAIRS);
    if tm.is_nil() {
        let nx = Value::Builtin(it.next_builtin);
        return it.ret(base, &[nx, v, Value::Nil]);
    }
    it.stack.truncate(base);
    let n = it.call_values(tm, &[v])?;
    // adjust to 3 results
    it.stack.resize(base + 3, Value::Nil);
    let _ = n;
    Ok(3)
}

fn b_ipairs(it: &mut Interp, base: usize, nargs: usize) -> R<usize> {
    it.check_any(base, nargs, 0)?;
    let v = it.stack[base];
    let iter = Value::Builtin(builtin_id("ipairs_iter"));
    it.ret(base, &[iter, v, Value::Int(0)])
}

fn b_ipairs_iter(it: &mut Interp, base: usize, nargs: usize) -> R<usize> {
    let i = it.check_int(base, nargs, 1)?.wrapping_add(1);
    let t = it.arg(base, nargs, 0);
    let v = it.lib_geti(t, i)?;
    if v.is_nil() {
        it.ret1(base, Value::Nil)
    } else {
        it.ret(base, &[Value::Int(i), v])
    }
}

fn b_print(it: &mut Interp, base: usize, nargs: usize) -> R<usize> {
    // print calls the *global* tostring
    let ts = it.tables[it.globals as usize].get_str(sid::TOSTRING_FN);
    let direct = matches!(ts, Value::Builtin(b) if b == it.tostring_builtin);
    for i in 0..nargs {
        let v = it.stack[base + i];
        let s = if direct {
            it.tostring_value(v)?
        } else {
            let r = it.call1(ts, &[v])?;
            match r {
                Value::Str(_) => r,
                Value::Int(_) | Value::Float(_) => {
                    let b = it.concat_piece(&r).unwrap_or_default();
                    it.new_str_vec(b)?
                }
                _ => return Err(it.lib_error("'tostring' must return a string to 'print'")),
            }
        };
        if i > 0 {
            it.out.push(b'\t');
        }
        if let Value::Str(id) = s {
            it.out.extend_from_slice(it.strings.get(id));
        }
    }
    it.out.push(b'\n');
    if it.out.len() > it.max_string_bytes {
        return Err(Ctl::Budget("memory"));
    }
    it.stack.truncate(base);
    Ok(0)
}

fn b_require(it: &mut Interp, base: usize, nargs: usize) -> R<usize> {
    let s = it.check_str(base, nargs, 0)?;
    let name = it.lossy(s);
    Err(it.lib_error(&format!(
        "module '{}' not found:\n\tno field package.preload['{}']\n\tno file '{}.lua' (minilua has no file system)",
        name, name, name
    )))
}

fn b_collectgarbage(it: &mut Interp, base: usize, _nargs: usize) -> R<usize> {
    it.ret1(base, Value::Int(0))
}

fn b_setmetatable(it: &mut Interp, base: usize, nargs: usize) -> R<usize> {
    let t = it.check_table(base, nargs, 0)?;
    let m = it.arg(base, nargs, 1);
    let mid = match m {
        Value::Nil if nargs >= 2 => NO_META,
        Value::Table(m) => m,
        _ => return Err(it.arg_error(2, "nil or table expected")),
    };
    let old = it.tables[t as usize].meta;
    if old != NO_META && !it.tables[old as usize].get_str(sid::METATABLE).is_nil() {
        return Err(it.lib_error("cannot change a protected metatable"));
    }
    it.tables[t as usize].meta = mid;
    it.ret1(base, Value::Table(t))
}

fn b_getmetatable(it: &mut Interp, base: usize, nargs: usize) -> R<usize> {
    it.check_any(base, nargs, 0)?;
    let v = it.stack[base];
    let m = it.metatable_of(&v);
    if m == NO_META {
        return it.ret1(base, Value::Nil);
    }
    let prot = it.tables[m as usize].get_str(sid::METATABLE);
    if !prot.is_nil() {
        return it.ret1(base, prot);
    }
    it.ret1(base, Value::Table(m))
}

fn b_zero(it: &mut Interp, base: usize, _nargs: usize) -> R<usize> {
    it.ret1(base, Value::Int(0))
}

fn b_zero_float(it: &mut Interp, base: usize, _nargs: usize) -> R<usize> {
    it.ret1(base, Value::Float(0.0))
}

fn b_io_write(it: &mut Interp, base: usize, nargs: usize) -> R<usize> {
    // io.write(...) or file:write(...)
    let mut start = 0;
    let mut file = it.arg(base, nargs, 0);
    if let Value::Table(_) = file {
        start = 1;
    } else {
        let io = it.strings.intern(b"io");
        let iot = it.tables[it.globals as usize].get_str(io);
        file = Value::Nil;
        if let Value::Table(t) = iot {
            let k = it.strings.intern(b"stdout");
            file = it.tables[t as usize].get_str(k);
        }
    }
    for i in start..nargs {
        let v = it.stack[base + i];
        match v {
            Value::Str(_) | Value::Int(_) | Value::Float(_) => {
                let b = it.concat_piece(&v).unwrap_or_default();
                it.out.extend_from_slice(&b);
            }
            _ => return Err(it.type_error(base, nargs, i, "string")),
        }
    }
    if it.out.len() > it.max_string_bytes {
        return Err(Ctl::Budget("memory"));
    }
    it.ret1(base, file)
}

// ---------------------------------------------------------------------------------------------- table

fn t_insert(it: &mut Interp, base: usize, nargs: usize) -> R<usize> {
    let t = it.check_tab(base, nargs, 0, true)?;
    let e = it.lib_len(t)?.wrapping_add(1);
    let pos;
    match nargs {
        2 => pos = e,
        3 => {
            pos = it.check_int(base, nargs, 1)?;
            if !(1 <= pos && pos <= e) {
                return Err(it.arg_error(2, "position out of bounds"));
            }
            let mut i = e;
            while i > pos {
                let v = it.lib_geti(t, i - 1)?;
                it.lib_seti(t, i, v)?;
                i -= 1;
            }
        }
        _ => return Err(it.lib_error("wrong number of arguments to 'insert'")),
    }
    let v = it.stack[base + nargs - 1];
    it.lib_seti(t, pos, v)?;
    it.stack.truncate(base);
    Ok(0)
}

fn t_remove(it: &mut Interp, base: usize, nargs: usize) -> R<usize> {
    let t = it.check_tab(base, nargs, 0, true)?;
    let size = it.lib_len(t)?;
    let mut pos = it.opt_int(base, nargs, 1, size)?;
    if pos != size && !(1 <= pos && pos <= size.wrapping_add(1)) {
        return Err(it.arg_error(1, "position out of bounds"));
    }
    let r = it.lib_geti(t, pos)?;
    while pos < size {
        let v = it.lib_geti(t, pos + 1)?;
        it.lib_seti(t, pos, v)?;
        pos += 1;
    }
    it.lib_seti(t, pos, Value::Nil)?;
    it.ret1(base, r)
}

fn t_concat(it: &mut Interp, base: usize, nargs: usize) -> R<usize> {
    let t = it.check_tab(base, nargs, 0, false)?;
    let last = it.lib_len(t)?;
    let sep = if it.arg(base, nargs, 1).is_nil() { sid::EMPTY } else { it.check_str(base, nargs, 1)? };
    let i0 = it.opt_int(base, nargs, 2, 1)?;
    let j = it.opt_int(base, nargs, 3, last)?;
    let mut out: Vec<u8> = Vec::new();
    let mut i = i0;
    while i <= j {
        let v = it.lib_geti(t, i)?;
        match it.concat_piece(&v) {
            Some(b) => out.extend_from_slice(&b),
            None => {
                return Err(it.lib_error(&format!("invalid value (at index {}) in table for 'concat'", i)));
            }
        }
        if i < j {
            let s = it.str_bytes(sep).to_vec();
            out.extend_from_slice(&s);
        }
        if out.len() > it.max_string_bytes {
            return Err(Ctl::Budget("memory"));
        }
        if i == i64::MAX {
            break;
        }
        i += 1;
    }
    let s = it.new_str_vec(out)?;
    it.ret1(base, s)
}

fn t_unpack(it: &mut Interp, base: usize, nargs: usize) -> R<usize> {
    let t = it.arg(base, nargs, 0);
    let i = it.opt_int(base, nargs, 1, 1)?;
    let e = if it.arg(base, nargs, 2).is_nil() { it.lib_len(t)? } else { it.check_int(base, nargs, 2)? };
    if i > e {
        it.stack.truncate(base);
        return Ok(0);
    }
    let n = (e as u64).wrapping_sub(i as u64);
    if n >= 1_000_000 {
        return Err(it.lib_error("too many results to unpack"));
    }
    let mut vals = Vec::with_capacity(n as usize + 1);
    let mut k = i;
    loop {
        vals.push(it.lib_geti(t, k)?);
        if k == e {
            break;
        }
        k += 1;
    }
    it.ret(base, &vals)
}

fn t_pack(it: &mut Interp, base: usize, nargs: usize) -> R<usize> {
    let mut t = Table::with_capacity(nargs, 1);
    for i in 0..nargs {
        t.arr.push(it.stack[base + i]);
    }
    // trailing nils must not live in the array part as "present": arr may hold nils, that is fine
    t.set(Value::Str(sid::N), Value::Int(nargs as i64));
    let v = it.new_table(t)?;
    it.ret1(base, v)
}

fn t_move(it: &mut Interp, base: usize, nargs: usize) -> R<usize> {
    let a1 = it.check_tab(base, nargs, 0, false)?;
    let f = it.check_int(base, nargs, 1)?;
    let e = it.check_int(base, nargs, 2)?;
    let t = it.check_int(base, nargs, 3)?;
    let tt = if it.arg(base, nargs, 4).is_nil() { a1 } else { it.check_tab(base, nargs, 4, true)? };
    if e >= f {
        if !(f > 0 || e < i64::MAX.wrapping_add(f)) {
            return Err(it.arg_error(3, "too many elements to move"));
        }
        let n = e - f + 1;
        if t > i64::MAX - n + 1 {
            return Err(it.arg_error(4, "destination wrap around"));
        }
        let same = matches!((a1, tt), (Value::Table(x), Value::Table(y)) if x == y);
        if t > e || t <= f || !same {
            for i in 0..n {
                let v = it.lib_geti(a1, f + i)?;
                it.lib_seti(tt, t + i, v)?;
                if i & 1023 == 1023 {
                    it.step()?;
                }
            }
        } else {
            for i in (0..n).rev() {
                let v = it.lib_geti(a1, f + i)?;
                it.lib_seti(tt, t + i, v)?;
                if i & 1023 == 1023 {
                    it.step()?;
                }
            }
        }
    }
    it.ret1(base, tt)
}

struct Sorter {
    t: Value,
    cmp: Value,
}

impl Sorter {
    fn lt(&self, it: &mut Interp, a: Value, b: Value) -> R<bool> {
        if self.cmp.is_nil() {
            it.less_than(a, b, 0)
        } else {
            Ok(it.call1(self.cmp, &[a, b])?.truthy())
        }
    }

    fn set2(&self, it: &mut Interp, i: i64, j: i64, top: Value, below: Value) -> R<()> {
        // lua_seti(L, 1, i) pops the top; lua_seti(L, 1, j) pops the next
        it.lib_seti(self.t, i, top)?;
        it.lib_seti(self.t, j, below)
    }

    fn partition(&self, it: &mut Interp, lo: i64, up: i64, pivot: Value) -> R<i64> {
        let mut i = lo;
        let mut j = up - 1;
        loop {
            let mut ai;
            loop {
                i += 1;
                ai = it.lib_geti(self.t, i)?;
                if !self.lt(it, ai, pivot)? {
                    break;
                }
                if i == up - 1 {
                    return Err(it.lib_error("invalid order function for sorting"));
                }
            }
            let mut aj;
            loop {
                j -= 1;
                aj = it.lib_geti(self.t, j)?;
                if !self.lt(it, pivot, aj)? {
                    break;
                }
                if j < i {
                    return Err(it.lib_error("invalid order function for sorting"));
                }
            }
            if j < i {
                // swap pivot (a[up - 1]) with a[i]
                // stack: P, a[i]; set2(up-1, i): t[up-1] = a[i]; t[i] = P
                it.lib_seti(self.t, up - 1, ai)?;
                it.lib_seti(self.t, i, pivot)?;
                return Ok(i);
            }
            // set2(L, i, j): t[i] = a[j]; t[j] = a[i]
            self.set2(it, i, j, aj, ai)?;
        }
    }

    fn auxsort(&self, it: &mut Interp, mut lo: i64, mut up: i64) -> R<()> {
        while lo < up {
            it.step()?;
            let a_lo = it.lib_geti(self.t, lo)?;
            let a_up = it.lib_geti(self.t, up)?;
            if self.lt(it, a_up, a_lo)? {
                self.set2(it, lo, up, a_up, a_lo)?;
            }
            if up - lo == 1 {
                break;
            }
            let p = lo + (up - lo) / 2;
            let a_p = it.lib_geti(self.t, p)?;
            let a_lo = it.lib_geti(self.t, lo)?;
            if self.lt(it, a_p, a_lo)? {
                self.set2(it, p, lo, a_lo, a_p)?;
            } else {
                let a_up = it.lib_geti(self.t, up)?;
                if self.lt(it, a_up, a_p)? {
                    self.set2(it, p, up, a_up, a_p)?;
                }
            }
            if up - lo == 2 {
                break;
            }
            let pivot = it.lib_geti(self.t, p)?;
            let a_up1 = it.lib_geti(self.t, up - 1)?;
            // set2(L, p, up - 1): t[p] = a[up-1]; t[up-1] = pivot
            self.set2(it, p, up - 1, a_up1, pivot)?;
            let p = self.partition(it, lo, up, pivot)?;
            if p - lo < up - p {
                self.auxsort(it, lo, p - 1)?;
                lo = p + 1;
            } else {
                self.auxsort(it, p + 1, up)?;
                up = p - 1;
            }
        }
        Ok(())
    }
}

fn t_sort(it: &mut Interp, base: usize, nargs: usize) -> R<usize> {
    let t = it.check_tab(base, nargs, 0, true)?;
    let n = it.lib_len(t)?;
    if n > 1 {
        if n >= i32::MAX as i64 {
            return Err(it.arg_error(1, "array too big"));
        }
        let cmp = it.arg(base, nargs, 1);
        if nargs >= 2 && !cmp.is_nil() && !matches!(cmp, Value::Func(_) | Value::Builtin(_)) {
            return Err(it.type_error(base, nargs, 1, "function"));
        }
        let s = Sorter { t, cmp };
        s.auxsort(it, 1, n)?;
    }
    it.stack.truncate(base);
    Ok(0)
}

// ---------------------------------------------------------------------------------------------- math

fn push_numint(it: &mut Interp, base: usize, d: f64) -> R<usize> {
    match float_to_int_exact(d) {
        Some(i) => it.ret1(base, Value::Int(i)),
        None => it.ret1(base, Value::Float(d)),
    }
}

fn m_floor(it: &mut Interp, base: usize, nargs: usize) -> R<usize> {
    if let Value::Int(i) = it.arg(base, nargs, 0) {
        return it.ret1(base, Value::Int(i));
    }
    let d = it.check_num(base, nargs, 0)?.floor();
    push_numint(it, base, d)
}

fn m_ceil(it: &mut Interp, base: usize, nargs: usize) -> R<usize> {
    if let Value::Int(i) = it.arg(base, nargs, 0) {
        return it.ret1(base, Value::Int(i));
    }
    let d = it.check_num(base, nargs, 0)?.ceil();
    push_numint(it, base, d)
}

fn m_abs(it: &mut Interp, base: usize, nargs: usize) -> R<usize> {
    if let Value::Int(i) = it.arg(base, nargs, 0) {
        return it.ret1(base, Value::Int(if i < 0 { i.wrapping_neg() } else { i }));
    }
    let d = it.check_num(base, nargs, 0)?;
    it.ret1(base, Value::Float(d.abs()))
}

fn unary_float(it: &mut Interp, base: usize, nargs: usize, f: fn(f64) -> f64) -> R<usize> {
    let d = it.check_num(base, nargs, 0)?;
    let r = f(d);
    let r = nan_fix(d, d, r);
    it.ret1(base, Value::Float(r))
}

fn m_sqrt(it: &mut Interp, base: usize, nargs: usize) -> R<usize> {
    unary_float(it, base, nargs, f64::sqrt)
}
fn m_sin(it: &mut Interp, base: usize, nargs: usize) -> R<usize> {
    unary_float(it, base, nargs, f64::sin)
}
fn m_cos(it: &mut Interp, base: usize, nargs: usize) -> R<usize> {
    unary_float(it, base, nargs, f64::cos)
}
fn m_tan(it: &mut Interp, base: usize, nargs: usize) -> R<usize> {
    unary_float(it, base, nargs, f64::tan)
}
fn m_asin(it: &mut Interp, base: usize, nargs: usize) -> R<usize> {
    unary_float(it, base, nargs, f64::asin)
}
fn m_acos(it: &mut Interp, base: usize, nargs: usize) -> R<usize> {
    unary_float(it, base, nargs, f64::acos)
}
fn m_exp(it: &mut Interp, base: usize, nargs: usize) -> R<usize> {
    unary_float(it, base, nargs, f64::exp)
}

fn m_pow(it: &mut Interp, base: usize, nargs: usize) -> R<usize> {
    let x = it.check_num(base, nargs, 0)?;
    let y = it.check_num(base, nargs, 1)?;
    it.ret1(base, Value::Float(nan_fix(x, y, x.powf(y))))
}
fn m_cosh(it: &mut Interp, base: usize, nargs: usize) -> R<usize> {
    unary_float(it, base, nargs, f64::cosh)
}
fn m_sinh(it: &mut Interp, base: usize, nargs: usize) -> R<usize> {
    unary_float(it, base, nargs, f64::sinh)
}
fn m_tanh(it: &mut Interp, base: usize, nargs: usize) -> R<usize> {
    unary_float(it, base, nargs, f64::tanh)
}
fn m_log10(it: &mut Interp, base: usize, nargs: usize) -> R<usize> {
    unary_float(it, base, nargs, f64::log10)
}
fn m_frexp(it: &mut Interp, base: usize, nargs: usize) -> R<usize> {
    let x = it.check_num(base, nargs, 0)?;
    if x == 0.0 || x.is_nan() || x.is_infinite() {
        return it.ret(base, &[Value::Float(x), Value::Int(0)]);
    }
    let bits = x.to_bits();
    let mut e = ((bits >> 52) & 0x7ff) as i64;
    let mut m = x;
    if e == 0 {
        // subnormal: scale up
        m *= 2f64.powi(64);
        e = ((m.to_bits() >> 52) & 0x7ff) as i64 - 64;
    }
    let mb = (m.to_bits() & !(0x7ffu64 << 52)) | (1022u64 << 52);
    it.ret(base, &[Value::Float(f64::from_bits(mb)), Value::Int(e - 1022)])
}
fn m_ldexp(it: &mut Interp, base: usize, nargs: usize) -> R<usize> {
    let x = it.check_num(base, nargs, 0)?;
    let e = it.check_int(base, nargs, 1)?.clamp(-5000, 5000) as i32;
    let mut r = x;
    let mut e = e;
    while e > 1000 {
        r *= 2f64.powi(1000);
        e -= 1000;
    }
    while e < -1000 {
        r *= 2f64.powi(-1000);
        e += 1000;
    }
    it.ret1(base, Value::Float(r * 2f64.powi(e)))
}

fn m_atan(it: &mut Interp, base: usize, nargs: usize) -> R<usize> {
    let y = it.check_num(base, nargs, 0)?;
    let x = if it.arg(base, nargs, 1).is_nil() { 1.0 } else { it.check_num(base, nargs, 1)? };
    it.ret1(base, Value::Float(y.atan2(x)))
}

fn m_log(it: &mut Interp, base: usize, nargs: usize) -> R<usize> {
    let x = it.check_num(base, nargs, 0)?;
    let r = if it.arg(base, nargs, 1).is_nil() {
        x.ln()
    } else {
        let b = it.check_num(base, nargs, 1)?;
        if b == 2.0 {
            x.log2()
        } else if b == 10.0 {
            x.log10()
        } else {
            x.ln() / b.ln()
        }
    };
    it.ret1(base, Value::Float(nan_fix(x, x, r)))
}

fn m_fmod(it: &mut Interp, base: usize, nargs: usize) -> R<usize> {
    if let (Value::Int(a), Value::Int(d)) = (it.arg(base, nargs, 0), it.arg(base, nargs, 1)) {
        if (d as u64).wrapping_add(1) <= 1 {
            if d == 0 {
                return Err(it.arg_error(2, "zero"));
            }
            return it.ret1(base, Value::Int(0));
        }
        return it.ret1(base, Value::Int(a % d));
    }
    let a = it.check_num(base, nargs, 0)?;
    let b = it.check_num(base, nargs, 1)?;
    it.ret1(base, Value::Float(nan_fix(a, b, a % b)))
}

fn m_modf(it: &mut Interp, base: usize, nargs: usize) -> R<usize> {
    if let Value::Int(i) = it.arg(base, nargs, 0) {
        return it.ret(base, &[Value::Int(i), Value::Float(0.0)]);
    }
    let n = it.check_num(base, nargs, 0)?;
    let ip = if n < 0.0 { n.ceil() } else { n.floor() };
    let fp = if n == ip { 0.0 } else { n - ip };
    it.ret(base, &[Value::Float(ip), Value::Float(fp)])
}

fn m_tointeger(it: &mut Interp, base: usize, nargs: usize) -> R<usize> {
    let v = it.arg(base, nargs, 0);
    match it.to_integer(&v) {
        Some(i) => it.ret1(base, Value::Int(i)),
        None => {
            it.check_any(base, nargs, 0)?;
            it.ret1(base, Value::Nil)
        }
    }
}

fn m_type(it: &mut Interp, base: usize, nargs: usize) -> R<usize> {
    it.check_any(base, nargs, 0)?;
    let r = match it.stack[base] {
        Value::Int(_) => Value::Str(sid::INTEGER),
        Value::Float(_) => Value::Str(sid::FLOAT),
        _ => Value::Nil,
    };
    it.ret1(base, r)
}

fn m_ult(it: &mut Interp, base: usize, nargs: usize) -> R<usize> {
    let a = it.check_int(base, nargs, 0)?;
    let b = it.check_int(base, nargs, 1)?;
    it.ret1(base, Value::Bool((a as u64) < (b as u64)))
}

fn m_min(it: &mut Interp, base: usize, nargs: usize) -> R<usize> {
    let mut best = it.check_number_value(base, nargs, 0)?;
    for i in 1..nargs {
        let v = it.check_number_value(base, nargs, i)?;
        if it.less_than(v, best, 0)? {
            best = v;
        }
    }
    it.ret1(base, best)
}

fn m_max(it: &mut Interp, base: usize, nargs: usize) -> R<usize> {
    let mut best = it.check_number_value(base, nargs, 0)?;
    for i in 1..nargs {
        let v = it.check_number_value(base, nargs, i)?;
        if it.less_than(best, v, 0)? {
            best = v;
        }
    }
    it.ret1(base, best)
}

fn next_rand(it: &mut Interp) -> u64 {
    // xorshift64*
    let mut x = it.rng;
    x ^= x >> 12;
    x ^= x << 25;
    x ^= x >> 27;
    it.rng = x;
    x.wrapping_mul(0x2545F4914F6CDD1D)
}

fn m_random(it: &mut Interp, base: usize, nargs: usize) -> R<usize> {
    let r = (next_rand(it) >> 11) as f64 * (1.0 / 9007199254740992.0);
    let (low, up) = match nargs {
        0 => return it.ret1(base, Value::Float(r)),
        1 => (1, it.check_int(base, nargs, 0)?),
        2 => (it.check_int(base, nargs, 0)?, it.check_int(base, nargs, 1)?),
        _ => return Err(it.lib_error("wrong number of arguments")),
    };
    if low > up {
        return Err(it.arg_error(2, "interval is empty"));
    }
    if !(low >= 0 || up <= i64::MAX.wrapping_add(low)) {
        return Err(it.arg_error(2, "interval too large"));
    }
    let d = r * ((up.wrapping_sub(low)) as f64 + 1.0);
    it.ret1(base, Value::Int((d as i64).wrapping_add(low)))
}

fn m_randomseed(it: &mut Interp, base: usize, nargs: usize) -> R<usize> {
    let n = it.check_num(base, nargs, 0)?;
    let s = (n as i64 as u64) ^ n.to_bits();
    it.rng = s.wrapping_mul(0x9E3779B97F4A7C15) | 1;
    it.stack.truncate(base);
    Ok(0)
}

#[allow(dead_code)]
pub fn type_name_static(v: &Value) -> &'static str {
    type_name(v)
}
