//! Number <-> text conversions with C / Lua 5.3 semantics.
//!
//! * `fmt_g`, `fmt_e`, `fmt_f`: the C printf conversions `%g %e %f` (std Rust has none of them).
//! * `num_to_str_float` / `int_to_str`: `lua_Number2str` (`%.14g` + ".0" rule) and `%d`.
//! * `str2number`: `luaO_str2num` (l_str2int then l_str2d), incl. hex integers / hex floats.

/// Flags of a printf conversion specification.
#[derive(Clone, Copy, Default, Debug)]
pub struct Spec {
    pub minus: bool,
    pub plus: bool,
    pub space: bool,
    pub alt: bool,
    pub zero: bool,
    pub width: usize,
    pub prec: Option<usize>,
}

/// digits (without dot) and decimal exponent of |x| rounded to `ndig` significant digits.
/// x must be finite. Returns (digits as ASCII, exponent of first digit).
fn sci_digits(x: f64, ndig: usize) -> (Vec<u8>, i32) {
    debug_assert!(ndig >= 1);
    let s = format!("{:.*e}", ndig - 1, x.abs());
    // s looks like "d.ddddde-7" or "de5"
    let (mant, exp) = match s.find('e') {
        Some(p) => (&s[..p], &s[p + 1..]),
        None => (&s[..], "0"),
    };
    let digits: Vec<u8> = mant.bytes().filter(|b| b.is_ascii_digit()).collect();
    let e: i32 = exp.parse().unwrap_or(0);
    (digits, e)
}

fn nonfinite(x: f64, upper: bool) -> Option<&'static str> {
    if x.is_nan() {
        Some(if upper { "NAN" } else { "nan" })
    } else if x.is_infinite() {
        Some(if upper { "INF" } else { "inf" })
    } else {
        None
    }
}

fn sign_str(neg: bool, spec: &Spec) -> &'static str {
    if neg {
        "-"
    } else if spec.plus {
        "+"
    } else if spec.space {
        " "
    } else {
        ""
    }
}

/// Apply width / '-' / '0' padding. `sign` is the sign/prefix part, `body` the rest.
pub fn pad(sign: &[u8], body: &[u8], spec: &Spec, allow_zero: bool) -> Vec<u8> {
    let len = sign.len() + body.len();
    let mut out = Vec::with_capacity(len.max(spec.width));
    if len >= spec.width {
        out.extend_from_slice(sign);
        out.extend_from_slice(body);
    } else if spec.minus {
        out.extend_from_slice(sign);
        out.extend_from_slice(body);
        out.resize(spec.width, b' ');
    } else if spec.zero && allow_zero {
        out.extend_from_slice(sign);
        out.resize(sign.len() + (spec.width - len), b'0');
        out.extend_from_slice(body);
    } else {
        out.resize(spec.width - len, b' ');
        out.extend_from_slice(sign);
        out.extend_from_slice(body);
    }
    out
}

fn exp_suffix(e: i32, upper: bool) -> String {
    let c = if upper { 'E' } else { 'e' };
    let s = if e < 0 { '-' } else { '+' };
    format!("{}{}{:02}", c, s, e.abs())
}

fn body_e(x: f64, prec: usize, alt: bool, upper: bool) -> String {
    let (d, e) = sci_digits(x, prec + 1);
    let mut s = String::new();
    s.push(d[0] as char);
    if prec > 0 || alt {
        s.push('.');
    }
    for &b in &d[1..] {
        s.push(b as char);
    }
    s.push_str(&exp_suffix(e, upper));
    s
}

fn body_f(x: f64, prec: usize, alt: bool) -> String {
    let mut s = format!("{:.*}", prec, x.abs());
    if prec == 0 && alt {
        s.push('.');
    }
    s
}

fn strip_zeros(s: &mut String) {
    if s.contains('.') {
        while s.ends_with('0') {
            s.pop();
        }
        if s.ends_with('.') {
            s.pop();
        }
    }
}

fn body_g(x: f64, prec: Option<usize>, alt: bool, upper: bool) -> String {
    let mut p = prec.unwrap_or(6);
    if p == 0 {
        p = 1;
    }
    if x == 0.0 {
        let mut s = String::from("0");
        if alt {
            s.push('.');
            for _ in 1..p {
                s.push('0');
            }
        }
        return s;
    }
    let (d, e) = sci_digits(x, p);
    if e < -4 || e >= p as i32 {
        // %e style with p-1 digits
        let mut s = String::new();
        s.push(d[0] as char);
        let mut frac: String = d[1..].iter().map(|&b| b as char).collect();
        if !alt {
            while frac.ends_with('0') {
                frac.pop();
            }
        }
        if !frac.is_empty() || alt {
            s.push('.');
            s.push_str(&frac);
        }
        s.push_str(&exp_suffix(e, upper));
        s
    } else {
        let fprec = (p as i32 - 1 - e) as usize;
        let mut s = format!("{:.*}", fprec, x.abs());
        if alt {
            if fprec == 0 {
                s.push('.');
            }
        } else {
            strip_zeros(&mut s);
        }
        s
    }
}

/// `conv` is one of e E f F g G.
pub fn fmt_float(x: f64, conv: u8, spec: &Spec) -> Vec<u8> {
    let upper = conv.is_ascii_uppercase();
    let neg = x.is_sign_negative();
    let sign = sign_str(neg, spec);
    if let Some(nf) = nonfinite(x, upper) {
        return pad(sign.as_bytes(), nf.as_bytes(), spec, false);
    }
    let body = match conv {
        b'e' | b'E' => body_e(x, spec.prec.unwrap_or(6), spec.alt, upper),
        b'f' | b'F' => body_f(x, spec.prec.unwrap_or(6), spec.alt),
        _ => body_g(x, spec.prec, spec.alt, upper),
    };
    pad(sign.as_bytes(), body.as_bytes(), spec, true)
}

/// `%a`-style hexadecimal float (glibc layout), used by `string.format('%a')`.
pub fn fmt_hexfloat(x: f64, upper: bool, spec: &Spec) -> Vec<u8> {
    let neg = x.is_sign_negative();
    let sign = sign_str(neg, spec);
    if let Some(nf) = nonfinite(x, upper) {
        return pad(sign.as_bytes(), nf.as_bytes(), spec, false);
    }
    let bits = x.abs().to_bits();
    let mut exp = ((bits >> 52) & 0x7ff) as i32;
    let mut mant = bits & 0x000f_ffff_ffff_ffff;
    let lead;
    if exp == 0 {
        if mant == 0 {
            lead = 0;
            exp = 0;
        } else {
            lead = 0;
            exp = -1022;
        }
    } else {
        lead = 1;
        exp -= 1023;
    }
    let mut hex = format!("{:013x}", mant);
    if let Some(p) = spec.prec {
        if p < 13 {
            // round to p hex digits (half to even)
            let shift = (13 - p) * 4;
            let full = ((lead as u64) << 52) | mant;
            let rem = full & ((1u64 << shift) - 1);
            let mut q = full >> shift;
            let half = 1u64 << (shift - 1);
            if rem > half || (rem == half && (q & 1) == 1) {
                q += 1;
            }
            let l = q >> (p * 4);
            mant = q & if p == 0 { 0 } else { (1u64 << (p * 4)) - 1 };
            hex = if p == 0 { String::new() } else { format!("{:0width$x}", mant, width = p) };
            let mut s = format!("0x{}", l);
            if p > 0 || spec.alt {
                s.push('.');
            }
            s.push_str(&hex);
            s.push_str(&format!("p{}{}", if exp < 0 { '-' } else { '+' }, exp.abs()));
            if upper {
                s = s.to_uppercase();
            }
            return pad(sign.as_bytes(), s.as_bytes(), spec, true);
        } else {
            while hex.len() < p {
                hex.push('0');
            }
        }
    } else {
        while hex.ends_with('0') {
            hex.pop();
        }
    }
    let mut s = format!("0x{}", lead);
    if !hex.is_empty() || spec.alt {
        s.push('.');
    }
    s.push_str(&hex);
    s.push_str(&format!("p{}{}", if exp < 0 { '-' } else { '+' }, exp.abs()));
    if upper {
        s = s.to_uppercase();
    }
    pad(sign.as_bytes(), s.as_bytes(), spec, true)
}

/// lua_Number2str + the "looks like an int" rule of `tostringbuff` (lobject.c).
pub fn float_to_str(x: f64) -> Vec<u8> {
    if x.is_nan() {
        return if x.is_sign_negative() { b"-nan".to_vec() } else { b"nan".to_vec() };
    }
    if x.is_infinite() {
        return if x < 0.0 { b"-inf".to_vec() } else { b"inf".to_vec() };
    }
    let spec = Spec { prec: Some(14), ..Spec::default() };
    let mut s = fmt_float(x, b'g', &spec);
    if s.iter().all(|&b| b.is_ascii_digit() || b == b'-') {
        s.extend_from_slice(b".0");
    }
    s
}

pub fn int_to_str(i: i64) -> Vec<u8> {
    i.to_string().into_bytes()
}

/// Result of converting a numeral.
#[derive(Clone, Copy, Debug, PartialEq)]
pub enum Num {
    Int(i64),
    Float(f64),
}

fn is_space(b: u8) -> bool {
    matches!(b, b' ' | b'\t' | b'\n' | b'\r' | 0x0b | 0x0c)
}

fn hexval(b: u8) -> Option<u32> {
    match b {
        b'0'..=b'9' => Some((b - b'0') as u32),
        b'a'..=b'f' => Some((b - b'a' + 10) as u32),
        b'A'..=b'F' => Some((b - b'A' + 10) as u32),
        _ => None,
    }
}

/// l_str2int
fn str2int(s: &[u8]) -> Option<i64> {
    let mut i = 0;
    let n = s.len();
    while i < n && is_space(s[i]) {
        i += 1;
    }
    let mut neg = false;
    if i < n && s[i] == b'-' {
        neg = true;
        i += 1;
    } else if i < n && s[i] == b'+' {
        i += 1;
    }
    let mut a: u64 = 0;
    let mut empty = true;
    if i + 1 < n && s[i] == b'0' && (s[i + 1] == b'x' || s[i + 1] == b'X') {
        i += 2;
        while i < n {
            match hexval(s[i]) {
                Some(v) => {
                    a = a.wrapping_mul(16).wrapping_add(v as u64);
                    empty = false;
                    i += 1;
                }
                None => break,
            }
        }
    } else {
        while i < n && s[i].is_ascii_digit() {
            let d = (s[i] - b'0') as u64;
            // MAXBY10 check: overflow -> not an integer (will be read as float)
            const MAXBY10: u64 = (i64::MAX as u64) / 10;
            const MAXLASTD: u64 = (i64::MAX as u64) % 10;
            if a > MAXBY10 || (a == MAXBY10 && d > MAXLASTD + neg as u64) {
                return None;
            }
            a = a * 10 + d;
            empty = false;
            i += 1;
        }
    }
    while i < n && is_space(s[i]) {
        i += 1;
    }
    if empty || i != n {
        return None;
    }
    let v = if neg { (0u64).wrapping_sub(a) } else { a };
    Some(v as i64)
}

fn ldexp(m: f64, e: i32) -> f64 {
    // careful two-step scaling to avoid premature overflow / underflow
    let mut r = m;
    let mut e = e;
    while e > 1000 {
        r *= 2f64.powi(1000);
        e -= 1000;
        if r.is_infinite() {
            return r;
        }
    }
    while e < -1000 {
        r *= 2f64.powi(-1000);
        e += 1000;
        if r == 0.0 {
            return r;
        }
    }
    r * 2f64.powi(e)
}

/// strtod-like parse of the *whole* slice (after trimming whitespace). Decimal or hex float.
fn str2d(s: &[u8]) -> Option<f64> {
    if s.iter().any(|&b| b == b'n' || b == b'N') {
        return None; // reject 'inf' and 'nan'
    }
    let mut i = 0;
    let n = s.len();
    while i < n && is_space(s[i]) {
        i += 1;
    }
    let mut j = n;
    while j > i && is_space(s[j - 1]) {
        j -= 1;
    }
    let t = &s[i..j];
    if t.is_empty() {
        return None;
    }
    let mut k = 0;
    let mut neg = false;
    if t[k] == b'-' {
        neg = true;
        k += 1;
    } else if t[k] == b'+' {
        k += 1;
    }
    let r = &t[k..];
    let v = if r.len() >= 2 && r[0] == b'0' && (r[1] == b'x' || r[1] == b'X') {
        hexfloat(&r[2..])?
    } else {
        decfloat(r)?
    };
    Some(if neg { -v } else { v })
}

fn decfloat(r: &[u8]) -> Option<f64> {
    // digits [. digits] [e [sign] digits], at least one mantissa digit
    let n = r.len();
    let mut i = 0;
    let mut nd = 0;
    while i < n && r[i].is_ascii_digit() {
        i += 1;
        nd += 1;
    }
    let int_end = i;
    let mut frac: &[u8] = &[];
    if i < n && r[i] == b'.' {
        i += 1;
        let fs = i;
        while i < n && r[i].is_ascii_digit() {
            i += 1;
            nd += 1;
        }
        frac = &r[fs..i];
    }
    if nd == 0 {
        return None;
    }
    let mut exp: &[u8] = &[];
    if i < n && (r[i] == b'e' || r[i] == b'E') {
        let es = i + 1;
        let mut k = es;
        if k < n && (r[k] == b'+' || r[k] == b'-') {
            k += 1;
        }
        let ds = k;
        while k < n && r[k].is_ascii_digit() {
            k += 1;
        }
        if k == ds {
            return None;
        }
        exp = &r[es..k];
        i = k;
    }
    if i != n {
        return None;
    }
    let mut txt = String::with_capacity(n + 4);
    if int_end == 0 {
        txt.push('0');
    } else {
        txt.push_str(std::str::from_utf8(&r[..int_end]).ok()?);
    }
    txt.push('.');
    if frac.is_empty() {
        txt.push('0');
    } else {
        txt.push_str(std::str::from_utf8(frac).ok()?);
    }
    if !exp.is_empty() {
        txt.push('e');
        // clamp absurd exponents so that Rust's parser does not reject them
        let es = std::str::from_utf8(exp).ok()?;
        let (sg, digs) = if let Some(d) = es.strip_prefix('-') {
            ("-", d)
        } else if let Some(d) = es.strip_prefix('+') {
            ("", d)
        } else {
            ("", es)
        };
        let digs = digs.trim_start_matches('0');
        txt.push_str(sg);
        if digs.len() > 6 {
            txt.push_str("999999");
        } else if digs.is_empty() {
            txt.push('0');
        } else {
            txt.push_str(digs);
        }
    }
    txt.parse::<f64>().ok()
}

fn hexfloat(r: &[u8]) -> Option<f64> {
    let n = r.len();
    let mut i = 0;
    let mut mant: u64 = 0;
    let mut e: i32 = 0;
    let mut sig = 0; // significant digits stored
    let mut nd = 0;
    let mut seen_nonzero = false;
    while i < n {
        if let Some(v) = hexval(r[i]) {
            nd += 1;
            if v != 0 || seen_nonzero {
                seen_nonzero = true;
                if sig < 15 {
                    mant = mant * 16 + v as u64;
                    sig += 1;
                } else {
                    e += 4;
                }
            }
            i += 1;
        } else {
            break;
        }
    }
    if i < n && r[i] == b'.' {
        i += 1;
        while i < n {
            if let Some(v) = hexval(r[i]) {
                nd += 1;
                if v != 0 || seen_nonzero {
                    seen_nonzero = true;
                    if sig < 15 {
                        mant = mant * 16 + v as u64;
                        sig += 1;
                        e -= 4;
                    }
                } else {
                    e -= 4;
                }
                i += 1;
            } else {
                break;
            }
        }
    }
    if nd == 0 {
        return None;
    }
    if i < n && (r[i] == b'p' || r[i] == b'P') {
        i += 1;
        let mut neg = false;
        if i < n && (r[i] == b'+' || r[i] == b'-') {
            neg = r[i] == b'-';
            i += 1;
        }
        let ds = i;
        let mut x: i32 = 0;
        while i < n && r[i].is_ascii_digit() {
            x = x.saturating_mul(10).saturating_add((r[i] - b'0') as i32);
            if x > 100_000 {
                x = 100_000;
            }
            i += 1;
        }
        if i == ds {
            return None;
        }
        e = e.saturating_add(if neg { -x } else { x });
    }
    if i != n {
        return None;
    }
    Some(ldexp(mant as f64, e))
}

/// luaO_str2num: integer first, then float. The whole string (modulo surrounding whitespace) must convert.
pub fn str2number(s: &[u8]) -> Option<Num> {
    if let Some(i) = str2int(s) {
        return Some(Num::Int(i));
    }
    str2d(s).map(Num::Float)
}

#[cfg(test)]
mod tests {
    use super::*;
    fn g14(x: f64) -> String {
        String::from_utf8(float_to_str(x)).unwrap()
    }
    fn f(conv: u8, spec: Spec, x: f64) -> String {
        String::from_utf8(fmt_float(x, conv, &spec)).unwrap()
    }
    #[test]
    fn tostring_floats() {
        assert_eq!(g14(1e15), "1e+15");
        assert_eq!(g14(1e14), "1e+14");
        assert_eq!(g14(123456789012345.0), "1.2345678901234e+14");
        assert_eq!(g14(12345678901234.0), "12345678901234.0");
        assert_eq!(g14(9007199254740992.0), "9.007199254741e+15");
        assert_eq!(g14(1e100), "1e+100");
        assert_eq!(g14(0.1), "0.1");
        assert_eq!(g14(100.0), "100.0");
        assert_eq!(g14(-0.0), "-0.0");
        assert_eq!(g14(0.0), "0.0");
        assert_eq!(g14(3.14159265358979), "3.1415926535898");
        assert_eq!(g14(1.0 / 3.0), "0.33333333333333");
        assert_eq!(g14(2.0 / 3.0), "0.66666666666667");
        assert_eq!(g14(1e-5), "1e-05");
        assert_eq!(g14(0.0001), "0.0001");
        assert_eq!(g14(0.00001234), "1.234e-05");
        assert_eq!(g14(5e-324), "4.9406564584125e-324");
        assert_eq!(g14(1.7976931348623157e308), "1.7976931348623e+308");
        assert_eq!(g14(f64::INFINITY), "inf");
        assert_eq!(g14(f64::NEG_INFINITY), "-inf");
        assert_eq!(g14(0.1 + 0.2), "0.3");
        assert_eq!(g14(99999999999999.9), "99999999999999.9".parse::<f64>().map(|_| "1e+14").unwrap());
        assert_eq!(g14(1.5), "1.5");
        assert_eq!(g14(-1.5), "-1.5");
        assert_eq!(g14(255.0), "255.0");
        assert_eq!(g14(2f64.powi(63)), "9.2233720368548e+18");
        assert_eq!(g14(1e300 * 1e10), "inf");
    }
    #[test]
    fn printf_like() {
        let s = |w: usize, p: Option<usize>| Spec { width: w, prec: p, ..Spec::default() };
        assert_eq!(f(b'f', s(5, Some(2)), 3.14159), " 3.14");
        assert_eq!(f(b'f', s(0, Some(0)), 0.5), "0");
        assert_eq!(f(b'f', s(0, Some(0)), 1.5), "2");
        assert_eq!(f(b'f', s(0, Some(0)), 2.5), "2");
        assert_eq!(f(b'f', s(0, Some(1)), 0.25), "0.2");
        assert_eq!(f(b'f', s(0, Some(2)), 0.125), "0.12");
        assert_eq!(f(b'f', s(0, None), 1.0), "1.000000");
        assert_eq!(f(b'e', s(0, None), 12345.678), "1.234568e+04");
        assert_eq!(f(b'E', s(0, Some(2)), 0.00012), "1.20E-04");
        assert_eq!(f(b'g', s(0, None), 100000.0), "100000");
        assert_eq!(f(b'g', s(0, None), 1000000.0), "1e+06");
        assert_eq!(f(b'g', s(0, None), 0.0001), "0.0001");
        assert_eq!(f(b'g', s(0, None), 0.00001), "1e-05");
        assert_eq!(f(b'g', s(0, None), 1.5), "1.5");
        assert_eq!(f(b'g', s(0, Some(3)), 1234.0), "1.23e+03");
        assert_eq!(f(b'g', s(10, Some(3)), 3.14159), "      3.14");
        assert_eq!(f(b'g', Spec { minus: true, width: 8, ..Spec::default() }, 2.5), "2.5     ");
        assert_eq!(f(b'f', Spec { zero: true, width: 8, prec: Some(2), ..Spec::default() }, -2.5), "-0002.50");
        assert_eq!(f(b'f', Spec { plus: true, prec: Some(1), ..Spec::default() }, 2.5), "+2.5");
        assert_eq!(f(b'g', Spec { alt: true, ..Spec::default() }, 1.0), "1.00000");
        assert_eq!(f(b'g', s(0, None), 0.0), "0");
        assert_eq!(f(b'g', s(0, None), 123456789.0), "1.23457e+08");
        assert_eq!(f(b'g', s(0, Some(17)), 0.1), "0.10000000000000001");
    }
    #[test]
    fn str2num() {
        assert_eq!(str2number(b"10"), Some(Num::Int(10)));
        assert_eq!(str2number(b"  -7  "), Some(Num::Int(-7)));
        assert_eq!(str2number(b"0x10"), Some(Num::Int(16)));
        assert_eq!(str2number(b"0xffffffffffffffff"), Some(Num::Int(-1)));
        assert_eq!(str2number(b"9223372036854775807"), Some(Num::Int(i64::MAX)));
        assert_eq!(str2number(b"9223372036854775808"), Some(Num::Float(9223372036854775808.0)));
        assert_eq!(str2number(b"-9223372036854775808"), Some(Num::Int(i64::MIN)));
        assert_eq!(str2number(b"1e1"), Some(Num::Float(10.0)));
        assert_eq!(str2number(b"1."), Some(Num::Float(1.0)));
        assert_eq!(str2number(b".5"), Some(Num::Float(0.5)));
        assert_eq!(str2number(b"."), None);
        assert_eq!(str2number(b"1e"), None);
        assert_eq!(str2number(b""), None);
        assert_eq!(str2number(b"  "), None);
        assert_eq!(str2number(b"0x"), None);
        assert_eq!(str2number(b"1 2"), None);
        assert_eq!(str2number(b"inf"), None);
        assert_eq!(str2number(b"nan"), None);
        assert_eq!(str2number(b"0x1p4"), Some(Num::Float(16.0)));
        assert_eq!(str2number(b"0x.8"), Some(Num::Float(0.5)));
        assert_eq!(str2number(b"0xA.8p1"), Some(Num::Float(21.0)));
        assert_eq!(str2number(b"1e999"), Some(Num::Float(f64::INFINITY)));
        assert_eq!(str2number(b"3.0"), Some(Num::Float(3.0)));
        assert_eq!(str2number(b"1e+2"), Some(Num::Float(100.0)));
        assert_eq!(str2number(b"1e-2"), Some(Num::Float(0.01)));
    }
}
