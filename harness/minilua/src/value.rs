//! Run-time values, the string interner and tables (array part + insertion-ordered hash part).

#[derive(Clone, Copy, Debug)]
pub enum Value {
    Nil,
    Bool(bool),
    Int(i64),
    Float(f64),
    /// interned: equal ids <=> equal contents
    Str(u32),
    Table(u32),
    Func(u32),
    Builtin(u16),
    /// internal: a frame slot holding a captured local (index into the cell arena)
    Cell(u32),
}

impl Value {
    #[inline]
    pub fn is_nil(&self) -> bool {
        matches!(self, Value::Nil)
    }
    #[inline]
    pub fn truthy(&self) -> bool {
        !matches!(self, Value::Nil | Value::Bool(false))
    }
    /// (tag, payload) used for raw equality of *normalised keys* and hashing
    #[inline]
    pub fn bits(&self) -> (u8, u64) {
        match *self {
            Value::Nil => (0, 0),
            Value::Bool(b) => (1, b as u64),
            Value::Int(i) => (2, i as u64),
            Value::Float(f) => (3, f.to_bits()),
            Value::Str(s) => (4, s as u64),
            Value::Table(t) => (5, t as u64),
            Value::Func(f) => (6, f as u64),
            Value::Builtin(b) => (7, b as u64),
            Value::Cell(c) => (8, c as u64),
        }
    }
}

/// raw equality (luaV_rawequalobj): ints and floats compare by mathematical value
#[inline]
pub fn raw_equal(a: &Value, b: &Value) -> bool {
    match (a, b) {
        (Value::Int(x), Value::Int(y)) => x == y,
        (Value::Float(x), Value::Float(y)) => x == y,
        (Value::Int(x), Value::Float(y)) | (Value::Float(y), Value::Int(x)) => match float_to_int_exact(*y) {
            Some(i) => i == *x,
            None => false,
        },
        _ => a.bits() == b.bits(),
    }
}

/// float -> integer only if the float has an exact integer representation in range
#[inline]
pub fn float_to_int_exact(f: f64) -> Option<i64> {
    if f.floor() == f && f >= -9223372036854775808.0 && f < 9223372036854775808.0 {
        Some(f as i64)
    } else {
        None
    }
}

pub fn hash_bytes(b: &[u8]) -> u32 {
    let mut h: u32 = 0x811c9dc5 ^ (b.len() as u32);
    for &c in b {
        h = (h ^ c as u32).wrapping_mul(0x0100_0193);
    }
    h ^ (h >> 15)
}

#[inline]
fn mix(tag: u8, x: u64) -> u32 {
    let mut h = x.wrapping_add(tag as u64).wrapping_mul(0x9E37_79B9_7F4A_7C15);
    h ^= h >> 29;
    h as u32 ^ (h >> 32) as u32
}

// ---------------------------------------------------------------------------------------------- strings

pub struct Strings<'c> {
    consts: &'c [Box<[u8]>],
    nconst: u32,
    local: Vec<Box<[u8]>>,
    index: Vec<u32>,
    count: usize,
    pub bytes_allocated: usize,
}

const EMPTY: u32 = u32::MAX;

/// build the open-addressing index for a set of distinct strings (used at load time)
pub fn build_index(strs: &[Box<[u8]>]) -> Vec<u32> {
    let mut cap = 64;
    while cap < strs.len() * 2 + 16 {
        cap *= 2;
    }
    let mut index = vec![EMPTY; cap];
    let mask = cap - 1;
    for (i, s) in strs.iter().enumerate() {
        let mut p = hash_bytes(s) as usize & mask;
        while index[p] != EMPTY {
            p = (p + 1) & mask;
        }
        index[p] = i as u32;
    }
    index
}

impl<'c> Strings<'c> {
    pub fn new(consts: &'c [Box<[u8]>], index: &[u32]) -> Strings<'c> {
        Strings {
            consts,
            nconst: consts.len() as u32,
            local: Vec::new(),
            index: index.to_vec(),
            count: consts.len(),
            bytes_allocated: 0,
        }
    }

    #[inline]
    pub fn get(&self, id: u32) -> &[u8] {
        if id < self.nconst {
            &self.consts[id as usize]
        } else {
            &self.local[(id - self.nconst) as usize]
        }
    }

    pub fn intern(&mut self, s: &[u8]) -> u32 {
        let h = hash_bytes(s);
        let mask = self.index.len() - 1;
        let mut p = h as usize & mask;
        loop {
            let id = self.index[p];
            if id == EMPTY {
                break;
            }
            if self.get(id) == s {
                return id;
            }
            p = (p + 1) & mask;
        }
        let id = self.nconst + self.local.len() as u32;
        self.local.push(s.into());
        self.bytes_allocated += s.len() + 16;
        self.index[p] = id;
        self.count += 1;
        if self.count * 2 > self.index.len() {
            self.grow();
        }
        id
    }

    pub fn intern_vec(&mut self, s: Vec<u8>) -> u32 {
        // same as intern but reuses the allocation
        let h = hash_bytes(&s);
        let mask = self.index.len() - 1;
        let mut p = h as usize & mask;
        loop {
            let id = self.index[p];
            if id == EMPTY {
                break;
            }
            if self.get(id) == &s[..] {
                return id;
            }
            p = (p + 1) & mask;
        }
        let id = self.nconst + self.local.len() as u32;
        self.bytes_allocated += s.len() + 16;
        self.local.push(s.into_boxed_slice());
        self.index[p] = id;
        self.count += 1;
        if self.count * 2 > self.index.len() {
            self.grow();
        }
        id
    }

    fn grow(&mut self) {
        let cap = self.index.len() * 2;
        let mask = cap - 1;
        let mut index = vec![EMPTY; cap];
        let total = self.nconst as usize + self.local.len();
        for id in 0..total as u32 {
            let mut p = hash_bytes(self.get(id)) as usize & mask;
            while index[p] != EMPTY {
                p = (p + 1) & mask;
            }
            index[p] = id;
        }
        self.index = index;
    }
}

// ---------------------------------------------------------------------------------------------- tables

pub const NO_META: u32 = u32::MAX;
const SMALL: usize = 8;

pub struct Table {
    pub arr: Vec<Value>,
    /// insertion-ordered entries; a Nil value marks a dead (removed) entry whose key is kept for `next`
    pub entries: Vec<(Value, Value)>,
    /// open addressing index into `entries` (only when entries.len() > SMALL)
    index: Vec<u32>,
    dead: usize,
    pub meta: u32,
}

impl Default for Table {
    fn default() -> Self {
        Table::new()
    }
}

impl Table {
    pub fn new() -> Table {
        Table { arr: Vec::new(), entries: Vec::new(), index: Vec::new(), dead: 0, meta: NO_META }
    }

    pub fn with_capacity(narr: usize, nhash: usize) -> Table {
        Table {
            arr: Vec::with_capacity(narr),
            entries: Vec::with_capacity(nhash),
            index: Vec::new(),
            dead: 0,
            meta: NO_META,
        }
    }

    #[inline]
    fn find(&self, key: &Value) -> Option<usize> {
        let kb = key.bits();
        if self.index.is_empty() {
            for (i, (k, _)) in self.entries.iter().enumerate() {
                if k.bits() == kb {
                    return Some(i);
                }
            }
            None
        } else {
            let mask = self.index.len() - 1;
            let mut p = mix(kb.0, kb.1) as usize & mask;
            loop {
                let e = self.index[p];
                if e == EMPTY {
                    return None;
                }
                if self.entries[e as usize].0.bits() == kb {
                    return Some(e as usize);
                }
                p = (p + 1) & mask;
            }
        }
    }

    fn rebuild_index(&mut self) {
        if self.entries.len() <= SMALL {
            self.index.clear();
            return;
        }
        let mut cap = 16;
        while cap < self.entries.len() * 2 {
            cap *= 2;
        }
        self.index.clear();
        self.index.resize(cap, EMPTY);
        let mask = cap - 1;
        for (i, (k, _)) in self.entries.iter().enumerate() {
            let kb = k.bits();
            let mut p = mix(kb.0, kb.1) as usize & mask;
            while self.index[p] != EMPTY {
                p = (p + 1) & mask;
            }
            self.index[p] = i as u32;
        }
    }

    /// key must be normalised (see `normalize_key`) and not nil
    #[inline]
    pub fn get(&self, key: &Value) -> Value {
        if let Value::Int(i) = *key {
            return self.get_int(i);
        }
        match self.find(key) {
            Some(i) => self.entries[i].1,
            None => Value::Nil,
        }
    }

    #[inline]
    pub fn get_int(&self, i: i64) -> Value {
        if i >= 1 && (i as u64) <= self.arr.len() as u64 {
            return self.arr[(i - 1) as usize];
        }
        if self.entries.is_empty() {
            return Value::Nil;
        }
        match self.find(&Value::Int(i)) {
            Some(e) => self.entries[e].1,
            None => Value::Nil,
        }
    }

    #[inline]
    pub fn get_str(&self, id: u32) -> Value {
        match self.find(&Value::Str(id)) {
            Some(e) => self.entries[e].1,
            None => Value::Nil,
        }
    }

    /// raw set; key normalised, not nil, not NaN
    pub fn set(&mut self, key: Value, val: Value) {
        if let Value::Int(i) = key {
            let n = self.arr.len() as u64;
            if i >= 1 && (i as u64) <= n {
                self.arr[(i - 1) as usize] = val;
                return;
            }
            if i as u64 == n + 1 && i >= 1 {
                if val.is_nil() {
                    // may exist in the hash part only if it was put there... it cannot (invariant), but
                    // a dead entry is harmless
                    if let Some(e) = self.find(&key) {
                        self.kill(e);
                    }
                    return;
                }
                // a dead hash entry with this key may exist: leave it (lookups go to the array first)
                self.arr.push(val);
                if !self.entries.is_empty() {
                    self.migrate();
                }
                return;
            }
        }
        match self.find(&key) {
            Some(e) => {
                if val.is_nil() {
                    self.kill(e);
                } else {
                    if self.entries[e].1.is_nil() {
                        self.dead -= 1;
                    }
                    self.entries[e].1 = val;
                }
            }
            None => {
                if val.is_nil() {
                    return;
                }
                self.insert_new(key, val);
            }
        }
    }

    fn kill(&mut self, e: usize) {
        if !self.entries[e].1.is_nil() {
            self.entries[e].1 = Value::Nil;
            self.dead += 1;
        }
    }

    fn insert_new(&mut self, key: Value, val: Value) {
        // compact when more than half of the entries are dead (only ever on insertion of a new key,
        // like a rehash in real Lua)
        if self.dead > 4 && self.dead * 2 > self.entries.len() {
            self.entries.retain(|(_, v)| !v.is_nil());
            self.dead = 0;
            self.rebuild_index();
        }
        self.entries.push((key, val));
        let n = self.entries.len();
        if n > SMALL {
            if self.index.is_empty() || n * 2 > self.index.len() {
                self.rebuild_index();
            } else {
                let mask = self.index.len() - 1;
                let kb = key.bits();
                let mut p = mix(kb.0, kb.1) as usize & mask;
                while self.index[p] != EMPTY {
                    p = (p + 1) & mask;
                }
                self.index[p] = (n - 1) as u32;
            }
        }
    }

    /// after a push to the array part: move following integer keys from the hash part
    fn migrate(&mut self) {
        loop {
            let next = self.arr.len() as i64 + 1;
            match self.find(&Value::Int(next)) {
                Some(e) if !self.entries[e].1.is_nil() => {
                    let v = self.entries[e].1;
                    self.kill(e);
                    self.arr.push(v);
                }
                _ => break,
            }
        }
    }

    /// luaH_getn
    pub fn len(&self) -> i64 {
        let n = self.arr.len();
        if n > 0 && self.arr[n - 1].is_nil() {
            // binary search for a border in the array part
            let (mut i, mut j) = (0usize, n);
            while j - i > 1 {
                let m = (i + j) / 2;
                if self.arr[m - 1].is_nil() {
                    j = m;
                } else {
                    i = m;
                }
            }
            return i as i64;
        }
        if self.entries.len() == self.dead {
            return n as i64;
        }
        // unbound search in the hash part
        let mut i = n as i64;
        let mut j = i + 1;
        while !self.get_int(j).is_nil() {
            i = j;
            if j > i64::MAX / 2 {
                // linear search (pathological)
                let mut k = 1;
                while !self.get_int(k).is_nil() {
                    k += 1;
                }
                return k - 1;
            }
            j *= 2;
        }
        while j - i > 1 {
            let m = (i + j) / 2;
            if self.get_int(m).is_nil() {
                j = m;
            } else {
                i = m;
            }
        }
        i
    }

    /// traversal: returns the next live (key, value) after `key` (Nil = start).
    /// Err(()) when the key is not in the table.
    pub fn next(&self, key: &Value) -> Result<Option<(Value, Value)>, ()> {
        let mut ai: usize = 0; // index into arr to start from
        let mut ei: usize = 0; // index into entries to start from
        match *key {
            Value::Nil => {}
            Value::Int(i) if i >= 1 && (i as u64) <= self.arr.len() as u64 => {
                ai = i as usize;
            }
            _ => {
                ai = self.arr.len();
                match self.find(key) {
                    Some(e) => ei = e + 1,
                    None => return Err(()),
                }
            }
        }
        while ai < self.arr.len() {
            if !self.arr[ai].is_nil() {
                return Ok(Some((Value::Int(ai as i64 + 1), self.arr[ai])));
            }
            ai += 1;
        }
        while ei < self.entries.len() {
            let (k, v) = self.entries[ei];
            if !v.is_nil() {
                return Ok(Some((k, v)));
            }
            ei += 1;
        }
        Ok(None)
    }
}

/// normalise a key: floats with integer value become integers. Returns None for NaN.
#[inline]
pub fn normalize_key(k: Value) -> Option<Value> {
    match k {
        Value::Float(f) => {
            if f.is_nan() {
                None
            } else {
                match float_to_int_exact(f) {
                    Some(i) => Some(Value::Int(i)),
                    None => Some(k),
                }
            }
        }
        _ => Some(k),
    }
}
