pub fn placeholder() {}
