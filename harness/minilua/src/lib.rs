//! minilua: a Lua 5.3-subset interpreter used as a stand-in for `lua5.3` (loader fidelity + runtime).
//!
//! * `load`  = luaL_loadbuffer: lex + parse + all compile-time checks (classified errors), no execution.
//! * `run`   = execute a loaded chunk in a fresh global state under step / depth / memory budgets.
//!
//! Structure: `lexer.rs` (port of llex.c), `parser.rs` + `grammar.rs` (port of lparser.c's scoping, goto /
//! label rules, limits, and a simulation of lcode.c's register allocation), `interp.rs` + `ops.rs`
//! (tree-walking evaluator with Lua 5.3 semantics and error messages), `stdlib.rs` + `strlib.rs`
//! (base / table / math / string libraries, incl. a port of lstrlib.c's pattern matcher), `numfmt.rs`
//! (`%g`, `%e`, `%f`, `%a`, lua_Number2str, luaO_str2num), `value.rs` (values, interner, tables).
//!
//! Known, deliberate choices (see also the final notes of each module):
//! * chunk name is always `stdin`; no `arg`, `load`, `coroutine`, `os`/`io` beyond time/clock/write, `utf8`,
//!   `debug`, `string.pack`, `bit32`.
//! * `pairs` order: array part in index order, then the other keys in insertion order.
//! * Lua call depth is limited by `Limits::max_call_depth` (OutOfBudget "stack"), far below real Lua's limit;
//!   proper tail calls do not consume depth.
//! * `RunOptions::compat_mathlib` (default true) selects whether `math.pow`, `math.atan2`, ... exist, i.e.
//!   whether the emulated binary was built with LUA_COMPAT_5_2 (stock makefile, Debian/Ubuntu) or without.
//! * duplicate labels follow Lua 5.3 (`checkrepeated` only looks at the labels of the *current block*).
//! * `too-many-registers` is raised when the simulated `maxstacksize` would exceed 255 (real Lua: >= 255).

mod ast;
mod grammar;
mod interp;
mod lexer;
pub mod numfmt;
mod ops;
mod parser;
mod stdlib;
mod strlib;
mod value;

use interp::{Ctl, Interp};

#[derive(Clone, Debug, PartialEq)]
pub struct LoadError {
    pub class: String,
    pub msg: String,
    pub line: usize,
}

pub struct Chunk {
    pub(crate) strings: Vec<Box<[u8]>>,
    pub(crate) str_index: Vec<u32>,
    pub(crate) protos: Vec<ast::Proto>,
    pub(crate) main: u32,
    pub(crate) env_name: u32,
    pub(crate) stats: LoadStats,
    pub(crate) free_names: Vec<(u32, bool, bool)>,
}

#[derive(Clone, Copy, Debug, Default, PartialEq)]
pub struct LoadStats {
    pub max_active_locals: usize,
    pub max_upvalues: usize,
    pub max_register_estimate: usize,
    pub max_c_levels: usize,
    pub functions: usize,
}

#[derive(Clone, Debug, PartialEq)]
pub enum RunOutcome {
    Ok,
    Error { msg: String },
    OutOfBudget { what: String },
}

pub struct RunResult {
    pub stdout: Vec<u8>,
    pub outcome: RunOutcome,
    pub steps: u64,
}

#[derive(Clone, Debug)]
pub struct Limits {
    pub max_steps: u64,
    pub max_call_depth: usize,
    pub max_heap_objects: usize,
    pub max_string_bytes: usize,
}

impl Default for Limits {
    fn default() -> Self {
        Limits { max_steps: 2_000_000, max_call_depth: 180, max_heap_objects: 2_000_000, max_string_bytes: 64 << 20 }
    }
}

fn contains(hay: &[u8], needle: &[u8]) -> bool {
    hay.windows(needle.len()).any(|w| w == needle)
}

/// luaL_loadbuffer(src, "=stdin"): lex + parse + compile-time checks. No execution.
pub fn load(src: &[u8]) -> Result<Chunk, LoadError> {
    let r = std::panic::catch_unwind(|| load_inner(src));
    match r {
        Ok(r) => r,
        Err(_) => Err(LoadError { class: "internal".to_string(), msg: "minilua internal: panic in loader".to_string(), line: 0 }),
    }
}

fn load_inner(src: &[u8]) -> Result<Chunk, LoadError> {
    // a binary chunk would start with ESC; we only load text
    let explicit_env = contains(src, b"_ENV");
    let conv = |e: parser::PErr| LoadError { class: e.class.to_string(), msg: e.msg, line: e.line as usize };
    let mut p = parser::Parser::new(src, explicit_env).map_err(conv)?;
    let main = p.mainfunc().map_err(conv)?;
    let stats = LoadStats {
        max_active_locals: p.stats.max_active_locals,
        max_upvalues: p.stats.max_upvalues,
        max_register_estimate: p.stats.max_register_estimate,
        max_c_levels: p.stats.max_c_levels,
        functions: p.stats.functions,
    };
    let strings = std::mem::take(&mut p.lex.interner.strings);
    let str_index = value::build_index(&strings);
    Ok(Chunk {
        strings,
        str_index,
        protos: std::mem::take(&mut p.protos),
        main,
        env_name: p.env_name,
        stats,
        free_names: std::mem::take(&mut p.free_names),
    })
}

pub fn load_stats(chunk: &Chunk) -> LoadStats {
    chunk.stats
}

/// every free (global) name referenced in the chunk: (name, assigned somewhere, assigned inside a nested function)
pub fn free_global_names(chunk: &Chunk) -> Vec<(String, bool, bool)> {
    chunk
        .free_names
        .iter()
        .map(|(n, a, b)| (String::from_utf8_lossy(&chunk.strings[*n as usize]).to_string(), *a, *b))
        .collect()
}

/// Build-time flavour of the emulated `lua5.3` binary.
#[derive(Clone, Debug)]
pub struct RunOptions {
    /// LUA_COMPAT_MATHLIB (implied by LUA_COMPAT_5_2, which a stock `make` of Lua 5.3 and the Debian/Ubuntu
    /// `lua5.3` package define): math.pow, math.atan2, math.cosh/sinh/tanh, math.log10, math.frexp/ldexp
    /// exist. With `false` they are nil (a Lua 5.3 built without compatibility options).
    pub compat_mathlib: bool,
    /// Lua 5.3's `assert` ends in `return luaB_error(L)`, so a *string* message gets the usual
    /// `chunk:line:` prefix of `error(msg, 1)` when `assert` is called from a Lua function (lbaselib.c;
    /// the 5.3 test suite checks `"%w+%.lua:(%d+): assertion failed!$"`). With `false` the message is
    /// passed through unchanged (the behaviour people often assume).
    pub assert_adds_position: bool,
}

impl Default for RunOptions {
    fn default() -> Self {
        RunOptions { compat_mathlib: true, assert_adds_position: true }
    }
}

/// Run a chunk in a fresh global state. Never panics; deterministic. Uses `RunOptions::default()`.
pub fn run(chunk: &Chunk, limits: &Limits) -> RunResult {
    run_with_options(chunk, limits, &RunOptions::default())
}

pub fn run_with_options(chunk: &Chunk, limits: &Limits, opts: &RunOptions) -> RunResult {
    let r = std::panic::catch_unwind(std::panic::AssertUnwindSafe(|| run_inner(chunk, limits, opts)));
    match r {
        Ok(r) => r,
        Err(p) => {
            let what = if let Some(s) = p.downcast_ref::<&str>() {
                s.to_string()
            } else if let Some(s) = p.downcast_ref::<String>() {
                s.clone()
            } else {
                "panic".to_string()
            };
            RunResult {
                stdout: Vec::new(),
                outcome: RunOutcome::Error { msg: format!("minilua internal: {}", what) },
                steps: 0,
            }
        }
    }
}

fn run_inner(chunk: &Chunk, limits: &Limits, opts: &RunOptions) -> RunResult {
    let mut it = Interp::new(chunk, limits, opts);
    let r = it.run_main();
    let outcome = match r {
        Ok(()) => RunOutcome::Ok,
        Err(Ctl::Budget(w)) => RunOutcome::OutOfBudget { what: w.to_string() },
        Err(Ctl::Error(v)) => {
            // message = tostring of the error value (lua.c msghandler)
            it.frames.clear();
            it.lua_depth = 0;
            it.c_depth = 0;
            it.steps = it.steps.min(it.max_steps.saturating_sub(10_000));
            let msg = match v {
                value::Value::Str(s) => String::from_utf8_lossy(it.str_bytes(s)).to_string(),
                value::Value::Int(_) | value::Value::Float(_) => {
                    String::from_utf8_lossy(&it.concat_piece(&v).unwrap_or_default()).to_string()
                }
                _ => {
                    let tm = it.metamethod(&v, interp::sid::TOSTRING);
                    if !tm.is_nil() {
                        match it.tostring_value(v) {
                            Ok(value::Value::Str(s)) => String::from_utf8_lossy(it.str_bytes(s)).to_string(),
                            _ => format!("(error object is a {} value)", ops::type_name(&v)),
                        }
                    } else {
                        format!("(error object is a {} value)", ops::type_name(&v))
                    }
                }
            };
            RunOutcome::Error { msg }
        }
    };
    RunResult { stdout: std::mem::take(&mut it.out), outcome, steps: it.steps }
}

/// Run `f` on a thread with a big stack (the evaluator recurses on the native stack).
pub fn with_big_stack<T: Send + 'static, F: FnOnce() -> T + Send + 'static>(f: F) -> T {
    std::thread::Builder::new()
        .stack_size(256 << 20)
        .spawn(f)
        .expect("spawn")
        .join()
        .expect("minilua worker thread panicked")
}
