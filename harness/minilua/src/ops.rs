//! VM-level operations: indexing, metamethods, arithmetic, comparison, concatenation, tostring.

use crate::ast::*;
use crate::interp::*;
use crate::numfmt::{float_to_str, int_to_str, str2number, Num};
use crate::value::*;

pub fn type_name(v: &Value) -> &'static str {
    match v {
        Value::Nil => "nil",
        Value::Bool(_) => "boolean",
        Value::Int(_) | Value::Float(_) => "number",
        Value::Str(_) => "string",
        Value::Table(_) => "table",
        Value::Func(_) | Value::Builtin(_) => "function",
        Value::Cell(_) => "cell",
    }
}

fn event_sid(op: BinOp) -> u32 {
    match op {
        BinOp::Add => sid::ADD,
        BinOp::Sub => sid::SUB,
        BinOp::Mul => sid::MUL,
        BinOp::Div => sid::DIV,
        BinOp::Mod => sid::MOD,
        BinOp::Pow => sid::POW,
        BinOp::IDiv => sid::IDIV,
        BinOp::BAnd => sid::BAND,
        BinOp::BOr => sid::BOR,
        BinOp::BXor => sid::BXOR,
        BinOp::Shl => sid::SHL,
        BinOp::Shr => sid::SHR,
        BinOp::Concat => sid::CONCAT,
        _ => sid::ADD,
    }
}

fn is_bitwise(op: BinOp) -> bool {
    matches!(op, BinOp::BAnd | BinOp::BOr | BinOp::BXor | BinOp::Shl | BinOp::Shr)
}

impl<'c> Interp<'c> {
    // ------------------------------------------------------------------ types / metatables

    pub fn type_name_of(&self, v: &Value) -> String {
        if let Value::Table(t) = v {
            let m = self.tables[*t as usize].meta;
            if m != NO_META {
                if let Value::Str(s) = self.tables[m as usize].get_str(sid::NAME) {
                    return self.lossy(s);
                }
            }
        }
        type_name(v).to_string()
    }

    #[inline]
    pub fn metatable_of(&self, v: &Value) -> u32 {
        match v {
            Value::Table(t) => self.tables[*t as usize].meta,
            Value::Str(_) => self.string_meta,
            _ => NO_META,
        }
    }

    #[inline]
    pub fn metamethod(&self, v: &Value, event: u32) -> Value {
        let m = self.metatable_of(v);
        if m == NO_META {
            Value::Nil
        } else {
            self.tables[m as usize].get_str(event)
        }
    }

    /// error raised by a VM operation: with position if executed by Lua code (line != 0)
    pub fn op_error(&mut self, line: u32, msg: &str) -> Ctl {
        if line == 0 {
            self.err_val(msg.to_string())
        } else {
            self.rt_error(line, msg)
        }
    }

    // ------------------------------------------------------------------ indexing

    pub fn index(&mut self, obj: Value, key: Value, objexpr: Option<&'c Expr>, line: u32, cx: &Cx<'c>) -> R<Value> {
        self.index_impl(obj, key, objexpr, line, Some(cx))
    }

    /// indexing from library code (lua_gettable): errors carry no position
    pub fn index_lib(&mut self, obj: Value, key: Value) -> R<Value> {
        self.index_impl(obj, key, None, 0, None)
    }

    fn index_impl(
        &mut self,
        obj: Value,
        key: Value,
        objexpr: Option<&'c Expr>,
        line: u32,
        cx: Option<&Cx<'c>>,
    ) -> R<Value> {
        let mut t = obj;
        for loopn in 0..2000 {
            let tm;
            if let Value::Table(tid) = t {
                let tb = &self.tables[tid as usize];
                let v = match key {
                    Value::Nil => Value::Nil,
                    Value::Float(_) => match normalize_key(key) {
                        Some(k) => tb.get(&k),
                        None => Value::Nil,
                    },
                    _ => tb.get(&key),
                };
                if !v.is_nil() {
                    return Ok(v);
                }
                if tb.meta == NO_META {
                    return Ok(Value::Nil);
                }
                tm = self.tables[tb.meta as usize].get_str(sid::INDEX);
                if tm.is_nil() {
                    return Ok(Value::Nil);
                }
            } else {
                tm = self.metamethod(&t, sid::INDEX);
                if tm.is_nil() {
                    let info = if loopn == 0 {
                        match cx {
                            Some(cx) => self.varinfo(objexpr, cx),
                            None => String::new(),
                        }
                    } else {
                        String::new()
                    };
                    let tn = self.type_name_of(&t);
                    return Err(self.op_error(line, &format!("attempt to index a {} value{}", tn, info)));
                }
            }
            match tm {
                Value::Func(_) | Value::Builtin(_) => {
                    if let Some(cx) = cx {
                        self.frames[cx.frame].line = line;
                    }
                    self.pending_name = CallName::Metamethod(sid::INDEX);
                    return self.call_meta1(tm, &[t, key]);
                }
                _ => t = tm,
            }
        }
        Err(self.op_error(line, "'__index' chain too long; possible loop"))
    }

    pub fn set_global(&mut self, g: u32, name: u32, v: Value, line: u32, cx: &Cx<'c>) -> R<()> {
        let tb = &mut self.tables[g as usize];
        if tb.meta == NO_META {
            tb.set(Value::Str(name), v);
            return Ok(());
        }
        self.set_index(Value::Table(g), Value::Str(name), v, None, line, cx)
    }

    pub fn set_index(
        &mut self,
        obj: Value,
        key: Value,
        val: Value,
        objexpr: Option<&'c Expr>,
        line: u32,
        cx: &Cx<'c>,
    ) -> R<()> {
        self.set_index_impl(obj, key, val, objexpr, line, Some(cx))
    }

    pub fn set_index_lib(&mut self, obj: Value, key: Value, val: Value) -> R<()> {
        self.set_index_impl(obj, key, val, None, 0, None)
    }

    fn set_index_impl(
        &mut self,
        obj: Value,
        key: Value,
        val: Value,
        objexpr: Option<&'c Expr>,
        line: u32,
        cx: Option<&Cx<'c>>,
    ) -> R<()> {
        let mut t = obj;
        for loopn in 0..2000 {
            let tm;
            if let Value::Table(tid) = t {
                let nk = match key {
                    Value::Nil => None,
                    _ => normalize_key(key),
                };
                let tb = &self.tables[tid as usize];
                let meta = tb.meta;
                if meta == NO_META {
                    return self.raw_set_checked(tid, key, nk, val, line);
                }
                let existing = match nk {
                    Some(k) => tb.get(&k),
                    None => Value::Nil,
                };
                if !existing.is_nil() {
                    self.tables[tid as usize].set(nk.unwrap(), val);
                    return Ok(());
                }
                tm = self.tables[meta as usize].get_str(sid::NEWINDEX);
                if tm.is_nil() {
                    return self.raw_set_checked(tid, key, nk, val, line);
                }
            } else {
                tm = self.metamethod(&t, sid::NEWINDEX);
                if tm.is_nil() {
                    let info = if loopn == 0 {
                        match cx {
                            Some(cx) => self.varinfo(objexpr, cx),
                            None => String::new(),
                        }
                    } else {
                        String::new()
                    };
                    let tn = self.type_name_of(&t);
                    return Err(self.op_error(line, &format!("attempt to index a {} value{}", tn, info)));
                }
            }
            match tm {
                Value::Func(_) | Value::Builtin(_) => {
                    if let Some(cx) = cx {
                        self.frames[cx.frame].line = line;
                    }
                    self.pending_name = CallName::Metamethod(sid::NEWINDEX);
                    self.call_meta1(tm, &[t, key, val])?;
                    return Ok(());
                }
                _ => t = tm,
            }
        }
        Err(self.op_error(line, "'__newindex' chain too long; possible loop"))
    }

    fn raw_set_checked(&mut self, tid: u32, key: Value, nk: Option<Value>, val: Value, line: u32) -> R<()> {
        match nk {
            Some(k) => {
                self.tables[tid as usize].set(k, val);
                Ok(())
            }
            None => {
                if key.is_nil() {
                    Err(self.op_error(line, "table index is nil"))
                } else {
                    Err(self.op_error(line, "table index is NaN"))
                }
            }
        }
    }

    // ------------------------------------------------------------------ conversions

    /// luaV_tonumber_ : numbers and convertible strings -> float
    pub fn to_number(&self, v: &Value) -> Option<f64> {
        match *v {
            Value::Int(i) => Some(i as f64),
            Value::Float(f) => Some(f),
            Value::Str(s) => match str2number(self.str_bytes(s)) {
                Some(Num::Int(i)) => Some(i as f64),
                Some(Num::Float(f)) => Some(f),
                None => None,
            },
            _ => None,
        }
    }

    /// luaV_tointeger mode 0 (exact); strings are converted
    pub fn to_integer(&self, v: &Value) -> Option<i64> {
        match *v {
            Value::Int(i) => Some(i),
            Value::Float(f) => float_to_int_exact(f),
            Value::Str(s) => match str2number(self.str_bytes(s)) {
                Some(Num::Int(i)) => Some(i),
                Some(Num::Float(f)) => float_to_int_exact(f),
                None => None,
            },
            _ => None,
        }
    }

    /// string or number -> bytes for concatenation (luaO_tostring); None for other types
    pub fn concat_piece(&self, v: &Value) -> Option<Vec<u8>> {
        match *v {
            Value::Str(s) => Some(self.str_bytes(s).to_vec()),
            Value::Int(i) => Some(int_to_str(i)),
            Value::Float(f) => Some(float_to_str(f)),
            _ => None,
        }
    }

    /// luaL_tolstring
    pub fn tostring_value(&mut self, v: Value) -> R<Value> {
        let tm = self.metamethod(&v, sid::TOSTRING);
        if !tm.is_nil() {
            let r = self.call1(tm, &[v])?;
            return match r {
                Value::Str(_) => Ok(r),
                // lua_tolstring accepts numbers (converted in place)
                Value::Int(_) | Value::Float(_) => {
                    let b = self.concat_piece(&r).unwrap_or_default();
                    self.new_str_vec(b)
                }
                _ => Err(self.lib_error("'__tostring' must return a string")),
            };
        }
        match v {
            Value::Str(_) => Ok(v),
            Value::Nil => Ok(Value::Str(sid::NIL)),
            Value::Bool(true) => Ok(Value::Str(sid::TRUE)),
            Value::Bool(false) => Ok(Value::Str(sid::FALSE)),
            Value::Int(i) => self.new_str_vec(int_to_str(i)),
            Value::Float(f) => self.new_str_vec(float_to_str(f)),
            Value::Table(t) => {
                let tn = self.type_name_of(&v);
                self.new_str_vec(format!("{}: 0x{:08x}", tn, 0x5600_0000u64 + (t as u64) * 0x40).into_bytes())
            }
            Value::Func(f) => {
                self.new_str_vec(format!("function: 0x{:08x}", 0x5700_0000u64 + (f as u64) * 0x20).into_bytes())
            }
            Value::Builtin(b) => {
                let name = crate::stdlib::BUILTINS[b as usize].0;
                self.new_str_vec(format!("function: builtin: {}", name).into_bytes())
            }
            Value::Cell(_) => Ok(Value::Str(sid::QMARK)),
        }
    }

    // ------------------------------------------------------------------ equality / ordering

    pub fn equals(&mut self, a: Value, b: Value) -> R<bool> {
        if let (Value::Table(x), Value::Table(y)) = (a, b) {
            if x == y {
                return Ok(true);
            }
            let mut tm = self.metamethod(&a, sid::EQ);
            if tm.is_nil() {
                tm = self.metamethod(&b, sid::EQ);
            }
            if tm.is_nil() {
                return Ok(false);
            }
            self.pending_name = CallName::Metamethod(sid::EQ);
            let r = self.call_meta1(tm, &[a, b])?;
            return Ok(r.truthy());
        }
        Ok(raw_equal(&a, &b))
    }

    fn order_error(&mut self, a: &Value, b: &Value, line: u32) -> Ctl {
        let t1 = self.type_name_of(a);
        let t2 = self.type_name_of(b);
        if t1 == t2 {
            self.op_error(line, &format!("attempt to compare two {} values", t1))
        } else {
            self.op_error(line, &format!("attempt to compare {} with {}", t1, t2))
        }
    }

    pub fn less_than(&mut self, a: Value, b: Value, line: u32) -> R<bool> {
        match (a, b) {
            (Value::Int(x), Value::Int(y)) => Ok(x < y),
            (Value::Float(x), Value::Float(y)) => Ok(x < y),
            (Value::Int(x), Value::Float(y)) => Ok(int_lt_float(x, y)),
            (Value::Float(x), Value::Int(y)) => Ok(float_lt_int(x, y)),
            (Value::Str(x), Value::Str(y)) => Ok(self.str_bytes(x) < self.str_bytes(y)),
            _ => {
                let mut tm = self.metamethod(&a, sid::LT);
                if tm.is_nil() {
                    tm = self.metamethod(&b, sid::LT);
                }
                if tm.is_nil() {
                    return Err(self.order_error(&a, &b, line));
                }
                self.pending_name = CallName::Metamethod(sid::LT);
                Ok(self.call_meta1(tm, &[a, b])?.truthy())
            }
        }
    }

    pub fn less_equal(&mut self, a: Value, b: Value, line: u32) -> R<bool> {
        match (a, b) {
            (Value::Int(x), Value::Int(y)) => Ok(x <= y),
            (Value::Float(x), Value::Float(y)) => Ok(x <= y),
            (Value::Int(x), Value::Float(y)) => Ok(int_le_float(x, y)),
            (Value::Float(x), Value::Int(y)) => Ok(float_le_int(x, y)),
            (Value::Str(x), Value::Str(y)) => Ok(self.str_bytes(x) <= self.str_bytes(y)),
            _ => {
                let mut tm = self.metamethod(&a, sid::LE);
                if tm.is_nil() {
                    tm = self.metamethod(&b, sid::LE);
                }
                if !tm.is_nil() {
                    self.pending_name = CallName::Metamethod(sid::LE);
                    return Ok(self.call_meta1(tm, &[a, b])?.truthy());
                }
                // try 'not (b < a)'
                let mut tm = self.metamethod(&b, sid::LT);
                if tm.is_nil() {
                    tm = self.metamethod(&a, sid::LT);
                }
                if tm.is_nil() {
                    return Err(self.order_error(&a, &b, line));
                }
                self.pending_name = CallName::Metamethod(sid::LT);
                Ok(!self.call_meta1(tm, &[b, a])?.truthy())
            }
        }
    }

    // ------------------------------------------------------------------ arithmetic

    /// arithmetic on two *numbers*; None if an operand is not a number
    fn arith_nums(&mut self, op: BinOp, a: &Value, b: &Value, line: u32) -> Option<R<Value>> {
        let r = match (op, *a, *b) {
            (BinOp::Add, Value::Int(x), Value::Int(y)) => Value::Int(x.wrapping_add(y)),
            (BinOp::Sub, Value::Int(x), Value::Int(y)) => Value::Int(x.wrapping_sub(y)),
            (BinOp::Mul, Value::Int(x), Value::Int(y)) => Value::Int(x.wrapping_mul(y)),
            (BinOp::IDiv, Value::Int(x), Value::Int(y)) => {
                if y == 0 {
                    return Some(Err(self.op_error(line, "attempt to perform 'n//0'")));
                }
                Value::Int(int_idiv(x, y))
            }
            (BinOp::Mod, Value::Int(x), Value::Int(y)) => {
                if y == 0 {
                    return Some(Err(self.op_error(line, "attempt to perform 'n%0'")));
                }
                Value::Int(int_mod(x, y))
            }
            _ => {
                let x = match *a {
                    Value::Int(i) => i as f64,
                    Value::Float(f) => f,
                    _ => return None,
                };
                let y = match *b {
                    Value::Int(i) => i as f64,
                    Value::Float(f) => f,
                    _ => return None,
                };
                Value::Float(float_arith(op, x, y))
            }
        };
        Some(Ok(r))
    }

    pub fn arith(
        &mut self,
        op: BinOp,
        a: Value,
        b: Value,
        exprs: Option<(&'c Expr, &'c Expr)>,
        line: u32,
        cx: Option<&Cx<'c>>,
    ) -> R<Value> {
        if is_bitwise(op) {
            if let (Some(x), Some(y)) = (self.to_integer(&a), self.to_integer(&b)) {
                return Ok(Value::Int(match op {
                    BinOp::BAnd => x & y,
                    BinOp::BOr => x | y,
                    BinOp::BXor => x ^ y,
                    BinOp::Shl => shift_left(x, y),
                    _ => shift_left(x, y.wrapping_neg()),
                }));
            }
        } else {
            if let Some(r) = self.arith_nums(op, &a, &b, line) {
                return r;
            }
            // string coercion: both operands convertible -> *float* arithmetic (lvm.c: tonumber macro)
            if let (Some(x), Some(y)) = (self.to_number(&a), self.to_number(&b)) {
                return Ok(Value::Float(float_arith(op, x, y)));
            }
        }
        // metamethods
        let ev = event_sid(op);
        let mut tm = self.metamethod(&a, ev);
        if tm.is_nil() {
            tm = self.metamethod(&b, ev);
        }
        if !tm.is_nil() {
            if let Some(cx) = cx {
                self.frames[cx.frame].line = line;
            }
            self.pending_name = CallName::Metamethod(ev);
            return self.call_meta1(tm, &[a, b]);
        }
        // errors
        if is_bitwise(op) {
            let na = self.to_number(&a).is_some();
            let nb = self.to_number(&b).is_some();
            if na && nb {
                // luaG_tointerror
                let (culprit, ex) = if self.to_integer(&a).is_none() { (a, exprs.map(|e| e.0)) } else { (b, exprs.map(|e| e.1)) };
                let _ = culprit;
                let info = match cx {
                    Some(cx) => self.varinfo_operand(ex, cx),
                    None => String::new(),
                };
                return Err(self.op_error(line, &format!("number{} has no integer representation", info)));
            }
            return Err(self.opint_error(a, b, exprs, "perform bitwise operation on", line, cx));
        }
        Err(self.opint_error(a, b, exprs, "perform arithmetic on", line, cx))
    }

    /// luaG_opinterror
    fn opint_error(
        &mut self,
        a: Value,
        b: Value,
        exprs: Option<(&'c Expr, &'c Expr)>,
        what: &str,
        line: u32,
        cx: Option<&Cx<'c>>,
    ) -> Ctl {
        let (culprit, ex) = if self.to_number(&a).is_none() { (a, exprs.map(|e| e.0)) } else { (b, exprs.map(|e| e.1)) };
        let info = match cx {
            Some(cx) => self.varinfo_operand(ex, cx),
            None => String::new(),
        };
        let tn = self.type_name_of(&culprit);
        self.op_error(line, &format!("attempt to {} a {} value{}", what, tn, info))
    }

    /// varinfo for an arithmetic / concat operand: constants are not in registers, so they have no info
    fn varinfo_operand(&self, e: Option<&Expr>, cx: &Cx<'c>) -> String {
        match e {
            Some(Expr::Str(_)) => String::new(),
            other => self.varinfo(other, cx),
        }
    }

    pub fn eval_bin(&mut self, b: &'c BinData, cx: &Cx<'c>) -> R<Value> {
        match b.op {
            BinOp::And => {
                let l = self.eval(&b.l, cx)?;
                if !l.truthy() {
                    return Ok(l);
                }
                return self.eval(&b.r, cx);
            }
            BinOp::Or => {
                let l = self.eval(&b.l, cx)?;
                if l.truthy() {
                    return Ok(l);
                }
                return self.eval(&b.r, cx);
            }
            _ => {}
        }
        let l = self.eval(&b.l, cx)?;
        let r = self.eval(&b.r, cx)?;
        match b.op {
            BinOp::Add => match (l, r) {
                (Value::Int(x), Value::Int(y)) => return Ok(Value::Int(x.wrapping_add(y))),
                (Value::Float(x), Value::Float(y)) => return Ok(Value::Float(nan_fix(x, y, x + y))),
                _ => {}
            },
            BinOp::Sub => match (l, r) {
                (Value::Int(x), Value::Int(y)) => return Ok(Value::Int(x.wrapping_sub(y))),
                (Value::Float(x), Value::Float(y)) => return Ok(Value::Float(nan_fix(x, y, x - y))),
                _ => {}
            },
            BinOp::Mul => match (l, r) {
                (Value::Int(x), Value::Int(y)) => return Ok(Value::Int(x.wrapping_mul(y))),
                (Value::Float(x), Value::Float(y)) => return Ok(Value::Float(nan_fix(x, y, x * y))),
                _ => {}
            },
            BinOp::Eq => {
                return Ok(Value::Bool(match (l, r) {
                    (Value::Table(_), Value::Table(_)) => {
                        self.frames[cx.frame].line = b.line;
                        self.equals(l, r)?
                    }
                    _ => raw_equal(&l, &r),
                }))
            }
            BinOp::Ne => {
                return Ok(Value::Bool(!match (l, r) {
                    (Value::Table(_), Value::Table(_)) => {
                        self.frames[cx.frame].line = b.line;
                        self.equals(l, r)?
                    }
                    _ => raw_equal(&l, &r),
                }))
            }
            BinOp::Lt => {
                if let (Value::Int(x), Value::Int(y)) = (l, r) {
                    return Ok(Value::Bool(x < y));
                }
                self.frames[cx.frame].line = b.line;
                return Ok(Value::Bool(self.less_than(l, r, b.line)?));
            }
            BinOp::Le => {
                if let (Value::Int(x), Value::Int(y)) = (l, r) {
                    return Ok(Value::Bool(x <= y));
                }
                self.frames[cx.frame].line = b.line;
                return Ok(Value::Bool(self.less_equal(l, r, b.line)?));
            }
            BinOp::Gt => {
                if let (Value::Int(x), Value::Int(y)) = (l, r) {
                    return Ok(Value::Bool(x > y));
                }
                self.frames[cx.frame].line = b.line;
                return Ok(Value::Bool(self.less_than(r, l, b.line)?));
            }
            BinOp::Ge => {
                if let (Value::Int(x), Value::Int(y)) = (l, r) {
                    return Ok(Value::Bool(x >= y));
                }
                self.frames[cx.frame].line = b.line;
                return Ok(Value::Bool(self.less_equal(r, l, b.line)?));
            }
            BinOp::Concat => return self.concat(l, r, Some((&b.l, &b.r)), b.line, Some(cx)),
            _ => {}
        }
        self.arith(b.op, l, r, Some((&b.l, &b.r)), b.line, Some(cx))
    }

    pub fn concat(
        &mut self,
        l: Value,
        r: Value,
        exprs: Option<(&'c Expr, &'c Expr)>,
        line: u32,
        cx: Option<&Cx<'c>>,
    ) -> R<Value> {
        let l_ok = matches!(l, Value::Str(_) | Value::Int(_) | Value::Float(_));
        let r_ok = matches!(r, Value::Str(_) | Value::Int(_) | Value::Float(_));
        if l_ok && r_ok {
            if let (Value::Str(a), Value::Str(b)) = (l, r) {
                let (la, lb) = (self.str_bytes(a).len(), self.str_bytes(b).len());
                if lb == 0 {
                    return Ok(l);
                }
                if la == 0 {
                    return Ok(r);
                }
                let mut v = Vec::with_capacity(la + lb);
                v.extend_from_slice(self.str_bytes(a));
                v.extend_from_slice(self.str_bytes(b));
                return self.new_str_vec(v);
            }
            let mut v = self.concat_piece(&l).unwrap_or_default();
            match r {
                Value::Str(b) => v.extend_from_slice(self.str_bytes(b)),
                _ => v.extend_from_slice(&self.concat_piece(&r).unwrap_or_default()),
            }
            return self.new_str_vec(v);
        }
        let mut tm = self.metamethod(&l, sid::CONCAT);
        if tm.is_nil() {
            tm = self.metamethod(&r, sid::CONCAT);
        }
        if !tm.is_nil() {
            if let Some(cx) = cx {
                self.frames[cx.frame].line = line;
            }
            self.pending_name = CallName::Metamethod(sid::CONCAT);
            return self.call_meta1(tm, &[l, r]);
        }
        // luaG_concaterror
        let (culprit, ex) = if l_ok { (r, exprs.map(|e| e.1)) } else { (l, exprs.map(|e| e.0)) };
        let info = match cx {
            Some(cx) => self.varinfo_operand(ex, cx),
            None => String::new(),
        };
        let tn = self.type_name_of(&culprit);
        Err(self.op_error(line, &format!("attempt to concatenate a {} value{}", tn, info)))
    }

    pub fn eval_un(&mut self, u: &'c UnData, v: Value, cx: &Cx<'c>) -> R<Value> {
        match u.op {
            UnOp::Not => Ok(Value::Bool(!v.truthy())),
            UnOp::Minus => match v {
                Value::Int(i) => Ok(Value::Int(i.wrapping_neg())),
                Value::Float(f) => Ok(Value::Float(-f)),
                _ => {
                    if let Some(x) = self.to_number(&v) {
                        return Ok(Value::Float(-x));
                    }
                    let tm = self.metamethod(&v, sid::UNM);
                    if !tm.is_nil() {
                        self.frames[cx.frame].line = u.line;
                        self.pending_name = CallName::Metamethod(sid::UNM);
                        return self.call_meta1(tm, &[v, v]);
                    }
                    let info = self.varinfo_operand(Some(&u.e), cx);
                    let tn = self.type_name_of(&v);
                    Err(self.op_error(u.line, &format!("attempt to perform arithmetic on a {} value{}", tn, info)))
                }
            },
            UnOp::BNot => {
                if let Some(i) = self.to_integer(&v) {
                    return Ok(Value::Int(!i));
                }
                let tm = self.metamethod(&v, sid::BNOT);
                if !tm.is_nil() {
                    self.frames[cx.frame].line = u.line;
                    self.pending_name = CallName::Metamethod(sid::BNOT);
                    return self.call_meta1(tm, &[v, v]);
                }
                let info = self.varinfo_operand(Some(&u.e), cx);
                if self.to_number(&v).is_some() {
                    return Err(self.op_error(u.line, &format!("number{} has no integer representation", info)));
                }
                let tn = self.type_name_of(&v);
                Err(self.op_error(u.line, &format!("attempt to perform bitwise operation on a {} value{}", tn, info)))
            }
            UnOp::Len => self.len_of(v, Some(&u.e), u.line, Some(cx)),
        }
    }

    /// luaV_objlen
    pub fn len_of(&mut self, v: Value, e: Option<&'c Expr>, line: u32, cx: Option<&Cx<'c>>) -> R<Value> {
        match v {
            Value::Table(t) => {
                let tb = &self.tables[t as usize];
                if tb.meta != NO_META {
                    let tm = self.tables[tb.meta as usize].get_str(sid::LEN);
                    if !tm.is_nil() {
                        if let Some(cx) = cx {
                            self.frames[cx.frame].line = line;
                        }
                        self.pending_name = CallName::Metamethod(sid::LEN);
                        return self.call_meta1(tm, &[v, v]);
                    }
                }
                Ok(Value::Int(self.tables[t as usize].len()))
            }
            Value::Str(s) => Ok(Value::Int(self.str_bytes(s).len() as i64)),
            _ => {
                let tm = self.metamethod(&v, sid::LEN);
                if !tm.is_nil() {
                    return self.call_meta1(tm, &[v, v]);
                }
                let info = match cx {
                    Some(cx) => self.varinfo(e, cx),
                    None => String::new(),
                };
                let tn = self.type_name_of(&v);
                Err(self.op_error(line, &format!("attempt to get length of a {} value{}", tn, info)))
            }
        }
    }
}

pub fn float_arith(op: BinOp, x: f64, y: f64) -> f64 {
    let r = match op {
        BinOp::Add => x + y,
        BinOp::Sub => x - y,
        BinOp::Mul => x * y,
        BinOp::Div => x / y,
        BinOp::Pow => x.powf(y),
        BinOp::IDiv => (x / y).floor(),
        BinOp::Mod => float_mod(x, y),
        _ => f64::NAN,
    };
    nan_fix(x, y, r)
}

// exact comparisons between integers and floats ---------------------------------------------------

const TWO63: f64 = 9223372036854775808.0;

pub fn int_lt_float(i: i64, f: f64) -> bool {
    if f.is_nan() {
        false
    } else if f >= TWO63 {
        true
    } else if f > -TWO63 {
        // i < f  <=>  i < ceil(f)
        i < f.ceil() as i64
    } else {
        false
    }
}

pub fn int_le_float(i: i64, f: f64) -> bool {
    if f.is_nan() {
        false
    } else if f >= TWO63 {
        true
    } else if f >= -TWO63 {
        // i <= f  <=>  i <= floor(f)
        i <= f.floor() as i64
    } else {
        false
    }
}

pub fn float_lt_int(f: f64, i: i64) -> bool {
    if f.is_nan() {
        false
    } else if f >= TWO63 {
        false
    } else if f >= -TWO63 {
        // f < i  <=>  floor(f) < i
        (f.floor() as i64) < i
    } else {
        true
    }
}

pub fn float_le_int(f: f64, i: i64) -> bool {
    if f.is_nan() {
        false
    } else if f >= TWO63 {
        false
    } else if f > -TWO63 {
        // f <= i  <=>  ceil(f) <= i
        (f.ceil() as i64) <= i
    } else {
        true
    }
}
