//! Resolved AST produced by the parser. Plain owned data (Send + Sync).
#![allow(dead_code)]

#[derive(Clone, Copy, Debug, PartialEq, Eq)]
pub enum BinOp {
    Add,
    Sub,
    Mul,
    Mod,
    Pow,
    Div,
    IDiv,
    BAnd,
    BOr,
    BXor,
    Shl,
    Shr,
    Concat,
    Eq,
    Lt,
    Le,
    Ne,
    Gt,
    Ge,
    And,
    Or,
}

#[derive(Clone, Copy, Debug, PartialEq, Eq)]
pub enum UnOp {
    Minus,
    BNot,
    Not,
    Len,
}

#[derive(Debug)]
pub enum Expr {
    Nil,
    True,
    False,
    Int(i64),
    Flt(f64),
    Str(u32),
    Vararg,
    /// slot, name id
    Local(u16, u32),
    /// upvalue index
    Upval(u16),
    /// global name id (fast mode: plain _ENV)
    Global(u32),
    /// explicit-_ENV mode: env expression, name id
    EnvIndex(Box<Expr>, u32),
    Index(Box<IndexData>),
    Call(Box<CallData>),
    MethCall(Box<MethCallData>),
    Func(u32),
    Bin(Box<BinData>),
    Un(Box<UnData>),
    Table(Box<TableData>),
    Paren(Box<Expr>),
}

#[derive(Debug)]
pub struct IndexData {
    pub obj: Expr,
    pub key: Expr,
    pub line: u32,
}

#[derive(Debug)]
pub struct CallData {
    pub func: Expr,
    pub args: Vec<Expr>,
    pub line: u32,
}

#[derive(Debug)]
pub struct MethCallData {
    pub obj: Expr,
    pub name: u32,
    pub args: Vec<Expr>,
    pub line: u32,
}

#[derive(Debug)]
pub struct BinData {
    pub op: BinOp,
    pub l: Expr,
    pub r: Expr,
    pub line: u32,
}

#[derive(Debug)]
pub struct UnData {
    pub op: UnOp,
    pub e: Expr,
    pub line: u32,
}

#[derive(Debug)]
pub enum TableItem {
    Pos(Expr),
    Named(Expr, Expr),
}

#[derive(Debug)]
pub struct TableData {
    pub items: Vec<TableItem>,
    pub line: u32,
}

/// Declaration of a local variable: frame slot + per-function variable id (index into `Proto::captured`).
#[derive(Clone, Copy, Debug)]
pub struct LocalDecl {
    pub slot: u16,
    pub var: u32,
    pub name: u32,
}

#[derive(Debug)]
pub struct Block {
    pub stmts: Vec<Stmt>,
    /// (label id, index of the statement following the label)
    pub labels: Vec<(u32, u32)>,
}

#[derive(Debug)]
pub struct Stmt {
    pub line: u32,
    pub kind: StmtKind,
}

#[derive(Debug)]
pub enum StmtKind {
    /// expression statement (always a call)
    Call(Expr),
    Local { vars: Vec<LocalDecl>, exprs: Vec<Expr> },
    Local1 { var: LocalDecl, expr: Expr },
    Assign { targets: Vec<Expr>, exprs: Vec<Expr> },
    Assign1 { target: Expr, expr: Expr },
    If { arms: Vec<(Expr, Block)>, else_: Option<Block> },
    While { cond: Expr, body: Block },
    Repeat { body: Block, cond: Expr },
    NumFor { base: u16, var: LocalDecl, start: Expr, limit: Expr, step: Option<Expr>, body: Block },
    GenFor { base: u16, vars: Vec<LocalDecl>, exprs: Vec<Expr>, body: Block },
    Do(Block),
    Return(Vec<Expr>),
    Break,
    /// index into Proto::goto_targets
    Goto(u32),
    LocalFunction { var: LocalDecl, proto: u32 },
    /// no-op (labels, ';')
    Nop,
}

#[derive(Clone, Copy, Debug)]
pub struct UpvalDesc {
    /// true: captures a local slot of the enclosing function; false: an upvalue of the enclosing function
    pub in_stack: bool,
    pub idx: u16,
    pub name: u32,
}

#[derive(Debug)]
pub struct Proto {
    pub nparams: u16,
    pub is_vararg: bool,
    /// number of frame slots (max active locals)
    pub nslots: u16,
    pub body: Block,
    pub upvals: Vec<UpvalDesc>,
    /// per variable id: is it captured by an inner closure?
    pub captured: Vec<bool>,
    /// variable ids of the parameters (slot i = param i)
    pub param_vars: Vec<u32>,
    /// true if any parameter is captured
    pub any_param_captured: bool,
    /// label id targeted by each goto
    pub goto_targets: Vec<u32>,
    pub line: u32,
    /// line of the closing `end` (for the implicit return)
    pub last_line: u32,
}
