//! The evaluator: a tree walker over the resolved AST with a shared value stack, a per-run arena for
//! tables / closures / upvalue cells, step / depth / memory budgets and Lua 5.3 error messages.

use crate::ast::*;
use crate::value::*;
use crate::Chunk;

pub use crate::value::float_to_int_exact;

/// Strings interned first in every chunk, so that their ids are compile-time constants (see `sid`).
pub const FIXED_STRINGS: [&str; 40] = [
    "__index",
    "__newindex",
    "__call",
    "__add",
    "__sub",
    "__mul",
    "__div",
    "__mod",
    "__pow",
    "__unm",
    "__idiv",
    "__band",
    "__bor",
    "__bxor",
    "__shl",
    "__shr",
    "__bnot",
    "__concat",
    "__len",
    "__eq",
    "__lt",
    "__le",
    "__tostring",
    "__metatable",
    "__pairs",
    "__name",
    "nil",
    "true",
    "false",
    "number",
    "string",
    "table",
    "function",
    "boolean",
    "",
    "n",
    "tostring",
    "integer",
    "float",
    "?",
];

#[allow(dead_code)]
pub mod sid {
    pub const INDEX: u32 = 0;
    pub const NEWINDEX: u32 = 1;
    pub const CALL: u32 = 2;
    pub const ADD: u32 = 3;
    pub const SUB: u32 = 4;
    pub const MUL: u32 = 5;
    pub const DIV: u32 = 6;
    pub const MOD: u32 = 7;
    pub const POW: u32 = 8;
    pub const UNM: u32 = 9;
    pub const IDIV: u32 = 10;
    pub const BAND: u32 = 11;
    pub const BOR: u32 = 12;
    pub const BXOR: u32 = 13;
    pub const SHL: u32 = 14;
    pub const SHR: u32 = 15;
    pub const BNOT: u32 = 16;
    pub const CONCAT: u32 = 17;
    pub const LEN: u32 = 18;
    pub const EQ: u32 = 19;
    pub const LT: u32 = 20;
    pub const LE: u32 = 21;
    pub const TOSTRING: u32 = 22;
    pub const METATABLE: u32 = 23;
    pub const PAIRS: u32 = 24;
    pub const NAME: u32 = 25;
    pub const NIL: u32 = 26;
    pub const TRUE: u32 = 27;
    pub const FALSE: u32 = 28;
    pub const NUMBER: u32 = 29;
    pub const STRING: u32 = 30;
    pub const TABLE: u32 = 31;
    pub const FUNCTION: u32 = 32;
    pub const BOOLEAN: u32 = 33;
    pub const EMPTY: u32 = 34;
    pub const N: u32 = 35;
    pub const TOSTRING_FN: u32 = 36;
    pub const INTEGER: u32 = 37;
    pub const FLOAT: u32 = 38;
    pub const QMARK: u32 = 39;
}

// ---------------------------------------------------------------------------------------------- arithmetic helpers

#[inline]
pub fn int_mod(a: i64, b: i64) -> i64 {
    // b != 0
    if b == -1 {
        return 0;
    }
    let m = a % b;
    if m != 0 && (m ^ b) < 0 {
        m + b
    } else {
        m
    }
}

#[inline]
pub fn int_idiv(a: i64, b: i64) -> i64 {
    // b != 0
    if b == -1 {
        return 0i64.wrapping_sub(a);
    }
    let q = a / b;
    if (a ^ b) < 0 && a % b != 0 {
        q - 1
    } else {
        q
    }
}

#[inline]
pub fn float_mod(a: f64, b: f64) -> f64 {
    let m = a % b; // C fmod
    if m * b < 0.0 {
        m + b
    } else {
        m
    }
}

#[inline]
pub fn shift_left(x: i64, y: i64) -> i64 {
    if y <= -64 {
        0
    } else if y < 0 {
        ((x as u64) >> ((-y) as u32)) as i64
    } else if y >= 64 {
        0
    } else {
        ((x as u64) << (y as u32)) as i64
    }
}

/// the x86-64 "default NaN" (sign bit set) that SSE produces for invalid operations
pub const DEFAULT_NAN: f64 = f64::from_bits(0xFFF8_0000_0000_0000u64);

/// fix up the sign of NaN results so that printing matches Linux x86-64 (`-nan` for 0/0)
#[inline]
pub fn nan_fix(a: f64, b: f64, r: f64) -> f64 {
    if r.is_nan() {
        if a.is_nan() {
            a
        } else if b.is_nan() {
            b
        } else {
            DEFAULT_NAN
        }
    } else {
        r
    }
}

// ---------------------------------------------------------------------------------------------- control

#[derive(Debug)]
pub enum Ctl {
    Error(Value),
    Budget(&'static str),
}

pub type R<T> = Result<T, Ctl>;

#[derive(Clone, Copy, Debug, PartialEq)]
pub enum Flow {
    Normal,
    Break,
    Return,
    Goto(u32),
    /// callee + args are on the stack top; payload = number of args
    TailCall(u32),
}

#[derive(Clone, Copy, Debug, PartialEq)]
pub enum CallName {
    None,
    Global(u32),
    Local(u32),
    Upvalue(u32),
    Method(u32),
    Field(u32),
    Constant(u32),
    ForIterator,
    Metamethod(u32),
}

pub struct FrameInfo {
    pub is_lua: bool,
    /// line of the operation in progress (Lua frames)
    pub line: u32,
    /// how this function was called (builtins use it for argument errors)
    pub name: CallName,
    pub builtin: u16,
    pub varargs: Vec<Value>,
}

pub struct Closure {
    pub proto: u32,
    pub upvals: Box<[u32]>,
}

#[derive(Clone, Copy)]
pub struct Cx<'c> {
    pub base: usize,
    pub proto: &'c Proto,
    pub closure: u32,
    pub frame: usize,
}

pub struct Interp<'c> {
    pub chunk: &'c Chunk,
    pub strings: Strings<'c>,
    pub tables: Vec<Table>,
    pub closures: Vec<Closure>,
    pub cells: Vec<Value>,
    pub stack: Vec<Value>,
    pub frames: Vec<FrameInfo>,
    pub globals: u32,
    pub string_meta: u32,
    pub out: Vec<u8>,
    pub steps: u64,
    pub max_steps: u64,
    pub max_depth: usize,
    pub max_objects: usize,
    pub max_string_bytes: usize,
    pub lua_depth: usize,
    pub c_depth: usize,
    pub pending_name: CallName,
    pub rng: u64,
    pub tostring_builtin: u16,
    pub next_builtin: u16,
    /// address of a local of `run_main` (native stack usage guard)
    pub native_base: usize,
    pub assert_adds_position: bool,
}

pub const MAX_C_DEPTH: usize = 195;
/// closures whose `proto` is >= this value are builtins bound to one state value (upvals[0])
pub const BUILTIN_CLOSURE_BASE: u32 = 0xFFFF_0000;
pub const MAX_STACK_VALUES: usize = 4_000_000;
pub const NATIVE_STACK_LIMIT: usize = 128 << 20;

impl<'c> Interp<'c> {
    pub fn new(chunk: &'c Chunk, limits: &crate::Limits, opts: &crate::RunOptions) -> Interp<'c> {
        let strings = Strings::new(&chunk.strings, &chunk.str_index);
        let mut it = Interp {
            chunk,
            strings,
            tables: Vec::with_capacity(256),
            closures: Vec::with_capacity(256),
            cells: Vec::with_capacity(256),
            stack: Vec::with_capacity(1024),
            frames: Vec::with_capacity(64),
            globals: 0,
            string_meta: 0,
            out: Vec::new(),
            steps: 0,
            max_steps: limits.max_steps,
            max_depth: limits.max_call_depth,
            max_objects: limits.max_heap_objects,
            max_string_bytes: limits.max_string_bytes,
            lua_depth: 0,
            c_depth: 0,
            pending_name: CallName::None,
            rng: 0x2545F4914F6CDD1D,
            tostring_builtin: 0,
            next_builtin: 0,
            native_base: 0,
            assert_adds_position: opts.assert_adds_position,
        };
        crate::stdlib::open_libs(&mut it, opts.compat_mathlib);
        it
    }

    // ------------------------------------------------------------------ allocation

    #[inline]
    pub fn check_mem(&self) -> R<()> {
        if self.tables.len() + self.closures.len() + self.cells.len() > self.max_objects {
            return Err(Ctl::Budget("memory"));
        }
        if self.strings.bytes_allocated > self.max_string_bytes {
            return Err(Ctl::Budget("memory"));
        }
        Ok(())
    }

    pub fn new_table(&mut self, t: Table) -> R<Value> {
        if self.tables.len() & 63 == 0 {
            self.check_mem()?;
        }
        self.tables.push(t);
        Ok(Value::Table((self.tables.len() - 1) as u32))
    }

    pub fn new_table_raw(&mut self) -> u32 {
        self.tables.push(Table::new());
        (self.tables.len() - 1) as u32
    }

    #[inline]
    pub fn new_cell(&mut self, v: Value) -> R<u32> {
        if self.cells.len() & 255 == 0 {
            self.check_mem()?;
        }
        self.cells.push(v);
        Ok((self.cells.len() - 1) as u32)
    }

    pub fn new_str(&mut self, s: &[u8]) -> R<Value> {
        let id = self.strings.intern(s);
        if self.strings.bytes_allocated > self.max_string_bytes {
            return Err(Ctl::Budget("memory"));
        }
        Ok(Value::Str(id))
    }

    pub fn new_str_vec(&mut self, s: Vec<u8>) -> R<Value> {
        let id = self.strings.intern_vec(s);
        if self.strings.bytes_allocated > self.max_string_bytes {
            return Err(Ctl::Budget("memory"));
        }
        Ok(Value::Str(id))
    }

    #[inline]
    pub fn str_bytes(&self, id: u32) -> &[u8] {
        self.strings.get(id)
    }

    // ------------------------------------------------------------------ errors

    pub fn err_val(&mut self, msg: String) -> Ctl {
        match self.new_str_vec(msg.into_bytes()) {
            Ok(v) => Ctl::Error(v),
            Err(c) => c,
        }
    }

    /// runtime error raised by the VM at `line` of the current Lua function
    pub fn rt_error(&mut self, line: u32, msg: &str) -> Ctl {
        self.err_val(format!("stdin:{}: {}", line, msg))
    }

    /// luaL_where(level): level 0 = running function
    pub fn where_(&self, level: usize) -> String {
        let n = self.frames.len();
        if level < n {
            let f = &self.frames[n - 1 - level];
            if f.is_lua {
                return format!("stdin:{}: ", f.line);
            }
        }
        String::new()
    }

    /// luaL_error from inside a builtin (position = caller of the builtin)
    pub fn lib_error(&mut self, msg: &str) -> Ctl {
        let w = self.where_(1);
        self.err_val(format!("{}{}", w, msg))
    }

    #[inline]
    pub fn step(&mut self) -> R<()> {
        self.steps += 1;
        if self.steps > self.max_steps {
            return Err(Ctl::Budget("steps"));
        }
        Ok(())
    }

    #[inline]
    fn set_line(&mut self, cx: &Cx<'c>, line: u32) {
        self.frames[cx.frame].line = line;
    }

    // ------------------------------------------------------------------ running

    pub fn run_main(&mut self) -> R<()> {
        let marker = 0u8;
        self.native_base = &marker as *const u8 as usize;
        let main = self.chunk.main;
        let env_cell = self.new_cell(Value::Table(self.globals))?;
        self.closures.push(Closure { proto: main, upvals: vec![env_cell].into_boxed_slice() });
        let f = Value::Func((self.closures.len() - 1) as u32);
        let base = self.stack.len();
        self.call(f, base, 0)?;
        self.stack.truncate(base);
        Ok(())
    }

    /// Call `f` with the `nargs` arguments at stack[base..]; stack.len() must be base+nargs.
    /// On return the results are at stack[base..] and the returned count says how many.
    pub fn call(&mut self, f: Value, base: usize, nargs: usize) -> R<usize> {
        let mut f = f;
        let mut nargs = nargs;
        let name = std::mem::replace(&mut self.pending_name, CallName::None);
        let mut name = name;
        let mut pushed_lua = false;
        loop {
            match f {
                Value::Func(cid) => {
                    let pr = self.closures[cid as usize].proto;
                    if pr >= BUILTIN_CLOSURE_BASE {
                        // a builtin bound to a state value (e.g. the gmatch iterator)
                        let cell = self.closures[cid as usize].upvals[0];
                        let st = self.cells[cell as usize];
                        self.stack.insert(base, st);
                        nargs += 1;
                        f = Value::Builtin((pr - BUILTIN_CLOSURE_BASE) as u16);
                        continue;
                    }
                    self.step()?;
                    let proto: &'c Proto = {
                        let chunk: &'c Chunk = self.chunk;
                        &chunk.protos[self.closures[cid as usize].proto as usize]
                    };
                    if !pushed_lua {
                        if self.lua_depth >= self.max_depth {
                            return Err(Ctl::Budget("stack"));
                        }
                        self.lua_depth += 1;
                    }
                    if self.stack.len() > MAX_STACK_VALUES {
                        return Err(Ctl::Budget("memory"));
                    }
                    {
                        // native stack guard (callers run us on 256 MB stacks; typical use is < 1 MB)
                        let marker = 0u8;
                        let here = &marker as *const u8 as usize;
                        if self.native_base.abs_diff(here) > NATIVE_STACK_LIMIT {
                            return Err(Ctl::Budget("stack"));
                        }
                    }
                    let np = proto.nparams as usize;
                    let mut varargs = Vec::new();
                    if nargs > np {
                        if proto.is_vararg {
                            varargs = self.stack[base + np..base + nargs].to_vec();
                        }
                        self.stack.truncate(base + np);
                    }
                    self.stack.resize(base + proto.nslots as usize, Value::Nil);
                    if proto.any_param_captured {
                        for i in 0..np {
                            if proto.captured[proto.param_vars[i] as usize] {
                                let c = self.new_cell(self.stack[base + i])?;
                                self.stack[base + i] = Value::Cell(c);
                            }
                        }
                    }
                    if pushed_lua {
                        // tail call: replace the frame
                        let fr = self.frames.last_mut().unwrap();
                        fr.line = proto.line;
                        fr.name = CallName::None;
                        fr.varargs = varargs;
                    } else {
                        self.frames.push(FrameInfo {
                            is_lua: true,
                            line: proto.line,
                            name,
                            builtin: 0,
                            varargs,
                        });
                        pushed_lua = true;
                    }
                    let cx = Cx { base, proto, closure: cid, frame: self.frames.len() - 1 };
                    let flow = match self.exec_block(&proto.body, &cx) {
                        Ok(fl) => fl,
                        Err(e) => {
                            // leave frames / depth for pcall to restore
                            return Err(e);
                        }
                    };
                    let top = base + proto.nslots as usize;
                    match flow {
                        Flow::Return => {
                            let n = self.stack.len() - top;
                            self.stack.copy_within(top.., base);
                            self.stack.truncate(base + n);
                            self.frames.pop();
                            self.lua_depth -= 1;
                            return Ok(n);
                        }
                        Flow::TailCall(n) => {
                            // stack[top] = callee, stack[top+1..] = args
                            let n = n as usize;
                            f = self.stack[top];
                            self.stack.copy_within(top + 1.., base);
                            self.stack.truncate(base + n);
                            nargs = n;
                            name = CallName::None;
                            continue;
                        }
                        _ => {
                            self.stack.truncate(base);
                            self.frames.pop();
                            self.lua_depth -= 1;
                            return Ok(0);
                        }
                    }
                }
                Value::Builtin(id) => {
                    if pushed_lua {
                        // a tail call to a builtin: the Lua frame is gone
                        self.frames.pop();
                        self.lua_depth -= 1;
                    }
                    self.step()?;
                    if self.c_depth >= MAX_C_DEPTH {
                        return Err(Ctl::Budget("stack"));
                    }
                    self.c_depth += 1;
                    self.frames.push(FrameInfo { is_lua: false, line: 0, name, builtin: id, varargs: Vec::new() });
                    let func = crate::stdlib::BUILTINS[id as usize].1;
                    let r = func(self, base, nargs);
                    match r {
                        Ok(n) => {
                            self.frames.pop();
                            self.c_depth -= 1;
                            return Ok(n);
                        }
                        Err(e) => return Err(e),
                    }
                }
                other => {
                    // __call metamethod (must be a function in 5.3)
                    let tm = self.metamethod(&other, sid::CALL);
                    match tm {
                        Value::Func(_) | Value::Builtin(_) => {
                            self.stack.insert(base, other);
                            nargs += 1;
                            f = tm;
                            continue;
                        }
                        _ => {
                            if pushed_lua {
                                self.frames.pop();
                                self.lua_depth -= 1;
                            }
                            let info = match name {
                                CallName::Global(n) => format!(" (global '{}')", self.lossy(n)),
                                CallName::Local(n) => format!(" (local '{}')", self.lossy(n)),
                                CallName::Upvalue(n) => format!(" (upvalue '{}')", self.lossy(n)),
                                CallName::Method(n) => format!(" (method '{}')", self.lossy(n)),
                                CallName::Field(n) => format!(" (field '{}')", self.lossy(n)),
                                CallName::Constant(n) => format!(" (constant '{}')", self.lossy(n)),
                                _ => String::new(),
                            };
                            let tn = self.type_name_of(&other);
                            let w = self.where_(0);
                            return Err(self.err_val(format!("{}attempt to call a {} value{}", w, tn, info)));
                        }
                    }
                }
            }
        }
    }

    pub fn lossy(&self, id: u32) -> String {
        String::from_utf8_lossy(self.str_bytes(id)).to_string()
    }

    /// call a function value with explicit args (used by builtins / metamethods); returns result count,
    /// results are left at stack[base..] where base = stack.len() at entry
    pub fn call_values(&mut self, f: Value, args: &[Value]) -> R<usize> {
        let base = self.stack.len();
        self.stack.extend_from_slice(args);
        self.call(f, base, args.len())
    }

    /// call and return only the first result (stack restored)
    pub fn call1(&mut self, f: Value, args: &[Value]) -> R<Value> {
        let base = self.stack.len();
        let n = self.call_values(f, args)?;
        let v = if n > 0 { self.stack[base] } else { Value::Nil };
        self.stack.truncate(base);
        Ok(v)
    }

    /// metamethod call from the VM: counts as a C-level call
    pub fn call_meta1(&mut self, f: Value, args: &[Value]) -> R<Value> {
        if self.c_depth >= MAX_C_DEPTH {
            return Err(Ctl::Budget("stack"));
        }
        self.c_depth += 1;
        let r = self.call1(f, args);
        if r.is_ok() {
            self.c_depth -= 1;
        }
        r
    }

    // ------------------------------------------------------------------ statements

    pub fn exec_block(&mut self, blk: &'c Block, cx: &Cx<'c>) -> R<Flow> {
        let mut i = 0;
        let n = blk.stmts.len();
        while i < n {
            let s = &blk.stmts[i];
            i += 1;
            let flow = self.exec_stmt(s, cx)?;
            match flow {
                Flow::Normal => {}
                Flow::Goto(l) => {
                    let mut found = false;
                    for &(id, pos) in blk.labels.iter() {
                        if id == l {
                            i = pos as usize;
                            found = true;
                            break;
                        }
                    }
                    if !found {
                        return Ok(flow);
                    }
                    self.step()?;
                }
                other => return Ok(other),
            }
        }
        Ok(Flow::Normal)
    }

    #[inline]
    fn declare(&mut self, cx: &Cx<'c>, d: &LocalDecl, v: Value) -> R<()> {
        if cx.proto.captured[d.var as usize] {
            let c = self.new_cell(v)?;
            self.stack[cx.base + d.slot as usize] = Value::Cell(c);
        } else {
            self.stack[cx.base + d.slot as usize] = v;
        }
        Ok(())
    }

    #[inline]
    fn set_local(&mut self, cx: &Cx<'c>, slot: u16, v: Value) {
        let p = cx.base + slot as usize;
        if let Value::Cell(c) = self.stack[p] {
            self.cells[c as usize] = v;
        } else {
            self.stack[p] = v;
        }
    }

    fn exec_stmt(&mut self, s: &'c Stmt, cx: &Cx<'c>) -> R<Flow> {
        self.steps += 1;
        if self.steps > self.max_steps {
            return Err(Ctl::Budget("steps"));
        }
        self.frames[cx.frame].line = s.line;
        match &s.kind {
            StmtKind::Local1 { var, expr } => {
                let v = self.eval(expr, cx)?;
                self.declare(cx, var, v)?;
            }
            StmtKind::Assign1 { target, expr } => match target {
                Expr::Local(slot, _) => {
                    let v = self.eval(expr, cx)?;
                    self.set_local(cx, *slot, v);
                }
                Expr::Upval(i) => {
                    let v = self.eval(expr, cx)?;
                    let c = self.closures[cx.closure as usize].upvals[*i as usize];
                    self.cells[c as usize] = v;
                }
                Expr::Global(name) => {
                    let v = self.eval(expr, cx)?;
                    let g = self.globals;
                    self.set_global(g, *name, v, s.line, cx)?;
                }
                Expr::Index(d) => {
                    let obj = self.eval(&d.obj, cx)?;
                    let key = self.eval(&d.key, cx)?;
                    let v = self.eval(expr, cx)?;
                    self.set_index(obj, key, v, Some(&d.obj), d.line, cx)?;
                }
                Expr::EnvIndex(env, name) => {
                    let obj = self.eval(env, cx)?;
                    let v = self.eval(expr, cx)?;
                    self.set_index(obj, Value::Str(*name), v, Some(env), s.line, cx)?;
                }
                _ => return Err(self.internal("bad assignment target")),
            },
            StmtKind::Call(e) => {
                let base = self.stack.len();
                self.eval_multi(e, cx)?;
                self.stack.truncate(base);
            }
            StmtKind::If { arms, else_ } => {
                for (c, b) in arms.iter() {
                    if self.eval(c, cx)?.truthy() {
                        return self.exec_block(b, cx);
                    }
                }
                if let Some(b) = else_ {
                    return self.exec_block(b, cx);
                }
            }
            StmtKind::Return(exprs) => {
                if exprs.len() == 1 {
                    match &exprs[0] {
                        Expr::Call(cd) => {
                            // tail call
                            let top = self.stack.len();
                            let f = self.eval(&cd.func, cx)?;
                            self.stack.push(f);
                            let n = self.eval_list_push(&cd.args, cx)?;
                            self.set_line(cx, cd.line);
                            if let Value::Func(_) = f {
                                return Ok(Flow::TailCall(n as u32));
                            }
                            // not a Lua function: ordinary call
                            self.pending_name = self.call_name_of(&cd.func, cx);
                            self.stack.remove(top);
                            self.call(f, top, n)?;
                            return Ok(Flow::Return);
                        }
                        e => {
                            self.eval_multi(e, cx)?;
                            return Ok(Flow::Return);
                        }
                    }
                }
                self.eval_list_push(exprs, cx)?;
                return Ok(Flow::Return);
            }
            StmtKind::While { cond, body } => loop {
                if !self.eval(cond, cx)?.truthy() {
                    break;
                }
                match self.exec_block(body, cx)? {
                    Flow::Normal => {}
                    Flow::Break => break,
                    other => return Ok(other),
                }
                self.step()?;
            },
            StmtKind::Local { vars, exprs } => {
                let base = self.stack.len();
                let n = self.eval_list_push(exprs, cx)?;
                for (i, d) in vars.iter().enumerate() {
                    let v = if i < n { self.stack[base + i] } else { Value::Nil };
                    self.declare(cx, d, v)?;
                }
                self.stack.truncate(base);
            }
            StmtKind::Assign { targets, exprs } => {
                self.exec_multi_assign(targets, exprs, s.line, cx)?;
            }
            StmtKind::Do(b) => return self.exec_block(b, cx),
            StmtKind::Break => return Ok(Flow::Break),
            StmtKind::Goto(g) => {
                let l = cx.proto.goto_targets[*g as usize];
                return Ok(Flow::Goto(l));
            }
            StmtKind::Nop => {}
            StmtKind::LocalFunction { var, proto } => {
                if cx.proto.captured[var.var as usize] {
                    let c = self.new_cell(Value::Nil)?;
                    self.stack[cx.base + var.slot as usize] = Value::Cell(c);
                    let f = self.make_closure(*proto, cx)?;
                    self.cells[c as usize] = f;
                } else {
                    let f = self.make_closure(*proto, cx)?;
                    self.stack[cx.base + var.slot as usize] = f;
                }
            }
            StmtKind::Repeat { body, cond } => loop {
                match self.exec_block(body, cx)? {
                    Flow::Normal => {}
                    Flow::Break => break,
                    other => return Ok(other),
                }
                if self.eval(cond, cx)?.truthy() {
                    break;
                }
                self.step()?;
            },
            StmtKind::NumFor { var, start, limit, step, body, .. } => {
                return self.exec_numfor(var, start, limit, step.as_ref(), body, s.line, cx);
            }
            StmtKind::GenFor { vars, exprs, body, .. } => {
                return self.exec_genfor(vars, exprs, body, s.line, cx);
            }
        }
        Ok(Flow::Normal)
    }

    fn exec_multi_assign(&mut self, targets: &'c [Expr], exprs: &'c [Expr], line: u32, cx: &Cx<'c>) -> R<()> {
        // 1. evaluate table / key sub-expressions of the targets, left to right
        let tbase = self.stack.len();
        for t in targets.iter() {
            match t {
                Expr::Index(d) => {
                    let o = self.eval(&d.obj, cx)?;
                    self.stack.push(o);
                    let k = self.eval(&d.key, cx)?;
                    self.stack.push(k);
                }
                Expr::EnvIndex(env, name) => {
                    let o = self.eval(env, cx)?;
                    self.stack.push(o);
                    self.stack.push(Value::Str(*name));
                }
                _ => {
                    self.stack.push(Value::Nil);
                    self.stack.push(Value::Nil);
                }
            }
        }
        // 2. right-hand sides
        let vbase = self.stack.len();
        let n = self.eval_list_push(exprs, cx)?;
        // 3. assign from the last target to the first
        for (i, t) in targets.iter().enumerate().rev() {
            let v = if i < n { self.stack[vbase + i] } else { Value::Nil };
            match t {
                Expr::Local(slot, _) => self.set_local(cx, *slot, v),
                Expr::Upval(u) => {
                    let c = self.closures[cx.closure as usize].upvals[*u as usize];
                    self.cells[c as usize] = v;
                }
                Expr::Global(name) => {
                    let g = self.globals;
                    self.set_global(g, *name, v, line, cx)?;
                }
                Expr::Index(d) => {
                    let o = self.stack[tbase + 2 * i];
                    let k = self.stack[tbase + 2 * i + 1];
                    self.set_index(o, k, v, Some(&d.obj), d.line, cx)?;
                }
                Expr::EnvIndex(env, _) => {
                    let o = self.stack[tbase + 2 * i];
                    let k = self.stack[tbase + 2 * i + 1];
                    self.set_index(o, k, v, Some(env), line, cx)?;
                }
                _ => return Err(self.internal("bad assignment target")),
            }
        }
        self.stack.truncate(tbase);
        Ok(())
    }

    fn for_error(&mut self, line: u32, what: &str) -> Ctl {
        self.rt_error(line, &format!("'for' {} must be a number", what))
    }

    #[allow(clippy::too_many_arguments)]
    fn exec_numfor(
        &mut self,
        var: &'c LocalDecl,
        start: &'c Expr,
        limit: &'c Expr,
        step: Option<&'c Expr>,
        body: &'c Block,
        line: u32,
        cx: &Cx<'c>,
    ) -> R<Flow> {
        let init = self.eval(start, cx)?;
        let lim = self.eval(limit, cx)?;
        let stp = match step {
            Some(e) => self.eval(e, cx)?,
            None => Value::Int(1),
        };
        // forprep
        if let (Value::Int(i0), Value::Int(st)) = (init, stp) {
            if let Some((ilimit, stopnow)) = self.forlimit(&lim, st) {
                let initv = if stopnow { 0 } else { i0 };
                let mut idx = initv.wrapping_sub(st);
                loop {
                    idx = idx.wrapping_add(st);
                    let cont = if 0 < st { idx <= ilimit } else { ilimit <= idx };
                    if !cont {
                        break;
                    }
                    self.declare(cx, var, Value::Int(idx))?;
                    match self.exec_block(body, cx)? {
                        Flow::Normal => {}
                        Flow::Break => break,
                        other => return Ok(other),
                    }
                    self.step()?;
                }
                return Ok(Flow::Normal);
            }
        }
        let nlimit = match self.to_number(&lim) {
            Some(x) => x,
            None => return Err(self.for_error(line, "limit")),
        };
        let nstep = match self.to_number(&stp) {
            Some(x) => x,
            None => return Err(self.for_error(line, "step")),
        };
        let ninit = match self.to_number(&init) {
            Some(x) => x,
            None => return Err(self.for_error(line, "initial value")),
        };
        let mut idx = ninit - nstep;
        loop {
            idx += nstep;
            let cont = if 0.0 < nstep { idx <= nlimit } else { nlimit <= idx };
            if !cont {
                break;
            }
            self.declare(cx, var, Value::Float(idx))?;
            match self.exec_block(body, cx)? {
                Flow::Normal => {}
                Flow::Break => break,
                other => return Ok(other),
            }
            self.step()?;
        }
        Ok(Flow::Normal)
    }

    /// forlimit of lvm.c: Some((limit, stopnow)) if the limit can be used in an integer loop
    fn forlimit(&self, lim: &Value, step: i64) -> Option<(i64, bool)> {
        // luaV_tointeger with mode floor (step>=0) / ceil (step<0); strings are accepted
        let num = match *lim {
            Value::Int(i) => return Some((i, false)),
            Value::Float(f) => f,
            Value::Str(s) => match crate::numfmt::str2number(self.str_bytes(s)) {
                Some(crate::numfmt::Num::Int(i)) => return Some((i, false)),
                Some(crate::numfmt::Num::Float(f)) => f,
                None => return None,
            },
            _ => return None,
        };
        let f = if step < 0 { num.ceil() } else { num.floor() };
        if f >= -9223372036854775808.0 && f < 9223372036854775808.0 {
            return Some((f as i64, false));
        }
        if num.is_nan() {
            // tonumber succeeds, comparison 0 < nan false -> MININTEGER, stop if step >= 0
            return Some((i64::MIN, step >= 0));
        }
        if 0.0 < num {
            Some((i64::MAX, step < 0))
        } else {
            Some((i64::MIN, step >= 0))
        }
    }

    fn exec_genfor(
        &mut self,
        vars: &'c [LocalDecl],
        exprs: &'c [Expr],
        body: &'c Block,
        line: u32,
        cx: &Cx<'c>,
    ) -> R<Flow> {
        let base = self.stack.len();
        let n = self.eval_list_push(exprs, cx)?;
        let f = if n > 0 { self.stack[base] } else { Value::Nil };
        let st = if n > 1 { self.stack[base + 1] } else { Value::Nil };
        let mut ctl = if n > 2 { self.stack[base + 2] } else { Value::Nil };
        self.stack.truncate(base);
        let next_id = self.next_builtin;
        loop {
            // fast path: `next` over a plain table
            let mut fast = false;
            if let (Value::Builtin(b), Value::Table(t)) = (f, st) {
                if b == next_id {
                    fast = true;
                    self.steps += 1;
                    let r = self.tables[t as usize].next(&ctl);
                    match r {
                        Ok(Some((k, v))) => {
                            ctl = k;
                            self.declare(cx, &vars[0], k)?;
                            if vars.len() > 1 {
                                self.declare(cx, &vars[1], v)?;
                                for d in vars[2..].iter() {
                                    self.declare(cx, d, Value::Nil)?;
                                }
                            }
                        }
                        Ok(None) => break,
                        Err(()) => {
                            self.set_line(cx, line);
                            return Err(self.err_val("invalid key to 'next'".to_string()));
                        }
                    }
                }
            }
            if !fast {
                self.set_line(cx, line);
                self.stack.push(st);
                self.stack.push(ctl);
                self.pending_name = CallName::ForIterator;
                let nr = self.call(f, base, 2)?;
                let first = if nr > 0 { self.stack[base] } else { Value::Nil };
                if first.is_nil() {
                    self.stack.truncate(base);
                    break;
                }
                ctl = first;
                for (i, d) in vars.iter().enumerate() {
                    let v = if i < nr { self.stack[base + i] } else { Value::Nil };
                    self.declare(cx, d, v)?;
                }
                self.stack.truncate(base);
            }
            match self.exec_block(body, cx)? {
                Flow::Normal => {}
                Flow::Break => break,
                other => return Ok(other),
            }
            self.step()?;
        }
        Ok(Flow::Normal)
    }

    // ------------------------------------------------------------------ expressions

    pub fn make_closure(&mut self, pidx: u32, cx: &Cx<'c>) -> R<Value> {
        let chunk: &'c Chunk = self.chunk;
        let p = &chunk.protos[pidx as usize];
        let mut ups = Vec::with_capacity(p.upvals.len());
        for u in p.upvals.iter() {
            if u.in_stack {
                match self.stack[cx.base + u.idx as usize] {
                    Value::Cell(c) => ups.push(c),
                    other => {
                        // cannot happen for declared variables; be defensive (e.g. goto past a declaration)
                        let c = self.new_cell(other)?;
                        self.stack[cx.base + u.idx as usize] = Value::Cell(c);
                        ups.push(c);
                    }
                }
            } else {
                ups.push(self.closures[cx.closure as usize].upvals[u.idx as usize]);
            }
        }
        if self.closures.len() & 63 == 0 {
            self.check_mem()?;
        }
        self.closures.push(Closure { proto: pidx, upvals: ups.into_boxed_slice() });
        Ok(Value::Func((self.closures.len() - 1) as u32))
    }

    pub fn internal(&mut self, what: &str) -> Ctl {
        self.err_val(format!("minilua internal: {}", what))
    }

    #[inline]
    fn get_local(&self, cx: &Cx<'c>, slot: u16) -> Value {
        match self.stack[cx.base + slot as usize] {
            Value::Cell(c) => self.cells[c as usize],
            v => v,
        }
    }

    pub fn eval(&mut self, e: &'c Expr, cx: &Cx<'c>) -> R<Value> {
        Ok(match e {
            Expr::Local(slot, _) => self.get_local(cx, *slot),
            Expr::Int(i) => Value::Int(*i),
            Expr::Str(s) => Value::Str(*s),
            Expr::Global(name) => {
                let g = &self.tables[self.globals as usize];
                let v = g.get_str(*name);
                if v.is_nil() && g.meta != NO_META {
                    let gv = Value::Table(self.globals);
                    let line = self.frames[cx.frame].line;
                    return self.index(gv, Value::Str(*name), None, line, cx);
                }
                v
            }
            Expr::Upval(i) => {
                let c = self.closures[cx.closure as usize].upvals[*i as usize];
                self.cells[c as usize]
            }
            Expr::Nil => Value::Nil,
            Expr::True => Value::Bool(true),
            Expr::False => Value::Bool(false),
            Expr::Flt(f) => Value::Float(*f),
            Expr::Call(_) | Expr::MethCall(_) => {
                let base = self.stack.len();
                let n = self.eval_multi(e, cx)?;
                let v = if n > 0 { self.stack[base] } else { Value::Nil };
                self.stack.truncate(base);
                v
            }
            Expr::Index(d) => {
                let obj = self.eval(&d.obj, cx)?;
                let key = self.eval(&d.key, cx)?;
                if let Value::Table(t) = obj {
                    let tb = &self.tables[t as usize];
                    let v = match key {
                        Value::Int(i) => tb.get_int(i),
                        Value::Str(s) => tb.get_str(s),
                        Value::Nil => Value::Nil,
                        Value::Float(_) => match normalize_key(key) {
                            Some(k) => tb.get(&k),
                            None => Value::Nil,
                        },
                        _ => tb.get(&key),
                    };
                    if !v.is_nil() || tb.meta == NO_META {
                        return Ok(v);
                    }
                }
                return self.index(obj, key, Some(&d.obj), d.line, cx);
            }
            Expr::Bin(b) => return self.eval_bin(b, cx),
            Expr::Un(u) => {
                let v = self.eval(&u.e, cx)?;
                return self.eval_un(u, v, cx);
            }
            Expr::Func(p) => return self.make_closure(*p, cx),
            Expr::Table(t) => return self.eval_table(t, cx),
            Expr::Paren(inner) => return self.eval(inner, cx),
            Expr::Vararg => {
                let va = &self.frames[cx.frame].varargs;
                if va.is_empty() {
                    Value::Nil
                } else {
                    va[0]
                }
            }
            Expr::EnvIndex(env, name) => {
                let obj = self.eval(env, cx)?;
                let line = self.frames[cx.frame].line;
                return self.index(obj, Value::Str(*name), Some(env), line, cx);
            }
        })
    }

    /// evaluate a multi-value expression (call / vararg / anything), pushing all results; returns count
    pub fn eval_multi(&mut self, e: &'c Expr, cx: &Cx<'c>) -> R<usize> {
        match e {
            Expr::Call(cd) => {
                let f = self.eval(&cd.func, cx)?;
                let base = self.stack.len();
                let n = self.eval_list_push(&cd.args, cx)?;
                self.frames[cx.frame].line = cd.line;
                self.pending_name = self.call_name_of(&cd.func, cx);
                self.call(f, base, n)
            }
            Expr::MethCall(md) => {
                let obj = self.eval(&md.obj, cx)?;
                let f = self.index(obj, Value::Str(md.name), Some(&md.obj), md.line, cx)?;
                let base = self.stack.len();
                self.stack.push(obj);
                let n = self.eval_list_push(&md.args, cx)?;
                self.frames[cx.frame].line = md.line;
                self.pending_name = CallName::Method(md.name);
                self.call(f, base, n + 1)
            }
            Expr::Vararg => {
                let n = self.frames[cx.frame].varargs.len();
                for i in 0..n {
                    let v = self.frames[cx.frame].varargs[i];
                    self.stack.push(v);
                }
                Ok(n)
            }
            _ => {
                let v = self.eval(e, cx)?;
                self.stack.push(v);
                Ok(1)
            }
        }
    }

    /// push the values of an expression list (last one expanded); returns count
    pub fn eval_list_push(&mut self, list: &'c [Expr], cx: &Cx<'c>) -> R<usize> {
        let n = list.len();
        if n == 0 {
            return Ok(0);
        }
        let base = self.stack.len();
        for e in &list[..n - 1] {
            let v = self.eval(e, cx)?;
            self.stack.push(v);
        }
        let last = &list[n - 1];
        match last {
            Expr::Call(_) | Expr::MethCall(_) | Expr::Vararg => {
                self.eval_multi(last, cx)?;
            }
            _ => {
                let v = self.eval(last, cx)?;
                self.stack.push(v);
            }
        }
        Ok(self.stack.len() - base)
    }

    fn call_name_of(&self, f: &Expr, cx: &Cx<'c>) -> CallName {
        match f {
            Expr::Local(_, n) => CallName::Local(*n),
            Expr::Global(n) => CallName::Global(*n),
            Expr::EnvIndex(_, n) => CallName::Global(*n),
            Expr::Upval(i) => CallName::Upvalue(cx.proto.upvals[*i as usize].name),
            Expr::Index(d) => match d.key {
                Expr::Str(s) => {
                    if self.is_env_expr(&d.obj, cx) {
                        CallName::Global(s)
                    } else {
                        CallName::Field(s)
                    }
                }
                _ => CallName::Field(sid::QMARK),
            },
            Expr::Str(s) => CallName::Constant(*s),
            _ => CallName::None,
        }
    }

    fn is_env_expr(&self, e: &Expr, cx: &Cx<'c>) -> bool {
        let envn = self.chunk.env_name;
        match e {
            Expr::Local(_, n) => *n == envn,
            Expr::Upval(i) => cx.proto.upvals[*i as usize].name == envn,
            _ => false,
        }
    }

    /// " (local 'x')"-style description of an operand expression (ldebug.c varinfo)
    pub fn varinfo(&self, e: Option<&Expr>, cx: &Cx<'c>) -> String {
        let e = match e {
            Some(e) => e,
            None => return String::new(),
        };
        let (kind, name) = match e {
            Expr::Local(_, n) => ("local", *n),
            Expr::Global(n) => ("global", *n),
            Expr::EnvIndex(_, n) => ("global", *n),
            Expr::Upval(i) => ("upvalue", cx.proto.upvals[*i as usize].name),
            Expr::Index(d) => match d.key {
                Expr::Str(s) => {
                    if self.is_env_expr(&d.obj, cx) {
                        ("global", s)
                    } else {
                        ("field", s)
                    }
                }
                _ => ("field", sid::QMARK),
            },
            Expr::Str(s) => ("constant", *s),
            _ => return String::new(),
        };
        format!(" ({} '{}')", kind, self.lossy(name))
    }

    fn eval_table(&mut self, t: &'c TableData, cx: &Cx<'c>) -> R<Value> {
        let mut npos = 0;
        for it in t.items.iter() {
            if let TableItem::Pos(_) = it {
                npos += 1;
            }
        }
        let tv = self.new_table(Table::with_capacity(npos, t.items.len() - npos))?;
        let tid = match tv {
            Value::Table(i) => i as usize,
            _ => 0,
        };
        // Like lparser.c/lcode.c: positional items are buffered and stored by SETLIST in batches of 50
        // (flushed when the *next* field starts) and at the end; named fields are stored immediately.
        let n = t.items.len();
        let pend_base = self.stack.len();
        let mut stored: i64 = 0;
        for (i, it) in t.items.iter().enumerate() {
            if self.stack.len() - pend_base == 50 {
                for j in 0..50 {
                    let v = self.stack[pend_base + j];
                    stored += 1;
                    self.tables[tid].set(Value::Int(stored), v);
                }
                self.stack.truncate(pend_base);
            }
            match it {
                TableItem::Pos(e) => {
                    if i == n - 1 && matches!(e, Expr::Call(_) | Expr::MethCall(_) | Expr::Vararg) {
                        self.eval_multi(e, cx)?;
                    } else {
                        let v = self.eval(e, cx)?;
                        self.stack.push(v);
                    }
                }
                TableItem::Named(k, ve) => {
                    let kv = self.eval(k, cx)?;
                    let v = self.eval(ve, cx)?;
                    let key = match kv {
                        Value::Nil => return Err(self.rt_error(t.line, "table index is nil")),
                        _ => match normalize_key(kv) {
                            Some(k) => k,
                            None => return Err(self.rt_error(t.line, "table index is NaN")),
                        },
                    };
                    self.tables[tid].set(key, v);
                }
            }
        }
        let cnt = self.stack.len() - pend_base;
        for j in 0..cnt {
            let v = self.stack[pend_base + j];
            stored += 1;
            self.tables[tid].set(Value::Int(stored), v);
        }
        self.stack.truncate(pend_base);
        Ok(tv)
    }
}
