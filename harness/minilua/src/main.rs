fn main(){}
