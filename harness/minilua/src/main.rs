//! `lua` stand-in: `lua < chunk`, `lua -`, `lua file.lua`.
use std::io::{Read, Write};

fn main() {
    let args: Vec<String> = std::env::args().collect();
    let mut src = Vec::new();
    let file = args.iter().skip(1).find(|a| !a.starts_with('-') || a.as_str() == "-");
    match file {
        Some(f) if f != "-" => match std::fs::read(f) {
            Ok(b) => src = b,
            Err(e) => {
                eprintln!("lua: cannot open {}: {}", f, e);
                std::process::exit(1);
            }
        },
        _ => {
            let _ = std::io::stdin().read_to_end(&mut src);
        }
    }
    // luaL_loadfile skips a first line starting with '#'
    if src.first() == Some(&b'#') {
        let end = src.iter().position(|&b| b == b'\n').unwrap_or(src.len());
        for b in src[..end].iter_mut() {
            *b = b' ';
        }
    }
    let code = minilua::with_big_stack(move || {
        let chunk = match minilua::load(&src) {
            Ok(c) => c,
            Err(e) => {
                eprintln!("lua: {}\nstack traceback:\n\t[C]: in ?", e.msg);
                return 1;
            }
        };
        let limits = minilua::Limits {
            max_steps: 200_000_000,
            max_call_depth: 190,
            max_heap_objects: 20_000_000,
            max_string_bytes: 512 << 20,
        };
        let r = minilua::run(&chunk, &limits);
        let _ = std::io::stdout().write_all(&r.stdout);
        let _ = std::io::stdout().flush();
        match r.outcome {
            minilua::RunOutcome::Ok => 0,
            minilua::RunOutcome::Error { msg } => {
                eprintln!("lua: {}\nstack traceback:\n\t[C]: in ?", msg);
                1
            }
            minilua::RunOutcome::OutOfBudget { what } => {
                eprintln!("lua: minilua budget exceeded ({})", what);
                2
            }
        }
    });
    std::process::exit(code);
}
