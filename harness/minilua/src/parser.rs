//! Parser core: token handling, scoping (FuncState / BlockCnt / labels / gotos, as in lparser.c) and a
//! simulation of lcode.c's register discipline (no code is emitted, only `freereg`/`maxstacksize` and the
//! per-function constant table are tracked).  The grammar itself lives in `grammar.rs`.

use crate::ast::*;
use crate::lexer::{LexError, Lexer, Tok, Token};
use std::collections::HashMap;
use std::hash::{BuildHasherDefault, Hasher};

/// a tiny multiplicative hasher (the keys are small integers / enums)
#[derive(Default, Clone, Copy)]
pub struct Fx(u64);
impl Hasher for Fx {
    fn finish(&self) -> u64 {
        self.0
    }
    fn write(&mut self, bytes: &[u8]) {
        for &b in bytes {
            self.0 = (self.0.rotate_left(5) ^ b as u64).wrapping_mul(0x517cc1b727220a95);
        }
    }
    fn write_u8(&mut self, i: u8) {
        self.0 = (self.0.rotate_left(5) ^ i as u64).wrapping_mul(0x517cc1b727220a95);
    }
    fn write_u32(&mut self, i: u32) {
        self.0 = (self.0.rotate_left(5) ^ i as u64).wrapping_mul(0x517cc1b727220a95);
    }
    fn write_u64(&mut self, i: u64) {
        self.0 = (self.0.rotate_left(5) ^ i).wrapping_mul(0x517cc1b727220a95);
    }
    fn write_i64(&mut self, i: i64) {
        self.write_u64(i as u64)
    }
    fn write_usize(&mut self, i: usize) {
        self.write_u64(i as u64)
    }
    fn write_isize(&mut self, i: isize) {
        self.write_u64(i as u64)
    }
}
pub type FxMap<K, V> = HashMap<K, V, BuildHasherDefault<Fx>>;

pub const MAXVARS: usize = 200;
pub const MAXUPVAL: usize = 255;
pub const LUAI_MAXCCALLS: usize = 200;
/// nCcalls when the standalone `lua` calls the loader (pmain runs inside one lua_pcall).
pub const BASE_CCALLS: usize = 1;
pub const MAXREGS: i32 = 255;
pub const MAXINDEXRK: i32 = 255;
pub const LFIELDS_PER_FLUSH: i32 = 50;

#[derive(Debug)]
pub struct PErr {
    pub class: &'static str,
    pub msg: String,
    pub line: u32,
}

impl From<LexError> for PErr {
    fn from(e: LexError) -> PErr {
        PErr { class: e.class, msg: e.msg, line: e.line }
    }
}

pub type PResult<T> = Result<T, PErr>;

#[derive(Clone, Copy, Debug, PartialEq, Eq)]
pub enum EK {
    Void,
    Nil,
    True,
    False,
    K,
    KFlt,
    KInt,
    NonReloc,
    Local,
    Upval,
    Indexed,
    Jmp,
    Reloc,
    Call,
    Vararg,
}

#[derive(Clone, Copy, Debug)]
pub struct ExpDesc {
    pub k: EK,
    /// register, constant index, upvalue index or call base (depending on k)
    pub info: i32,
    pub ind_t: i32,
    pub ind_idx: i32,
    pub ind_vt_upval: bool,
    pub ival: i64,
    pub nval: f64,
    pub has_jumps: bool,
    /// VRELOCABLE produced by OP_CONCAT (operand B register kept in `info`)
    pub is_concat: bool,
    /// VRELOCABLE produced by OP_NOT
    pub is_not: bool,
}

impl ExpDesc {
    pub fn new(k: EK, info: i32) -> ExpDesc {
        ExpDesc {
            k,
            info,
            ind_t: 0,
            ind_idx: 0,
            ind_vt_upval: false,
            ival: 0,
            nval: 0.0,
            has_jumps: false,
            is_concat: false,
            is_not: false,
        }
    }
    pub fn void() -> ExpDesc {
        ExpDesc::new(EK::Void, 0)
    }
    pub fn has_multret(&self) -> bool {
        self.k == EK::Call || self.k == EK::Vararg
    }
    pub fn is_numeral(&self) -> bool {
        !self.has_jumps && (self.k == EK::KInt || self.k == EK::KFlt)
    }
}

#[derive(Clone, Copy, PartialEq, Eq, Hash, Debug)]
pub enum ConstKey {
    Str(u32),
    Int(i64),
    Flt(u64),
    Nil,
    True,
    False,
}

pub struct VarInfo {
    pub name: u32,
    pub var: u32,
}

pub struct BlockCnt {
    pub nactvar: u16,
    pub upval: bool,
    pub isloop: bool,
    pub firstlabel: usize,
    pub firstgoto: usize,
}

#[derive(Clone, Copy)]
pub struct LabelDesc {
    pub name: u32,
    pub line: u32,
    pub nactvar: u16,
    /// label id (labels) or goto index into goto_targets (gotos)
    pub id: u32,
}

pub struct FuncState {
    pub blocks: Vec<BlockCnt>,
    pub firstlocal: usize,
    pub nactvar: u16,
    pub max_nactvar: u16,
    pub upvals: Vec<UpvalDesc>,
    pub captured: Vec<bool>,
    pub freereg: i32,
    pub maxstack: i32,
    pub consts: FxMap<ConstKey, i32>,
    pub line_defined: u32,
    pub is_vararg: bool,
    pub goto_targets: Vec<u32>,
    pub next_label_id: u32,
}

#[derive(Clone, Copy, Debug, Default)]
pub struct Stats {
    pub max_active_locals: usize,
    pub max_upvalues: usize,
    pub max_register_estimate: usize,
    pub max_c_levels: usize,
    pub functions: usize,
}

#[derive(Clone, Copy, PartialEq, Eq, Debug)]
pub enum VarKind {
    Void,
    Local(u16),
    Upval(u16),
}

pub struct Parser<'a> {
    pub lex: Lexer<'a>,
    pub t: Token,
    pub ahead: Option<Token>,
    pub lastline: u32,
    pub fs: Vec<FuncState>,
    pub actvar: Vec<VarInfo>,
    pub labels: Vec<LabelDesc>,
    pub gotos: Vec<LabelDesc>,
    pub protos: Vec<Proto>,
    /// L->nCcalls
    pub level: usize,
    pub stats: Stats,
    pub free_names: Vec<(u32, bool, bool)>,
    pub free_index: FxMap<u32, usize>,
    pub explicit_env: bool,
    pub env_name: u32,
    pub break_name: u32,
    pub self_name: u32,
    pub pending_label: Vec<u32>,
    pub ret_tok_start: u32,
    pub hidden_names: [u32; 6],
}

pub const RESERVED_NAME_CLASS: &str = "reserved-name";

impl<'a> Parser<'a> {
    pub fn new(src: &'a [u8], explicit_env: bool) -> PResult<Parser<'a>> {
        let mut lex = Lexer::new(src);
        // fixed strings first (ids are relied upon by the runtime, see interp::sid)
        for s in crate::interp::FIXED_STRINGS.iter() {
            lex.interner.intern(s.as_bytes());
        }
        let env_name = lex.interner.intern(b"_ENV");
        let break_name = lex.interner.intern(b"break");
        let self_name = lex.interner.intern(b"self");
        let hidden_names = [
            lex.interner.intern(b"(for index)"),
            lex.interner.intern(b"(for limit)"),
            lex.interner.intern(b"(for step)"),
            lex.interner.intern(b"(for generator)"),
            lex.interner.intern(b"(for state)"),
            lex.interner.intern(b"(for control)"),
        ];
        let t = Token { tok: Tok::Eos, line: 1, start: 0, end: 0 };
        let mut p = Parser {
            lex,
            t,
            ahead: None,
            lastline: 1,
            fs: Vec::new(),
            actvar: Vec::new(),
            labels: Vec::new(),
            gotos: Vec::new(),
            protos: Vec::new(),
            level: BASE_CCALLS,
            stats: Stats::default(),
            free_names: Vec::new(),
            free_index: FxMap::default(),
            explicit_env,
            env_name,
            break_name,
            self_name,
            pending_label: Vec::new(),
            ret_tok_start: u32::MAX,
            hidden_names,
        };
        p.stats.max_c_levels = BASE_CCALLS;
        p.next()?;
        Ok(p)
    }

    // ------------------------------------------------------------------ tokens

    pub fn next(&mut self) -> PResult<()> {
        self.lastline = self.lex.line;
        if let Some(a) = self.ahead.take() {
            self.t = a;
        } else {
            self.t = self.lex.next()?;
        }
        Ok(())
    }

    pub fn lookahead(&mut self) -> PResult<Tok> {
        if self.ahead.is_none() {
            self.ahead = Some(self.lex.next()?);
        }
        Ok(self.ahead.as_ref().unwrap().tok)
    }

    #[inline]
    pub fn linenumber(&self) -> u32 {
        self.lex.line
    }

    pub fn where_fn(&self) -> String {
        let line = self.fs.last().map(|f| f.line_defined).unwrap_or(0);
        if line == 0 {
            "main function".to_string()
        } else {
            format!("function at line {}", line)
        }
    }

    /// luaX_syntaxerror: message + " near <token>"
    pub fn syntax_error<T>(&self, class: &'static str, msg: &str) -> PResult<T> {
        let near = self.lex.token_text(&self.t);
        let line = self.linenumber();
        let class = if class == "syntax" && self.ret_tok_start == self.t.start { "return-not-last" } else { class };
        Err(PErr { class, msg: format!("stdin:{}: {} near {}", line, msg, near), line })
    }

    /// semerror: no "near" part
    pub fn sem_error<T>(&self, class: &'static str, msg: &str) -> PResult<T> {
        let line = self.linenumber();
        Err(PErr { class, msg: format!("stdin:{}: {}", line, msg), line })
    }

    pub fn error_limit<T>(&self, class: &'static str, limit: usize, what: &str) -> PResult<T> {
        let msg = format!("too many {} (limit is {}) in {}", what, limit, self.where_fn());
        self.syntax_error(class, &msg)
    }

    pub fn error_expected<T>(&self, what: &str) -> PResult<T> {
        let class = if self.t.tok.is_reserved() && what == "<name>" { RESERVED_NAME_CLASS } else { "syntax" };
        self.syntax_error(class, &format!("{} expected", what))
    }

    pub fn tok_text(t: Tok) -> String {
        match t {
            Tok::Ch(c) => format!("'{}'", c as char),
            Tok::Eos => "<eof>".to_string(),
            other => format!("'{}'", other.fixed_text().unwrap_or("?")),
        }
    }

    pub fn testnext(&mut self, t: Tok) -> PResult<bool> {
        if self.t.tok == t {
            self.next()?;
            Ok(true)
        } else {
            Ok(false)
        }
    }

    pub fn check(&mut self, t: Tok) -> PResult<()> {
        if self.t.tok != t {
            return self.error_expected(&Self::tok_text(t));
        }
        Ok(())
    }

    pub fn checknext(&mut self, t: Tok) -> PResult<()> {
        self.check(t)?;
        self.next()
    }

    pub fn check_match(&mut self, what: Tok, who: Tok, line: u32) -> PResult<()> {
        if !self.testnext(what)? {
            if line == self.linenumber() {
                return self.error_expected(&Self::tok_text(what));
            } else {
                let msg = format!(
                    "{} expected (to close {} at line {})",
                    Self::tok_text(what),
                    Self::tok_text(who),
                    line
                );
                return self.syntax_error("syntax", &msg);
            }
        }
        Ok(())
    }

    pub fn str_checkname(&mut self) -> PResult<u32> {
        match self.t.tok {
            Tok::Name(id) => {
                self.next()?;
                Ok(id)
            }
            _ => self.error_expected("<name>"),
        }
    }

    // ------------------------------------------------------------------ levels

    pub fn enterlevel(&mut self) -> PResult<()> {
        self.level += 1;
        if self.level > self.stats.max_c_levels {
            self.stats.max_c_levels = self.level;
        }
        if self.level > LUAI_MAXCCALLS {
            return self.error_limit("c-levels", LUAI_MAXCCALLS, "C levels");
        }
        Ok(())
    }
    pub fn leavelevel(&mut self) {
        self.level -= 1;
    }

    // ------------------------------------------------------------------ function state

    #[inline]
    pub fn cur(&mut self) -> &mut FuncState {
        self.fs.last_mut().unwrap()
    }
    #[inline]
    pub fn curr(&self) -> &FuncState {
        self.fs.last().unwrap()
    }

    pub fn open_func(&mut self, line: u32) {
        self.fs.push(FuncState {
            blocks: Vec::new(),
            firstlocal: self.actvar.len(),
            nactvar: 0,
            max_nactvar: 0,
            upvals: Vec::new(),
            captured: Vec::new(),
            freereg: 0,
            maxstack: 2,
            consts: FxMap::default(),
            line_defined: line,
            is_vararg: false,
            goto_targets: Vec::new(),
            next_label_id: 0,
        });
        self.stats.functions += 1;
        self.enterblock(false);
    }

    /// returns the finished pieces; the caller assembles the Proto
    pub fn close_func(&mut self) -> PResult<FuncState> {
        self.leaveblock()?;
        let fs = self.fs.pop().unwrap();
        if fs.upvals.len() > self.stats.max_upvalues {
            self.stats.max_upvalues = fs.upvals.len();
        }
        if fs.maxstack as usize > self.stats.max_register_estimate {
            self.stats.max_register_estimate = fs.maxstack as usize;
        }
        Ok(fs)
    }

    pub fn enterblock(&mut self, isloop: bool) {
        let (fl, fg) = (self.labels.len(), self.gotos.len());
        let fs = self.cur();
        let n = fs.nactvar;
        fs.blocks.push(BlockCnt { nactvar: n, upval: false, isloop, firstlabel: fl, firstgoto: fg });
    }

    pub fn leaveblock(&mut self) -> PResult<()> {
        let has_prev = self.curr().blocks.len() > 1;
        let isloop = self.curr().blocks.last().unwrap().isloop;
        if isloop {
            self.breaklabel()?;
        }
        let bl = self.cur().blocks.pop().unwrap();
        self.removevars(bl.nactvar);
        let fs = self.cur();
        fs.freereg = fs.nactvar as i32;
        self.labels.truncate(bl.firstlabel);
        if has_prev {
            self.movegotosout(&bl)?;
        } else if bl.firstgoto < self.gotos.len() {
            let gt = self.gotos[bl.firstgoto];
            return self.undefgoto(&gt);
        }
        Ok(())
    }

    fn undefgoto<T>(&self, gt: &LabelDesc) -> PResult<T> {
        if gt.name == self.break_name {
            self.sem_error("break-outside-loop", &format!("<break> at line {} not inside a loop", gt.line))
        } else {
            let name = String::from_utf8_lossy(self.lex.interner.get(gt.name)).to_string();
            self.sem_error(
                "goto-no-label",
                &format!("no visible label '{}' for <goto> at line {}", name, gt.line),
            )
        }
    }

    fn removevars(&mut self, tolevel: u16) {
        let fs = self.fs.last_mut().unwrap();
        let remove = (fs.nactvar - tolevel) as usize;
        let newlen = self.actvar.len() - remove;
        self.actvar.truncate(newlen);
        fs.nactvar = tolevel;
    }

    // ------------------------------------------------------------------ labels / gotos

    fn closegoto(&mut self, g: usize, label: &LabelDesc) -> PResult<()> {
        let gt = self.gotos[g];
        if gt.nactvar < label.nactvar {
            let fs = self.curr();
            let vname = self.actvar[fs.firstlocal + gt.nactvar as usize].name;
            let msg = format!(
                "<goto {}> at line {} jumps into the scope of local '{}'",
                String::from_utf8_lossy(self.lex.interner.get(gt.name)),
                gt.line,
                String::from_utf8_lossy(self.lex.interner.get(vname))
            );
            return self.sem_error("goto-into-local-scope", &msg);
        }
        self.cur().goto_targets[gt.id as usize] = label.id;
        self.gotos.remove(g);
        Ok(())
    }

    /// try to close goto `g` with a label of the current block; true if closed
    pub fn findlabel(&mut self, g: usize) -> PResult<bool> {
        let firstlabel = self.curr().blocks.last().unwrap().firstlabel;
        let name = self.gotos[g].name;
        let mut i = firstlabel;
        while i < self.labels.len() {
            if self.labels[i].name == name {
                let lb = self.labels[i];
                self.closegoto(g, &lb)?;
                return Ok(true);
            }
            i += 1;
        }
        Ok(false)
    }

    pub fn new_goto(&mut self, name: u32, line: u32) -> usize {
        let fs = self.cur();
        let id = fs.goto_targets.len() as u32;
        fs.goto_targets.push(u32::MAX);
        let nactvar = fs.nactvar;
        self.gotos.push(LabelDesc { name, line, nactvar, id });
        self.gotos.len() - 1
    }

    pub fn new_label(&mut self, name: u32, line: u32) -> usize {
        let fs = self.cur();
        let id = fs.next_label_id;
        fs.next_label_id += 1;
        let nactvar = fs.nactvar;
        self.labels.push(LabelDesc { name, line, nactvar, id });
        self.labels.len() - 1
    }

    /// resolve pending gotos of the current block that match label `l`
    pub fn findgotos(&mut self, l: usize) -> PResult<()> {
        let lb = self.labels[l];
        let mut i = self.curr().blocks.last().unwrap().firstgoto;
        while i < self.gotos.len() {
            if self.gotos[i].name == lb.name {
                self.closegoto(i, &lb)?;
            } else {
                i += 1;
            }
        }
        Ok(())
    }

    fn movegotosout(&mut self, bl: &BlockCnt) -> PResult<()> {
        let mut i = bl.firstgoto;
        while i < self.gotos.len() {
            if self.gotos[i].nactvar > bl.nactvar {
                self.gotos[i].nactvar = bl.nactvar;
            }
            if !self.findlabel(i)? {
                i += 1;
            }
        }
        Ok(())
    }

    /// create the implicit "break" label at the end of a loop block; returns nothing, the label id is
    /// recorded in `last_break_label`
    fn breaklabel(&mut self) -> PResult<()> {
        let name = self.break_name;
        // breaks are compiled to StmtKind::Break directly; the label only serves the scoping checks
        let l = self.new_label(name, 0);
        self.findgotos(l)
    }

    pub fn checkrepeated(&self, name: u32) -> PResult<()> {
        // Lua 5.3 rule: only labels of the *current block* are checked (fs->bl->firstlabel onward)
        let first = self.curr().blocks.last().unwrap().firstlabel;
        for i in first..self.labels.len() {
            if self.labels[i].name == name {
                let msg = format!(
                    "label '{}' already defined on line {}",
                    String::from_utf8_lossy(self.lex.interner.get(name)),
                    self.labels[i].line
                );
                return self.sem_error("duplicate-label", &msg);
            }
        }
        Ok(())
    }

    // ------------------------------------------------------------------ variables

    pub fn new_localvar(&mut self, name: u32) -> PResult<LocalDecl> {
        let fs = self.fs.last_mut().unwrap();
        let count = self.actvar.len() + 1 - fs.firstlocal;
        if count > self.stats.max_active_locals {
            self.stats.max_active_locals = count;
        }
        if count > MAXVARS {
            return self.error_limit("too-many-locals", MAXVARS, "local variables");
        }
        let var = fs.captured.len() as u32;
        fs.captured.push(false);
        let slot = (self.actvar.len() - fs.firstlocal) as u16;
        self.actvar.push(VarInfo { name, var });
        Ok(LocalDecl { slot, var, name })
    }

    pub fn adjustlocalvars(&mut self, n: usize) {
        let fs = self.cur();
        fs.nactvar += n as u16;
        if fs.nactvar > fs.max_nactvar {
            fs.max_nactvar = fs.nactvar;
        }
    }

    fn searchvar(&self, fsi: usize, name: u32) -> Option<u16> {
        let fs = &self.fs[fsi];
        let mut i = fs.nactvar as i32 - 1;
        while i >= 0 {
            if self.actvar[fs.firstlocal + i as usize].name == name {
                return Some(i as u16);
            }
            i -= 1;
        }
        None
    }

    fn markupval(&mut self, fsi: usize, level: u16) {
        let var = self.actvar[self.fs[fsi].firstlocal + level as usize].var;
        let fs = &mut self.fs[fsi];
        fs.captured[var as usize] = true;
        // mark the block where the variable was declared
        let mut bi = fs.blocks.len() - 1;
        while fs.blocks[bi].nactvar > level {
            bi -= 1;
        }
        fs.blocks[bi].upval = true;
    }

    fn singlevaraux(&mut self, fsi: isize, name: u32, base: bool) -> PResult<VarKind> {
        if fsi < 0 {
            return Ok(VarKind::Void);
        }
        let fi = fsi as usize;
        if let Some(v) = self.searchvar(fi, name) {
            if !base {
                self.markupval(fi, v);
            }
            return Ok(VarKind::Local(v));
        }
        if let Some(i) = self.fs[fi].upvals.iter().position(|u| u.name == name) {
            return Ok(VarKind::Upval(i as u16));
        }
        let r = self.singlevaraux(fsi - 1, name, false)?;
        let desc = match r {
            VarKind::Void => return Ok(VarKind::Void),
            VarKind::Local(s) => UpvalDesc { in_stack: true, idx: s, name },
            VarKind::Upval(i) => UpvalDesc { in_stack: false, idx: i, name },
        };
        let n = self.fs[fi].upvals.len();
        if n + 1 > self.stats.max_upvalues {
            self.stats.max_upvalues = n + 1;
        }
        if n + 1 > MAXUPVAL {
            // error is reported for the *current* function in lparser.c (fs of the level being extended)
            let line = self.fs[fi].line_defined;
            let wh = if line == 0 { "main function".to_string() } else { format!("function at line {}", line) };
            let msg = format!("too many upvalues (limit is {}) in {}", MAXUPVAL, wh);
            return self.syntax_error("too-many-upvalues", &msg);
        }
        self.fs[fi].upvals.push(desc);
        Ok(VarKind::Upval(n as u16))
    }

    /// resolve a name in the current function
    pub fn resolve(&mut self, name: u32) -> PResult<VarKind> {
        let top = self.fs.len() as isize - 1;
        self.singlevaraux(top, name, true)
    }

    pub fn note_free_name(&mut self, name: u32, assigned: bool) {
        let nested = self.fs.len() > 1;
        let idx = match self.free_index.get(&name) {
            Some(&i) => i,
            None => {
                self.free_names.push((name, false, false));
                self.free_index.insert(name, self.free_names.len() - 1);
                self.free_names.len() - 1
            }
        };
        if assigned {
            self.free_names[idx].1 = true;
            if nested {
                self.free_names[idx].2 = true;
            }
        }
    }

    // ------------------------------------------------------------------ register simulation (lcode.c)

    pub fn checkstack(&mut self, n: i32) -> PResult<()> {
        let fs = self.cur();
        let newstack = fs.freereg + n;
        if newstack > fs.maxstack {
            fs.maxstack = newstack;
            if newstack as usize > self.stats.max_register_estimate {
                self.stats.max_register_estimate = newstack as usize;
            }
            if newstack > MAXREGS {
                // real Lua raises at newstack >= MAXREGS (255); we only raise at >= 256 and leave
                // the 230..=255 band to the callers' grey zone.
                return self
                    .syntax_error("too-many-registers", "function or expression needs too many registers");
            }
        }
        Ok(())
    }

    pub fn reserveregs(&mut self, n: i32) -> PResult<()> {
        self.checkstack(n)?;
        self.cur().freereg += n;
        Ok(())
    }

    fn freereg(&mut self, reg: i32) {
        let fs = self.cur();
        if reg < 256 && reg >= fs.nactvar as i32 {
            fs.freereg -= 1;
        }
    }

    pub fn freeexp(&mut self, e: &ExpDesc) {
        if e.k == EK::NonReloc {
            self.freereg(e.info);
        }
    }

    fn freeexps(&mut self, e1: &ExpDesc, e2: &ExpDesc) {
        let r1 = if e1.k == EK::NonReloc { e1.info } else { -1 };
        let r2 = if e2.k == EK::NonReloc { e2.info } else { -1 };
        if r1 > r2 {
            if r1 >= 0 {
                self.freereg(r1);
            }
            if r2 >= 0 {
                self.freereg(r2);
            }
        } else {
            if r2 >= 0 {
                self.freereg(r2);
            }
            if r1 >= 0 {
                self.freereg(r1);
            }
        }
    }

    pub fn addk(&mut self, key: ConstKey) -> i32 {
        let fs = self.cur();
        let n = fs.consts.len() as i32;
        *fs.consts.entry(key).or_insert(n)
    }

    pub fn string_k(&mut self, s: u32) -> ExpDesc {
        let i = self.addk(ConstKey::Str(s));
        ExpDesc::new(EK::K, i)
    }

    pub fn dischargevars(&mut self, e: &mut ExpDesc) {
        match e.k {
            EK::Local => e.k = EK::NonReloc,
            EK::Upval => {
                e.k = EK::Reloc;
                e.is_concat = false;
                e.is_not = false;
            }
            EK::Indexed => {
                self.freereg(e.ind_idx);
                if !e.ind_vt_upval {
                    self.freereg(e.ind_t);
                }
                e.k = EK::Reloc;
                e.is_concat = false;
                e.is_not = false;
            }
            EK::Call => {
                e.k = EK::NonReloc; // info is already the call base
            }
            EK::Vararg => {
                e.k = EK::Reloc;
                e.is_concat = false;
                e.is_not = false;
            }
            _ => {}
        }
    }

    fn discharge2reg(&mut self, e: &mut ExpDesc, reg: i32) {
        self.dischargevars(e);
        match e.k {
            EK::KFlt => {
                self.addk(ConstKey::Flt(e.nval.to_bits()));
            }
            EK::KInt => {
                self.addk(ConstKey::Int(e.ival));
            }
            EK::Void | EK::Jmp => return,
            _ => {}
        }
        e.info = reg;
        e.k = EK::NonReloc;
        e.is_concat = false;
        e.is_not = false;
    }

    fn discharge2anyreg(&mut self, e: &mut ExpDesc) -> PResult<()> {
        if e.k != EK::NonReloc {
            self.reserveregs(1)?;
            let r = self.curr().freereg - 1;
            self.discharge2reg(e, r);
        }
        Ok(())
    }

    fn exp2reg(&mut self, e: &mut ExpDesc, reg: i32) {
        self.discharge2reg(e, reg);
        e.has_jumps = false;
        e.info = reg;
        e.k = EK::NonReloc;
    }

    pub fn exp2nextreg(&mut self, e: &mut ExpDesc) -> PResult<()> {
        self.dischargevars(e);
        self.freeexp(e);
        self.reserveregs(1)?;
        let r = self.curr().freereg - 1;
        self.exp2reg(e, r);
        Ok(())
    }

    pub fn exp2anyreg(&mut self, e: &mut ExpDesc) -> PResult<i32> {
        self.dischargevars(e);
        if e.k == EK::NonReloc {
            if !e.has_jumps {
                return Ok(e.info);
            }
            if e.info >= self.curr().nactvar as i32 {
                let r = e.info;
                self.exp2reg(e, r);
                return Ok(e.info);
            }
        }
        self.exp2nextreg(e)?;
        Ok(e.info)
    }

    pub fn exp2anyregup(&mut self, e: &mut ExpDesc) -> PResult<()> {
        if e.k != EK::Upval || e.has_jumps {
            self.exp2anyreg(e)?;
        }
        Ok(())
    }

    pub fn exp2val(&mut self, e: &mut ExpDesc) -> PResult<()> {
        if e.has_jumps {
            self.exp2anyreg(e)?;
        } else {
            self.dischargevars(e);
        }
        Ok(())
    }

    /// returns an RK operand: >= 256 means constant
    pub fn exp2rk(&mut self, e: &mut ExpDesc) -> PResult<i32> {
        self.exp2val(e)?;
        let nk = self.curr().consts.len() as i32;
        match e.k {
            EK::True | EK::False | EK::Nil => {
                if nk <= MAXINDEXRK {
                    let key = match e.k {
                        EK::True => ConstKey::True,
                        EK::False => ConstKey::False,
                        _ => ConstKey::Nil,
                    };
                    e.info = self.addk(key);
                    e.k = EK::K;
                    return Ok(256 + e.info);
                }
            }
            EK::KInt => {
                e.info = self.addk(ConstKey::Int(e.ival));
                e.k = EK::K;
                if e.info <= MAXINDEXRK {
                    return Ok(256 + e.info);
                }
            }
            EK::KFlt => {
                e.info = self.addk(ConstKey::Flt(e.nval.to_bits()));
                e.k = EK::K;
                if e.info <= MAXINDEXRK {
                    return Ok(256 + e.info);
                }
            }
            EK::K => {
                if e.info <= MAXINDEXRK {
                    return Ok(256 + e.info);
                }
            }
            _ => {}
        }
        self.exp2anyreg(e)
    }

    pub fn indexed(&mut self, t: &mut ExpDesc, k: &mut ExpDesc) -> PResult<()> {
        let idx = self.exp2rk(k)?;
        t.ind_t = t.info;
        t.ind_idx = idx;
        t.ind_vt_upval = t.k == EK::Upval;
        t.k = EK::Indexed;
        Ok(())
    }

    pub fn op_self(&mut self, e: &mut ExpDesc, key: &mut ExpDesc) -> PResult<()> {
        self.exp2anyreg(e)?;
        self.freeexp(e);
        e.info = self.curr().freereg;
        e.k = EK::NonReloc;
        self.reserveregs(2)?;
        self.exp2rk(key)?;
        self.freeexp(key);
        Ok(())
    }

    pub fn storevar(&mut self, var: &ExpDesc, ex: &mut ExpDesc) -> PResult<()> {
        match var.k {
            EK::Local => {
                self.freeexp(ex);
                self.exp2reg(ex, var.info);
                return Ok(());
            }
            EK::Upval => {
                self.exp2anyreg(ex)?;
            }
            EK::Indexed => {
                self.exp2rk(ex)?;
            }
            _ => {}
        }
        self.freeexp(ex);
        Ok(())
    }

    pub fn setreturns_multret(&mut self, e: &mut ExpDesc) -> PResult<()> {
        if e.k == EK::Vararg {
            self.reserveregs(1)?;
        }
        Ok(())
    }

    pub fn setreturns(&mut self, e: &mut ExpDesc, _n: i32) -> PResult<()> {
        if e.k == EK::Vararg {
            self.reserveregs(1)?;
        }
        Ok(())
    }

    pub fn setoneret(&mut self, e: &mut ExpDesc) {
        if e.k == EK::Call {
            e.k = EK::NonReloc;
        } else if e.k == EK::Vararg {
            e.k = EK::Reloc;
            e.is_concat = false;
            e.is_not = false;
        }
    }

    fn jumponcond(&mut self, e: &mut ExpDesc) -> PResult<()> {
        if e.k == EK::Reloc && e.is_not {
            return Ok(());
        }
        self.discharge2anyreg(e)?;
        self.freeexp(e);
        Ok(())
    }

    pub fn goiftrue(&mut self, e: &mut ExpDesc) -> PResult<()> {
        self.dischargevars(e);
        match e.k {
            EK::Jmp => {
                e.has_jumps = true;
            }
            EK::K | EK::KFlt | EK::KInt | EK::True => {}
            _ => {
                self.jumponcond(e)?;
                e.has_jumps = true;
            }
        }
        Ok(())
    }

    pub fn goiffalse(&mut self, e: &mut ExpDesc) -> PResult<()> {
        self.dischargevars(e);
        match e.k {
            EK::Jmp => {
                e.has_jumps = true;
            }
            EK::Nil | EK::False => {}
            _ => {
                self.jumponcond(e)?;
                e.has_jumps = true;
            }
        }
        Ok(())
    }

    fn fold_ok_int(op: BinOp, a: i64, b: i64) -> Option<i64> {
        Some(match op {
            BinOp::Add => a.wrapping_add(b),
            BinOp::Sub => a.wrapping_sub(b),
            BinOp::Mul => a.wrapping_mul(b),
            BinOp::Mod => {
                if b == 0 {
                    return None;
                }
                crate::interp::int_mod(a, b)
            }
            BinOp::IDiv => {
                if b == 0 {
                    return None;
                }
                crate::interp::int_idiv(a, b)
            }
            BinOp::BAnd => a & b,
            BinOp::BOr => a | b,
            BinOp::BXor => a ^ b,
            BinOp::Shl => crate::interp::shift_left(a, b),
            BinOp::Shr => crate::interp::shift_left(a, b.wrapping_neg()),
            _ => return None,
        })
    }

    /// constfolding of lcode.c; returns true (and updates e1) when folded
    fn constfolding(&mut self, op: BinOp, e1: &mut ExpDesc, e2: &ExpDesc) -> bool {
        if !e1.is_numeral() || !e2.is_numeral() {
            return false;
        }
        let tof = |e: &ExpDesc| if e.k == EK::KInt { e.ival as f64 } else { e.nval };
        let toi = |e: &ExpDesc| -> Option<i64> {
            if e.k == EK::KInt {
                Some(e.ival)
            } else {
                crate::interp::float_to_int_exact(e.nval)
            }
        };
        match op {
            BinOp::BAnd | BinOp::BOr | BinOp::BXor | BinOp::Shl | BinOp::Shr => {
                let (a, b) = match (toi(e1), toi(e2)) {
                    (Some(a), Some(b)) => (a, b),
                    _ => return false,
                };
                let r = Self::fold_ok_int(op, a, b).unwrap();
                e1.k = EK::KInt;
                e1.ival = r;
                return true;
            }
            BinOp::Div | BinOp::IDiv | BinOp::Mod => {
                if tof(e2) == 0.0 {
                    return false;
                }
            }
            _ => {}
        }
        let both_int = e1.k == EK::KInt && e2.k == EK::KInt;
        if both_int && !matches!(op, BinOp::Div | BinOp::Pow) {
            if let Some(r) = Self::fold_ok_int(op, e1.ival, e2.ival) {
                e1.ival = r;
                return true;
            }
            return false;
        }
        let (a, b) = (tof(e1), tof(e2));
        let r = match op {
            BinOp::Add => a + b,
            BinOp::Sub => a - b,
            BinOp::Mul => a * b,
            BinOp::Div => a / b,
            BinOp::Pow => a.powf(b),
            BinOp::IDiv => (a / b).floor(),
            BinOp::Mod => crate::interp::float_mod(a, b),
            _ => return false,
        };
        if r.is_nan() || r == 0.0 {
            return false;
        }
        e1.k = EK::KFlt;
        e1.nval = r;
        true
    }

    pub fn prefix(&mut self, op: UnOp, e: &mut ExpDesc) -> PResult<()> {
        match op {
            UnOp::Minus | UnOp::BNot => {
                if e.is_numeral() {
                    // fold (fake second operand 0)
                    if op == UnOp::Minus {
                        if e.k == EK::KInt {
                            e.ival = e.ival.wrapping_neg();
                            return Ok(());
                        } else {
                            let r = -e.nval;
                            if !(r.is_nan() || r == 0.0) {
                                e.nval = r;
                                return Ok(());
                            }
                        }
                    } else {
                        let iv = if e.k == EK::KInt { Some(e.ival) } else { crate::interp::float_to_int_exact(e.nval) };
                        if let Some(i) = iv {
                            e.k = EK::KInt;
                            e.ival = !i;
                            return Ok(());
                        }
                    }
                }
                self.codeunexpval(e)
            }
            UnOp::Len => self.codeunexpval(e),
            UnOp::Not => {
                self.dischargevars(e);
                match e.k {
                    EK::Nil | EK::False => e.k = EK::True,
                    EK::K | EK::KFlt | EK::KInt | EK::True => e.k = EK::False,
                    EK::Jmp => {}
                    EK::Reloc | EK::NonReloc => {
                        self.discharge2anyreg(e)?;
                        self.freeexp(e);
                        e.k = EK::Reloc;
                        e.is_concat = false;
                        e.is_not = true;
                    }
                    _ => {}
                }
                Ok(())
            }
        }
    }

    fn codeunexpval(&mut self, e: &mut ExpDesc) -> PResult<()> {
        self.exp2anyreg(e)?;
        self.freeexp(e);
        e.k = EK::Reloc;
        e.is_concat = false;
        e.is_not = false;
        Ok(())
    }

    pub fn infix(&mut self, op: BinOp, v: &mut ExpDesc) -> PResult<()> {
        match op {
            BinOp::And => self.goiftrue(v),
            BinOp::Or => self.goiffalse(v),
            BinOp::Concat => self.exp2nextreg(v),
            BinOp::Add
            | BinOp::Sub
            | BinOp::Mul
            | BinOp::Div
            | BinOp::IDiv
            | BinOp::Mod
            | BinOp::Pow
            | BinOp::BAnd
            | BinOp::BOr
            | BinOp::BXor
            | BinOp::Shl
            | BinOp::Shr => {
                if !v.is_numeral() {
                    self.exp2rk(v)?;
                }
                Ok(())
            }
            _ => {
                self.exp2rk(v)?;
                Ok(())
            }
        }
    }

    pub fn posfix(&mut self, op: BinOp, e1: &mut ExpDesc, e2: &mut ExpDesc) -> PResult<()> {
        match op {
            BinOp::And | BinOp::Or => {
                self.dischargevars(e2);
                let j = e1.has_jumps;
                *e1 = *e2;
                e1.has_jumps = e1.has_jumps || j;
                Ok(())
            }
            BinOp::Concat => {
                self.exp2val(e2)?;
                if e2.k == EK::Reloc && e2.is_concat {
                    self.freeexp(e1);
                    e1.k = EK::Reloc;
                    e1.is_concat = true;
                    e1.is_not = false;
                    e1.has_jumps = false;
                    Ok(())
                } else {
                    self.exp2nextreg(e2)?;
                    self.codebinexpval(e1, e2)?;
                    e1.is_concat = true;
                    Ok(())
                }
            }
            BinOp::Eq | BinOp::Ne | BinOp::Lt | BinOp::Le | BinOp::Gt | BinOp::Ge => {
                self.exp2rk(e2)?;
                self.freeexps(e1, e2);
                e1.k = EK::Jmp;
                e1.has_jumps = true;
                e1.is_concat = false;
                e1.is_not = false;
                Ok(())
            }
            _ => {
                if !self.constfolding(op, e1, e2) {
                    self.codebinexpval(e1, e2)?;
                }
                Ok(())
            }
        }
    }

    fn codebinexpval(&mut self, e1: &mut ExpDesc, e2: &mut ExpDesc) -> PResult<()> {
        self.exp2rk(e2)?;
        self.exp2rk(e1)?;
        self.freeexps(e1, e2);
        e1.k = EK::Reloc;
        e1.is_concat = false;
        e1.is_not = false;
        e1.has_jumps = false;
        Ok(())
    }
}
