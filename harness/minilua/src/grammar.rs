//! The grammar: a port of the statement / expression functions of lparser.c that builds the resolved AST
//! and drives the register simulation of `parser.rs`.

use crate::ast::*;
use crate::lexer::Tok;
use crate::parser::*;

pub struct Ex {
    pub a: Expr,
    pub d: ExpDesc,
}

const UNARY_PRIORITY: u8 = 12;

fn binop_of(t: Tok) -> Option<(BinOp, u8, u8)> {
    Some(match t {
        Tok::Ch(b'+') => (BinOp::Add, 10, 10),
        Tok::Ch(b'-') => (BinOp::Sub, 10, 10),
        Tok::Ch(b'*') => (BinOp::Mul, 11, 11),
        Tok::Ch(b'%') => (BinOp::Mod, 11, 11),
        Tok::Ch(b'^') => (BinOp::Pow, 14, 13),
        Tok::Ch(b'/') => (BinOp::Div, 11, 11),
        Tok::IDiv => (BinOp::IDiv, 11, 11),
        Tok::Ch(b'&') => (BinOp::BAnd, 6, 6),
        Tok::Ch(b'|') => (BinOp::BOr, 4, 4),
        Tok::Ch(b'~') => (BinOp::BXor, 5, 5),
        Tok::Shl => (BinOp::Shl, 7, 7),
        Tok::Shr => (BinOp::Shr, 7, 7),
        Tok::Concat => (BinOp::Concat, 9, 8),
        Tok::Eq => (BinOp::Eq, 3, 3),
        Tok::Ne => (BinOp::Ne, 3, 3),
        Tok::Ch(b'<') => (BinOp::Lt, 3, 3),
        Tok::Le => (BinOp::Le, 3, 3),
        Tok::Ch(b'>') => (BinOp::Gt, 3, 3),
        Tok::Ge => (BinOp::Ge, 3, 3),
        Tok::And => (BinOp::And, 2, 2),
        Tok::Or => (BinOp::Or, 1, 1),
        _ => return None,
    })
}

fn unop_of(t: Tok) -> Option<UnOp> {
    Some(match t {
        Tok::Not => UnOp::Not,
        Tok::Ch(b'-') => UnOp::Minus,
        Tok::Ch(b'~') => UnOp::BNot,
        Tok::Ch(b'#') => UnOp::Len,
        _ => return None,
    })
}

impl<'a> Parser<'a> {
    // ------------------------------------------------------------------ entry

    pub fn mainfunc(&mut self) -> PResult<u32> {
        self.open_func(0);
        self.cur().is_vararg = true;
        let env = self.env_name;
        self.cur().upvals.push(UpvalDesc { in_stack: true, idx: 0, name: env });
        if self.stats.max_upvalues < 1 {
            self.stats.max_upvalues = 1;
        }
        let body = self.statlist()?;
        self.check(Tok::Eos)?;
        let last_line = self.linenumber();
        let fs = self.close_func()?;
        Ok(self.finish_proto(fs, body, 0, last_line))
    }

    fn finish_proto(&mut self, fs: FuncState, body: Block, nparams: u16, last_line: u32) -> u32 {
        let param_vars: Vec<u32> = (0..nparams as u32).collect();
        let any = param_vars.iter().any(|&v| fs.captured[v as usize]);
        let p = Proto {
            nparams,
            is_vararg: fs.is_vararg,
            nslots: fs.max_nactvar,
            body,
            upvals: fs.upvals,
            captured: fs.captured,
            param_vars,
            any_param_captured: any,
            goto_targets: fs.goto_targets,
            line: fs.line_defined,
            last_line,
        };
        self.protos.push(p);
        (self.protos.len() - 1) as u32
    }

    // ------------------------------------------------------------------ blocks

    fn block_follow(&self, withuntil: bool) -> bool {
        match self.t.tok {
            Tok::Else | Tok::Elseif | Tok::End | Tok::Eos => true,
            Tok::Until => withuntil,
            _ => false,
        }
    }

    pub fn statlist(&mut self) -> PResult<Block> {
        let mut blk = Block { stmts: Vec::new(), labels: Vec::new() };
        self.statlist_into(&mut blk)?;
        Ok(blk)
    }

    fn statlist_into(&mut self, blk: &mut Block) -> PResult<()> {
        while !self.block_follow(true) {
            if self.t.tok == Tok::Return {
                let s = self.statement()?;
                blk.stmts.push(s);
                return Ok(());
            }
            let s = self.statement()?;
            blk.stmts.push(s);
            self.take_labels(blk);
        }
        Ok(())
    }

    fn take_labels(&mut self, blk: &mut Block) {
        if !self.pending_label.is_empty() {
            let pos = blk.stmts.len() as u32;
            for id in self.pending_label.drain(..) {
                blk.labels.push((id, pos));
            }
        }
    }

    fn block(&mut self) -> PResult<Block> {
        self.enterblock(false);
        let b = self.statlist()?;
        self.leaveblock()?;
        Ok(b)
    }

    // ------------------------------------------------------------------ statements

    fn statement(&mut self) -> PResult<Stmt> {
        let line = self.linenumber();
        self.enterlevel()?;
        let kind = match self.t.tok {
            Tok::Ch(b';') => {
                self.next()?;
                StmtKind::Nop
            }
            Tok::If => self.ifstat(line)?,
            Tok::While => self.whilestat(line)?,
            Tok::Do => {
                self.next()?;
                let b = self.block()?;
                self.check_match(Tok::End, Tok::Do, line)?;
                StmtKind::Do(b)
            }
            Tok::For => self.forstat(line)?,
            Tok::Repeat => self.repeatstat(line)?,
            Tok::Function => self.funcstat(line)?,
            Tok::Local => {
                self.next()?;
                if self.testnext(Tok::Function)? {
                    self.localfunc()?
                } else {
                    self.localstat()?
                }
            }
            Tok::DbColon => {
                self.next()?;
                let name = self.str_checkname()?;
                self.labelstat(name, line)?;
                StmtKind::Nop
            }
            Tok::Return => {
                self.next()?;
                self.retstat()?
            }
            Tok::Break | Tok::Goto => self.gotostat()?,
            _ => self.exprstat()?,
        };
        let fs = self.cur();
        fs.freereg = fs.nactvar as i32;
        self.leavelevel();
        Ok(Stmt { line, kind })
    }

    fn gotostat(&mut self) -> PResult<StmtKind> {
        let line = self.linenumber();
        if self.testnext(Tok::Goto)? {
            let name = self.str_checkname()?;
            let g = self.new_goto(name, line);
            let id = self.gotos[g].id;
            self.findlabel(g)?;
            Ok(StmtKind::Goto(id))
        } else {
            self.next()?; // skip break
            let name = self.break_name;
            let g = self.new_goto(name, line);
            self.findlabel(g)?;
            Ok(StmtKind::Break)
        }
    }

    fn skipnoopstat(&mut self, blk: &mut Block) -> PResult<()> {
        while self.t.tok == Tok::Ch(b';') || self.t.tok == Tok::DbColon {
            let s = self.statement()?;
            blk.stmts.push(s);
            self.take_labels(blk);
        }
        Ok(())
    }

    fn labelstat(&mut self, name: u32, line: u32) -> PResult<()> {
        self.checkrepeated(name)?;
        self.checknext(Tok::DbColon)?;
        let l = self.new_label(name, line);
        let id = self.labels[l].id;
        // skip other no-op statements: they are statements of the same block; since this function is
        // called from `statement`, we cannot push them into the block here.  They are no-ops, except that
        // further labels must be registered: we register them all at the same position.
        while self.t.tok == Tok::Ch(b';') || self.t.tok == Tok::DbColon {
            let _ = self.statement()?;
        }
        if self.block_follow(false) {
            let n = self.curr().blocks.last().unwrap().nactvar;
            self.labels[l].nactvar = n;
        }
        self.findgotos(l)?;
        // hand the label(s) to statlist
        self.pending_label.push(id);
        Ok(())
    }

    fn cond(&mut self) -> PResult<Expr> {
        let mut e = self.expr()?;
        if e.d.k == EK::Nil {
            e.d.k = EK::False;
        }
        self.goiftrue(&mut e.d)?;
        Ok(e.a)
    }

    fn test_then_block(&mut self) -> PResult<(Expr, Block)> {
        self.next()?; // skip IF or ELSEIF
        let mut e = self.expr()?;
        self.checknext(Tok::Then)?;
        let mut blk = Block { stmts: Vec::new(), labels: Vec::new() };
        if self.t.tok == Tok::Goto || self.t.tok == Tok::Break {
            self.goiffalse(&mut e.d)?;
            self.enterblock(false);
            let line = self.linenumber();
            let kind = self.gotostat()?;
            blk.stmts.push(Stmt { line, kind });
            self.skipnoopstat(&mut blk)?;
            if self.block_follow(false) {
                self.leaveblock()?;
                return Ok((e.a, blk));
            }
        } else {
            if e.d.k == EK::Nil {
                e.d.k = EK::False;
            }
            self.goiftrue(&mut e.d)?;
            self.enterblock(false);
        }
        self.statlist_into(&mut blk)?;
        self.leaveblock()?;
        Ok((e.a, blk))
    }

    fn ifstat(&mut self, line: u32) -> PResult<StmtKind> {
        let mut arms = Vec::new();
        arms.push(self.test_then_block()?);
        while self.t.tok == Tok::Elseif {
            arms.push(self.test_then_block()?);
        }
        let mut else_ = None;
        if self.testnext(Tok::Else)? {
            else_ = Some(self.block()?);
        }
        self.check_match(Tok::End, Tok::If, line)?;
        Ok(StmtKind::If { arms, else_ })
    }

    fn whilestat(&mut self, line: u32) -> PResult<StmtKind> {
        self.next()?;
        let cond = self.cond()?;
        self.enterblock(true);
        self.checknext(Tok::Do)?;
        let body = self.block()?;
        self.check_match(Tok::End, Tok::While, line)?;
        self.leaveblock()?;
        Ok(StmtKind::While { cond, body })
    }

    fn repeatstat(&mut self, line: u32) -> PResult<StmtKind> {
        self.enterblock(true);
        self.enterblock(false);
        self.next()?;
        let body = self.statlist()?;
        self.check_match(Tok::Until, Tok::Repeat, line)?;
        let cond = self.cond()?;
        self.leaveblock()?;
        self.leaveblock()?;
        Ok(StmtKind::Repeat { body, cond })
    }

    fn exp1(&mut self) -> PResult<Expr> {
        let mut e = self.expr()?;
        self.exp2nextreg(&mut e.d)?;
        Ok(e.a)
    }

    fn forbody(&mut self, nvars: usize) -> PResult<Block> {
        self.adjustlocalvars(3);
        self.checknext(Tok::Do)?;
        self.enterblock(false);
        self.adjustlocalvars(nvars);
        self.reserveregs(nvars as i32)?;
        let b = self.statlist()?;
        self.leaveblock()?;
        Ok(b)
    }

    fn forstat(&mut self, line: u32) -> PResult<StmtKind> {
        self.enterblock(true);
        self.next()?;
        let varname = self.str_checkname()?;
        let kind = match self.t.tok {
            Tok::Ch(b'=') => {
                let base = self.curr().freereg as u16;
                let h = self.hidden_names;
                self.new_localvar(h[0])?;
                self.new_localvar(h[1])?;
                self.new_localvar(h[2])?;
                let var = self.new_localvar(varname)?;
                self.next()?; // skip '='
                let start = self.exp1()?;
                self.checknext(Tok::Ch(b','))?;
                let limit = self.exp1()?;
                let step = if self.testnext(Tok::Ch(b','))? {
                    Some(self.exp1()?)
                } else {
                    self.addk(ConstKey::Int(1));
                    self.reserveregs(1)?;
                    None
                };
                let body = self.forbody(1)?;
                StmtKind::NumFor { base, var, start, limit, step, body }
            }
            Tok::Ch(b',') | Tok::In => {
                let base = self.curr().freereg as u16;
                let h = self.hidden_names;
                self.new_localvar(h[3])?;
                self.new_localvar(h[4])?;
                self.new_localvar(h[5])?;
                let mut vars = vec![self.new_localvar(varname)?];
                while self.testnext(Tok::Ch(b','))? {
                    let n = self.str_checkname()?;
                    vars.push(self.new_localvar(n)?);
                }
                self.checknext(Tok::In)?;
                let (exprs, mut last, n) = self.explist()?;
                self.adjust_assign(3, n as i32, &mut last)?;
                self.checkstack(3)?;
                let nv = vars.len();
                let body = self.forbody(nv)?;
                StmtKind::GenFor { base, vars, exprs, body }
            }
            _ => return self.syntax_error("syntax", "'=' or 'in' expected"),
        };
        self.check_match(Tok::End, Tok::For, line)?;
        self.leaveblock()?;
        Ok(kind)
    }

    fn funcstat(&mut self, line: u32) -> PResult<StmtKind> {
        self.next()?; // skip FUNCTION
        // funcname
        let mut v = self.singlevar()?;
        let mut ismethod = false;
        while self.t.tok == Tok::Ch(b'.') {
            v = self.fieldsel(v)?;
        }
        if self.t.tok == Tok::Ch(b':') {
            ismethod = true;
            v = self.fieldsel(v)?;
        }
        let mut b = self.body(ismethod, line)?;
        self.mark_assigned(&v.a);
        self.storevar(&v.d, &mut b.d)?;
        Ok(StmtKind::Assign1 { target: v.a, expr: b.a })
    }

    fn localfunc(&mut self) -> PResult<StmtKind> {
        let name = self.str_checkname()?;
        let var = self.new_localvar(name)?;
        self.adjustlocalvars(1);
        let line = self.linenumber();
        let b = self.body(false, line)?;
        let proto = match b.a {
            Expr::Func(p) => p,
            _ => 0,
        };
        Ok(StmtKind::LocalFunction { var, proto })
    }

    fn localstat(&mut self) -> PResult<StmtKind> {
        let mut vars = Vec::new();
        loop {
            let n = self.str_checkname()?;
            vars.push(self.new_localvar(n)?);
            if !self.testnext(Tok::Ch(b','))? {
                break;
            }
        }
        let (mut exprs, mut last, nexps) = if self.testnext(Tok::Ch(b'='))? {
            self.explist()?
        } else {
            (Vec::new(), ExpDesc::void(), 0)
        };
        self.adjust_assign(vars.len() as i32, nexps as i32, &mut last)?;
        self.adjustlocalvars(vars.len());
        if vars.len() == 1 && exprs.len() == 1 {
            let expr = exprs.pop().unwrap();
            Ok(StmtKind::Local1 { var: vars[0], expr })
        } else {
            Ok(StmtKind::Local { vars, exprs })
        }
    }

    pub fn adjust_assign(&mut self, nvars: i32, nexps: i32, e: &mut ExpDesc) -> PResult<()> {
        let mut extra = nvars - nexps;
        if e.has_multret() {
            extra += 1;
            if extra < 0 {
                extra = 0;
            }
            self.setreturns(e, extra)?;
            if extra > 1 {
                self.reserveregs(extra - 1)?;
            }
        } else {
            if e.k != EK::Void {
                self.exp2nextreg(e)?;
            }
            if extra > 0 {
                self.reserveregs(extra)?;
            }
        }
        if nexps > nvars {
            self.cur().freereg -= nexps - nvars;
        }
        Ok(())
    }

    fn is_var(e: &ExpDesc) -> bool {
        matches!(e.k, EK::Local | EK::Upval | EK::Indexed)
    }

    fn mark_assigned(&mut self, target: &Expr) {
        match target {
            Expr::Global(n) => self.note_free_name(*n, true),
            Expr::EnvIndex(_, n) => self.note_free_name(*n, true),
            _ => {}
        }
    }

    fn exprstat(&mut self) -> PResult<StmtKind> {
        // classification help: a literal followed by '=' / ',' is an assignment to a non-lvalue
        if matches!(
            self.t.tok,
            Tok::False | Tok::True | Tok::Nil | Tok::Int(_) | Tok::Flt(_) | Tok::Str(_) | Tok::Dots
        ) {
            let la = self.lookahead().ok();
            if matches!(la, Some(Tok::Ch(b'=')) | Some(Tok::Ch(b','))) {
                return self.syntax_error("assign-to-non-lvalue", "unexpected symbol");
            }
            return self.syntax_error("syntax", "unexpected symbol");
        }
        let v = self.suffixedexp()?;
        if self.t.tok == Tok::Ch(b'=') || self.t.tok == Tok::Ch(b',') {
            let mut targets: Vec<Ex> = vec![v];
            // restassign (iteratively; the C code recurses but only *checks* nvars + nCcalls)
            loop {
                let lh = targets.last().unwrap();
                if !Self::is_var(&lh.d) {
                    return self.syntax_error("assign-to-non-lvalue", "syntax error");
                }
                if self.testnext(Tok::Ch(b','))? {
                    let nv = self.suffixedexp()?;
                    if nv.d.k != EK::Indexed {
                        self.check_conflict(&mut targets, &nv.d)?;
                    }
                    let nvars = targets.len();
                    if nvars + self.level > LUAI_MAXCCALLS {
                        if nvars + self.level > self.stats.max_c_levels {
                            self.stats.max_c_levels = nvars + self.level;
                        }
                        return self.error_limit("c-levels", LUAI_MAXCCALLS, "C levels");
                    }
                    if nvars + self.level > self.stats.max_c_levels {
                        self.stats.max_c_levels = nvars + self.level;
                    }
                    targets.push(nv);
                } else {
                    break;
                }
            }
            self.checknext(Tok::Ch(b'='))?;
            let nvars = targets.len();
            let (mut exprs, mut last, nexps) = self.explist()?;
            let mut first_done = false;
            if nexps != nvars {
                self.adjust_assign(nvars as i32, nexps as i32, &mut last)?;
            } else {
                self.setoneret(&mut last);
                let t = targets.last().unwrap().d;
                self.storevar(&t, &mut last)?;
                first_done = true;
            }
            // the remaining targets are stored from the last to the first, each from freereg-1
            let n = targets.len();
            for i in (0..n).rev() {
                if first_done && i == n - 1 {
                    continue;
                }
                let mut e = ExpDesc::new(EK::NonReloc, self.curr().freereg - 1);
                let t = targets[i].d;
                self.storevar(&t, &mut e)?;
            }
            for t in targets.iter() {
                match &t.a {
                    Expr::Global(n) | Expr::EnvIndex(_, n) => {
                        let n = *n;
                        self.note_free_name(n, true)
                    }
                    _ => {}
                }
            }
            if targets.len() == 1 && exprs.len() == 1 {
                let target = targets.pop().unwrap().a;
                let expr = exprs.pop().unwrap();
                Ok(StmtKind::Assign1 { target, expr })
            } else {
                Ok(StmtKind::Assign { targets: targets.into_iter().map(|t| t.a).collect(), exprs })
            }
        } else {
            if v.d.k != EK::Call {
                return self.syntax_error("syntax", "syntax error");
            }
            Ok(StmtKind::Call(v.a))
        }
    }

    /// check_conflict: if a previous target uses the local being assigned as table or index, real Lua
    /// copies it to a fresh register
    fn check_conflict(&mut self, targets: &mut [Ex], v: &ExpDesc) -> PResult<()> {
        if v.k != EK::Local {
            return Ok(());
        }
        let extra = self.curr().freereg;
        let mut conflict = false;
        for lh in targets.iter_mut() {
            if lh.d.k == EK::Indexed {
                if !lh.d.ind_vt_upval && lh.d.ind_t == v.info {
                    conflict = true;
                    lh.d.ind_t = extra;
                }
                if lh.d.ind_idx == v.info {
                    conflict = true;
                    lh.d.ind_idx = extra;
                }
            }
        }
        if conflict {
            self.reserveregs(1)?;
        }
        Ok(())
    }

    fn retstat(&mut self) -> PResult<StmtKind> {
        let mut exprs = Vec::new();
        if !(self.block_follow(true) || self.t.tok == Tok::Ch(b';')) {
            if matches!(
                self.t.tok,
                Tok::Local
                    | Tok::Return
                    | Tok::If
                    | Tok::While
                    | Tok::For
                    | Tok::Do
                    | Tok::Goto
                    | Tok::Break
                    | Tok::Repeat
                    | Tok::DbColon
            ) {
                // a statement keyword right after 'return': the "unexpected symbol" is a return-not-last
                self.ret_tok_start = self.t.start;
            }
            let (ex, mut last, nret) = self.explist()?;
            exprs = ex;
            if last.has_multret() {
                self.setreturns_multret(&mut last)?;
            } else if nret == 1 {
                self.exp2anyreg(&mut last)?;
            } else {
                self.exp2nextreg(&mut last)?;
            }
        }
        self.testnext(Tok::Ch(b';'))?;
        if !self.block_follow(true) {
            // whatever the enclosing construct complains about next is really "return is not last"
            self.ret_tok_start = self.t.start;
        }
        Ok(StmtKind::Return(exprs))
    }

    // ------------------------------------------------------------------ expressions

    /// returns (exprs, ExpDesc of the last one (not yet discharged), count)
    pub fn explist(&mut self) -> PResult<(Vec<Expr>, ExpDesc, usize)> {
        let mut out = Vec::new();
        let mut e = self.expr()?;
        let mut n = 1;
        while self.testnext(Tok::Ch(b','))? {
            self.exp2nextreg(&mut e.d)?;
            out.push(e.a);
            e = self.expr()?;
            n += 1;
        }
        out.push(e.a);
        Ok((out, e.d, n))
    }

    pub fn expr(&mut self) -> PResult<Ex> {
        let (e, _) = self.subexpr(0)?;
        Ok(e)
    }

    fn subexpr(&mut self, limit: u8) -> PResult<(Ex, Option<(BinOp, u8, u8)>)> {
        self.enterlevel()?;
        let mut v;
        if let Some(uop) = unop_of(self.t.tok) {
            let line = self.linenumber();
            self.next()?;
            let (mut e, _) = self.subexpr(UNARY_PRIORITY)?;
            self.prefix(uop, &mut e.d)?;
            // keep numeric literals folded in the AST too (-1, -1.5), like lcode.c does
            let a = match (uop, e.a) {
                (UnOp::Minus, Expr::Int(i)) => Expr::Int(i.wrapping_neg()),
                (UnOp::Minus, Expr::Flt(f)) if f != 0.0 && !f.is_nan() => Expr::Flt(-f),
                (_, inner) => Expr::Un(Box::new(UnData { op: uop, e: inner, line })),
            };
            v = Ex { a, d: e.d };
        } else {
            v = self.simpleexp()?;
        }
        let mut op = binop_of(self.t.tok);
        while let Some((bop, left, right)) = op {
            if left <= limit {
                break;
            }
            let line = self.linenumber();
            self.next()?;
            self.infix(bop, &mut v.d)?;
            let (mut v2, nextop) = self.subexpr(right)?;
            self.posfix(bop, &mut v.d, &mut v2.d)?;
            v.a = Expr::Bin(Box::new(BinData { op: bop, l: v.a, r: v2.a, line }));
            op = nextop;
        }
        self.leavelevel();
        Ok((v, op))
    }

    fn simpleexp(&mut self) -> PResult<Ex> {
        let ex = match self.t.tok {
            Tok::Flt(f) => {
                let mut d = ExpDesc::new(EK::KFlt, 0);
                d.nval = f;
                Ex { a: Expr::Flt(f), d }
            }
            Tok::Int(i) => {
                let mut d = ExpDesc::new(EK::KInt, 0);
                d.ival = i;
                Ex { a: Expr::Int(i), d }
            }
            Tok::Str(s) => {
                let d = self.string_k(s);
                Ex { a: Expr::Str(s), d }
            }
            Tok::Nil => Ex { a: Expr::Nil, d: ExpDesc::new(EK::Nil, 0) },
            Tok::True => Ex { a: Expr::True, d: ExpDesc::new(EK::True, 0) },
            Tok::False => Ex { a: Expr::False, d: ExpDesc::new(EK::False, 0) },
            Tok::Dots => {
                if !self.curr().is_vararg {
                    return self.syntax_error("syntax", "cannot use '...' outside a vararg function");
                }
                Ex { a: Expr::Vararg, d: ExpDesc::new(EK::Vararg, 0) }
            }
            Tok::Ch(b'{') => return self.constructor(),
            Tok::Function => {
                self.next()?;
                let line = self.linenumber();
                return self.body(false, line);
            }
            _ => return self.suffixedexp(),
        };
        self.next()?;
        Ok(ex)
    }

    pub fn singlevar(&mut self) -> PResult<Ex> {
        let name = self.str_checkname()?;
        match self.resolve(name)? {
            VarKind::Local(s) => Ok(Ex { a: Expr::Local(s, name), d: ExpDesc::new(EK::Local, s as i32) }),
            VarKind::Upval(i) => Ok(Ex { a: Expr::Upval(i), d: ExpDesc::new(EK::Upval, i as i32) }),
            VarKind::Void => {
                let envn = self.env_name;
                let (enva, mut d) = match self.resolve(envn)? {
                    VarKind::Local(s) => (Expr::Local(s, envn), ExpDesc::new(EK::Local, s as i32)),
                    VarKind::Upval(i) => (Expr::Upval(i), ExpDesc::new(EK::Upval, i as i32)),
                    VarKind::Void => {
                        return self.sem_error("syntax", "minilua internal: _ENV not resolvable");
                    }
                };
                let mut key = self.string_k(name);
                self.indexed(&mut d, &mut key)?;
                self.note_free_name(name, false);
                let a = if self.explicit_env { Expr::EnvIndex(Box::new(enva), name) } else { Expr::Global(name) };
                Ok(Ex { a, d })
            }
        }
    }

    fn primaryexp(&mut self) -> PResult<Ex> {
        match self.t.tok {
            Tok::Name(_) => self.singlevar(),
            Tok::Ch(b'(') => {
                let line = self.linenumber();
                self.next()?;
                let mut e = self.expr()?;
                self.check_match(Tok::Ch(b')'), Tok::Ch(b'('), line)?;
                self.dischargevars(&mut e.d);
                let a = match e.a {
                    a @ (Expr::Call(_) | Expr::MethCall(_) | Expr::Vararg) => Expr::Paren(Box::new(a)),
                    a => a,
                };
                Ok(Ex { a, d: e.d })
            }
            _ => self.syntax_error("syntax", "unexpected symbol"),
        }
    }

    fn fieldsel(&mut self, mut v: Ex) -> PResult<Ex> {
        self.exp2anyregup(&mut v.d)?;
        self.next()?; // skip dot or colon
        let line = self.linenumber();
        let name = self.str_checkname()?;
        let mut key = self.string_k(name);
        self.indexed(&mut v.d, &mut key)?;
        Ok(Ex { a: Expr::Index(Box::new(IndexData { obj: v.a, key: Expr::Str(name), line })), d: v.d })
    }

    fn suffixedexp(&mut self) -> PResult<Ex> {
        let line = self.linenumber();
        let mut v = self.primaryexp()?;
        loop {
            match self.t.tok {
                Tok::Ch(b'.') => {
                    v = self.fieldsel(v)?;
                }
                Tok::Ch(b'[') => {
                    self.exp2anyregup(&mut v.d)?;
                    self.next()?;
                    let mut k = self.expr()?;
                    self.exp2val(&mut k.d)?;
                    let kline = self.linenumber();
                    self.checknext(Tok::Ch(b']'))?;
                    self.indexed(&mut v.d, &mut k.d)?;
                    v = Ex {
                        a: Expr::Index(Box::new(IndexData { obj: v.a, key: k.a, line: kline })),
                        d: v.d,
                    };
                }
                Tok::Ch(b':') => {
                    self.next()?;
                    let name = self.str_checkname()?;
                    let mut key = self.string_k(name);
                    self.op_self(&mut v.d, &mut key)?;
                    let args = self.funcargs(&mut v.d, line)?;
                    v = Ex {
                        a: Expr::MethCall(Box::new(MethCallData { obj: v.a, name, args, line })),
                        d: v.d,
                    };
                }
                Tok::Ch(b'(') | Tok::Str(_) | Tok::Ch(b'{') => {
                    self.exp2nextreg(&mut v.d)?;
                    let args = self.funcargs(&mut v.d, line)?;
                    v = Ex { a: Expr::Call(Box::new(CallData { func: v.a, args, line })), d: v.d };
                }
                _ => return Ok(v),
            }
        }
    }

    fn funcargs(&mut self, f: &mut ExpDesc, line: u32) -> PResult<Vec<Expr>> {
        let mut args_d = ExpDesc::void();
        let args: Vec<Expr>;
        match self.t.tok {
            Tok::Ch(b'(') => {
                self.next()?;
                if self.t.tok == Tok::Ch(b')') {
                    args = Vec::new();
                } else {
                    let (ex, mut last, _) = self.explist()?;
                    self.setreturns_multret(&mut last)?;
                    args_d = last;
                    args = ex;
                }
                self.check_match(Tok::Ch(b')'), Tok::Ch(b'('), line)?;
            }
            Tok::Ch(b'{') => {
                let c = self.constructor()?;
                args_d = c.d;
                args = vec![c.a];
            }
            Tok::Str(s) => {
                args_d = self.string_k(s);
                self.next()?;
                args = vec![Expr::Str(s)];
            }
            _ => return self.syntax_error("syntax", "function arguments expected"),
        }
        let base = f.info;
        if !args_d.has_multret() && args_d.k != EK::Void {
            self.exp2nextreg(&mut args_d)?;
        }
        *f = ExpDesc::new(EK::Call, base);
        self.cur().freereg = base + 1;
        Ok(args)
    }

    fn constructor(&mut self) -> PResult<Ex> {
        let line = self.linenumber();
        let mut t = ExpDesc::new(EK::Reloc, 0);
        self.exp2nextreg(&mut t)?;
        let treg = t.info;
        let mut ccv = ExpDesc::void();
        let mut tostore = 0i32;
        let mut items: Vec<TableItem> = Vec::new();
        self.checknext(Tok::Ch(b'{'))?;
        loop {
            if self.t.tok == Tok::Ch(b'}') {
                break;
            }
            // closelistfield
            if ccv.k != EK::Void {
                self.exp2nextreg(&mut ccv)?;
                ccv.k = EK::Void;
                if tostore == LFIELDS_PER_FLUSH {
                    self.cur().freereg = treg + 1;
                    tostore = 0;
                }
            }
            // field
            let is_rec = match self.t.tok {
                Tok::Name(_) => self.lookahead()? == Tok::Ch(b'='),
                Tok::Ch(b'[') => true,
                t if t.is_reserved()
                    && !matches!(t, Tok::Nil | Tok::True | Tok::False | Tok::Function | Tok::Not) =>
                {
                    // a reserved word cannot start an expression: real Lua reports "unexpected symbol";
                    // classify `{ repeat = 1 }` as reserved-name
                    let la = self.lookahead().ok();
                    if la == Some(Tok::Ch(b'=')) {
                        return self.syntax_error(RESERVED_NAME_CLASS, "unexpected symbol");
                    }
                    return self.syntax_error("syntax", "unexpected symbol");
                }
                _ => false,
            };
            if is_rec {
                let reg = self.curr().freereg;
                let (ka, mut kd) = if let Tok::Name(n) = self.t.tok {
                    self.next()?;
                    (Expr::Str(n), self.string_k(n))
                } else {
                    self.next()?; // skip '['
                    let mut k = self.expr()?;
                    self.exp2val(&mut k.d)?;
                    self.checknext(Tok::Ch(b']'))?;
                    (k.a, k.d)
                };
                self.checknext(Tok::Ch(b'='))?;
                self.exp2rk(&mut kd)?;
                let mut val = self.expr()?;
                self.exp2rk(&mut val.d)?;
                self.cur().freereg = reg;
                items.push(TableItem::Named(ka, val.a));
            } else {
                let e = self.expr()?;
                ccv = e.d;
                items.push(TableItem::Pos(e.a));
                tostore += 1;
            }
            if !(self.testnext(Tok::Ch(b','))? || self.testnext(Tok::Ch(b';'))?) {
                break;
            }
        }
        self.check_match(Tok::Ch(b'}'), Tok::Ch(b'{'), line)?;
        // lastlistfield
        if tostore != 0 {
            if ccv.has_multret() {
                self.setreturns_multret(&mut ccv)?;
            } else if ccv.k != EK::Void {
                self.exp2nextreg(&mut ccv)?;
            }
            self.cur().freereg = treg + 1;
        }
        Ok(Ex { a: Expr::Table(Box::new(TableData { items, line })), d: t })
    }

    fn body(&mut self, ismethod: bool, line: u32) -> PResult<Ex> {
        self.open_func(line);
        self.checknext(Tok::Ch(b'('))?;
        let mut nparams = 0usize;
        if ismethod {
            let sn = self.self_name;
            self.new_localvar(sn)?;
            self.adjustlocalvars(1);
        }
        // parlist
        if self.t.tok != Tok::Ch(b')') {
            loop {
                match self.t.tok {
                    Tok::Name(_) => {
                        let n = self.str_checkname()?;
                        self.new_localvar(n)?;
                        nparams += 1;
                    }
                    Tok::Dots => {
                        self.next()?;
                        self.cur().is_vararg = true;
                    }
                    t => {
                        let class = if t.is_reserved() { RESERVED_NAME_CLASS } else { "syntax" };
                        return self.syntax_error(class, "<name> or '...' expected");
                    }
                }
                if self.curr().is_vararg || !self.testnext(Tok::Ch(b','))? {
                    break;
                }
            }
        }
        self.adjustlocalvars(nparams);
        let numparams = self.curr().nactvar;
        self.reserveregs(numparams as i32)?;
        self.checknext(Tok::Ch(b')'))?;
        let blk = self.statlist()?;
        let last_line = self.linenumber();
        self.check_match(Tok::End, Tok::Function, line)?;
        let fs = self.close_func()?;
        let p = self.finish_proto(fs, blk, numparams, last_line);
        // codeclosure in the enclosing function
        let mut d = ExpDesc::new(EK::Reloc, 0);
        self.exp2nextreg(&mut d)?;
        Ok(Ex { a: Expr::Func(p), d })
    }
}
