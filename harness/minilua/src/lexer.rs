//! Lexer: a port of Lua 5.3 `llex.c`.

use crate::numfmt::{str2number, Num};

#[derive(Clone, Copy, Debug, PartialEq)]
pub enum Tok {
    // reserved words (order as in llex.h)
    And,
    Break,
    Do,
    Else,
    Elseif,
    End,
    False,
    For,
    Function,
    Goto,
    If,
    In,
    Local,
    Nil,
    Not,
    Or,
    Repeat,
    Return,
    Then,
    True,
    Until,
    While,
    // other multi-char terminals
    IDiv,   // //
    Concat, // ..
    Dots,   // ...
    Eq,     // ==
    Ge,
    Le,
    Ne,
    Shl,
    Shr,
    DbColon, // ::
    Eos,
    Flt(f64),
    Int(i64),
    Name(u32),
    Str(u32),
    /// single-byte token
    Ch(u8),
}

pub const RESERVED: [(&str, Tok); 22] = [
    ("and", Tok::And),
    ("break", Tok::Break),
    ("do", Tok::Do),
    ("else", Tok::Else),
    ("elseif", Tok::Elseif),
    ("end", Tok::End),
    ("false", Tok::False),
    ("for", Tok::For),
    ("function", Tok::Function),
    ("goto", Tok::Goto),
    ("if", Tok::If),
    ("in", Tok::In),
    ("local", Tok::Local),
    ("nil", Tok::Nil),
    ("not", Tok::Not),
    ("or", Tok::Or),
    ("repeat", Tok::Repeat),
    ("return", Tok::Return),
    ("then", Tok::Then),
    ("true", Tok::True),
    ("until", Tok::Until),
    ("while", Tok::While),
];

impl Tok {
    pub fn is_reserved(&self) -> bool {
        RESERVED.iter().any(|(_, t)| t == self)
    }
    pub fn fixed_text(&self) -> Option<&'static str> {
        for (s, t) in RESERVED.iter() {
            if t == self {
                return Some(s);
            }
        }
        Some(match self {
            Tok::IDiv => "//",
            Tok::Concat => "..",
            Tok::Dots => "...",
            Tok::Eq => "==",
            Tok::Ge => ">=",
            Tok::Le => "<=",
            Tok::Ne => "~=",
            Tok::Shl => "<<",
            Tok::Shr => ">>",
            Tok::DbColon => "::",
            _ => return None,
        })
    }
}

#[derive(Clone, Copy, Debug)]
#[allow(dead_code)]
pub struct Token {
    pub tok: Tok,
    pub line: u32,
    /// byte span of the raw token text in the source
    pub start: u32,
    pub end: u32,
}

#[derive(Debug)]
pub struct LexError {
    pub class: &'static str,
    pub msg: String,
    pub line: u32,
}

/// Interned byte strings (names and string constants) of a chunk.
#[derive(Default)]
pub struct Interner {
    pub strings: Vec<Box<[u8]>>,
    index: Vec<u32>,
}

impl Interner {
    pub fn intern(&mut self, s: &[u8]) -> u32 {
        if self.index.is_empty() {
            self.index = vec![u32::MAX; 1024];
        }
        let mask = self.index.len() - 1;
        let mut p = crate::value::hash_bytes(s) as usize & mask;
        loop {
            let id = self.index[p];
            if id == u32::MAX {
                break;
            }
            if &*self.strings[id as usize] == s {
                return id;
            }
            p = (p + 1) & mask;
        }
        let i = self.strings.len() as u32;
        self.strings.push(s.into());
        self.index[p] = i;
        if self.strings.len() * 2 > self.index.len() {
            let cap = self.index.len() * 2;
            let mask = cap - 1;
            let mut index = vec![u32::MAX; cap];
            for (k, st) in self.strings.iter().enumerate() {
                let mut q = crate::value::hash_bytes(st) as usize & mask;
                while index[q] != u32::MAX {
                    q = (q + 1) & mask;
                }
                index[q] = k as u32;
            }
            self.index = index;
        }
        i
    }
    pub fn get(&self, i: u32) -> &[u8] {
        &self.strings[i as usize]
    }
}

fn reserved_word(s: &[u8]) -> Option<Tok> {
    if s.len() < 2 || s.len() > 8 {
        return None;
    }
    Some(match s {
        b"and" => Tok::And,
        b"break" => Tok::Break,
        b"do" => Tok::Do,
        b"else" => Tok::Else,
        b"elseif" => Tok::Elseif,
        b"end" => Tok::End,
        b"false" => Tok::False,
        b"for" => Tok::For,
        b"function" => Tok::Function,
        b"goto" => Tok::Goto,
        b"if" => Tok::If,
        b"in" => Tok::In,
        b"local" => Tok::Local,
        b"nil" => Tok::Nil,
        b"not" => Tok::Not,
        b"or" => Tok::Or,
        b"repeat" => Tok::Repeat,
        b"return" => Tok::Return,
        b"then" => Tok::Then,
        b"true" => Tok::True,
        b"until" => Tok::Until,
        b"while" => Tok::While,
        _ => return None,
    })
}

pub struct Lexer<'a> {
    src: &'a [u8],
    pos: usize,
    pub line: u32,
    pub interner: Interner,
    buf: Vec<u8>,
}

const EOZ: i32 = -1;

fn is_lalpha(c: i32) -> bool {
    (c >= 'a' as i32 && c <= 'z' as i32) || (c >= 'A' as i32 && c <= 'Z' as i32) || c == '_' as i32
}
fn is_digit(c: i32) -> bool {
    c >= '0' as i32 && c <= '9' as i32
}
fn is_lalnum(c: i32) -> bool {
    is_lalpha(c) || is_digit(c)
}
fn is_xdigit(c: i32) -> bool {
    is_digit(c) || (c >= 'a' as i32 && c <= 'f' as i32) || (c >= 'A' as i32 && c <= 'F' as i32)
}
fn is_space(c: i32) -> bool {
    c == ' ' as i32 || (c >= 9 && c <= 13)
}
fn is_print(c: i32) -> bool {
    (32..127).contains(&c)
}

impl<'a> Lexer<'a> {
    pub fn new(src: &'a [u8]) -> Lexer<'a> {
        Lexer { src, pos: 0, line: 1, interner: Interner::default(), buf: Vec::new() }
    }

    #[inline]
    fn cur(&self) -> i32 {
        if self.pos < self.src.len() {
            self.src[self.pos] as i32
        } else {
            EOZ
        }
    }
    #[inline]
    fn advance(&mut self) {
        self.pos += 1;
    }
    #[inline]
    fn save_and_next(&mut self) {
        let c = self.cur();
        if c != EOZ {
            self.buf.push(c as u8);
        }
        self.pos += 1;
    }
    fn check_next1(&mut self, c: u8) -> bool {
        if self.cur() == c as i32 {
            self.advance();
            true
        } else {
            false
        }
    }
    fn check_next2(&mut self, set: &[u8; 2]) -> bool {
        let c = self.cur();
        if c == set[0] as i32 || c == set[1] as i32 {
            self.save_and_next();
            true
        } else {
            false
        }
    }

    fn inc_line(&mut self) {
        let old = self.cur();
        self.advance();
        let c = self.cur();
        if (c == '\n' as i32 || c == '\r' as i32) && c != old {
            self.advance();
        }
        self.line += 1;
    }

    /// text of a token for "near" messages (txtToken)
    pub fn token_text(&self, t: &Token) -> String {
        match t.tok {
            Tok::Eos => "<eof>".to_string(),
            Tok::Name(_) | Tok::Str(_) | Tok::Flt(_) | Tok::Int(_) => {
                let raw = &self.src[t.start as usize..(t.end as usize).min(self.src.len())];
                format!("'{}'", String::from_utf8_lossy(raw))
            }
            Tok::Ch(c) => {
                if is_print(c as i32) {
                    format!("'{}'", c as char)
                } else {
                    format!("'<\\{}>'", c)
                }
            }
            other => format!("'{}'", other.fixed_text().unwrap_or("?")),
        }
    }

    fn err_near_buf(&self, class: &'static str, msg: &str) -> LexError {
        LexError {
            class,
            msg: format!("stdin:{}: {} near '{}'", self.line, msg, String::from_utf8_lossy(&self.buf)),
            line: self.line,
        }
    }
    fn err_near_eof(&self, class: &'static str, msg: &str) -> LexError {
        LexError { class, msg: format!("stdin:{}: {} near <eof>", self.line, msg), line: self.line }
    }

    fn skip_sep(&mut self) -> i32 {
        // returns count of '=' if well formed "[==[" / "]==]", or -(count)-1 otherwise
        let mut count = 0;
        let s = self.cur();
        self.save_and_next();
        while self.cur() == '=' as i32 {
            self.save_and_next();
            count += 1;
        }
        if self.cur() == s {
            count
        } else {
            -count - 1
        }
    }

    fn read_long_string(&mut self, sep: i32, is_comment: bool) -> Result<Option<Vec<u8>>, LexError> {
        let start_line = self.line;
        self.save_and_next(); // skip 2nd '['
        if self.cur() == '\n' as i32 || self.cur() == '\r' as i32 {
            self.inc_line();
        }
        loop {
            let c = self.cur();
            if c == EOZ {
                let what = if is_comment { "comment" } else { "string" };
                let msg = format!("unfinished long {} (starting at line {})", what, start_line);
                return Err(self.err_near_eof(if is_comment { "syntax" } else { "unfinished-string" }, &msg));
            } else if c == ']' as i32 {
                if self.skip_sep() == sep {
                    self.save_and_next();
                    break;
                }
            } else if c == '\n' as i32 || c == '\r' as i32 {
                self.buf.push(b'\n');
                self.inc_line();
                if is_comment {
                    self.buf.clear();
                }
            } else if is_comment {
                self.advance();
            } else {
                self.save_and_next();
            }
        }
        if is_comment {
            Ok(None)
        } else {
            let n = (2 + sep) as usize;
            let body = self.buf[n..self.buf.len() - n].to_vec();
            Ok(Some(body))
        }
    }

    fn esc_error(&mut self, msg: &str) -> LexError {
        // llex.c `esccheck`: add the current char (if any) to the buffer for the message
        if self.cur() != EOZ {
            self.save_and_next();
        }
        self.err_near_buf("bad-escape", msg)
    }

    fn gethexa(&mut self) -> Result<u32, LexError> {
        self.save_and_next();
        let c = self.cur();
        if !is_xdigit(c) {
            return Err(self.esc_error("hexadecimal digit expected"));
        }
        Ok((c as u8 as char).to_digit(16).unwrap())
    }

    fn read_string(&mut self, del: u8) -> Result<Vec<u8>, LexError> {
        self.save_and_next(); // keep delimiter for messages
        while self.cur() != del as i32 {
            let c = self.cur();
            if c == EOZ {
                return Err(self.err_near_eof("unfinished-string", "unfinished string"));
            }
            if c == '\n' as i32 || c == '\r' as i32 {
                return Err(self.err_near_buf("unfinished-string", "unfinished string"));
            }
            if c == '\\' as i32 {
                self.save_and_next(); // keep '\\' for error messages
                let c = self.cur();
                let out: u8;
                match c {
                    _ if c == 'a' as i32 => out = 7,
                    _ if c == 'b' as i32 => out = 8,
                    _ if c == 'f' as i32 => out = 12,
                    _ if c == 'n' as i32 => out = b'\n',
                    _ if c == 'r' as i32 => out = b'\r',
                    _ if c == 't' as i32 => out = b'\t',
                    _ if c == 'v' as i32 => out = 11,
                    _ if c == 'x' as i32 => {
                        let h1 = self.gethexa()?;
                        let h2 = self.gethexa()?;
                        let r = (h1 << 4) + h2;
                        // remove '\xHH' (3 saved chars + '\\') then read_save
                        let l = self.buf.len();
                        self.buf.truncate(l - 3);
                        self.advance();
                        self.buf.push(r as u8);
                        continue;
                    }
                    _ if c == 'u' as i32 => {
                        let mark = self.buf.len() - 1; // position of '\\'
                        self.save_and_next(); // skip 'u'
                        if self.cur() != '{' as i32 {
                            return Err(self.esc_error("missing '{'"));
                        }
                        let mut r: u32 = self.gethexa()?;
                        loop {
                            self.save_and_next();
                            let c = self.cur();
                            if !is_xdigit(c) {
                                break;
                            }
                            r = (r << 4) + (c as u8 as char).to_digit(16).unwrap();
                            if r > 0x10FFFF {
                                return Err(self.esc_error("UTF-8 value too large"));
                            }
                        }
                        if self.cur() != '}' as i32 {
                            return Err(self.esc_error("missing '}'"));
                        }
                        self.advance();
                        self.buf.truncate(mark);
                        utf8esc(r, &mut self.buf);
                        continue;
                    }
                    _ if c == '\n' as i32 || c == '\r' as i32 => {
                        self.inc_line();
                        let l = self.buf.len();
                        self.buf.truncate(l - 1);
                        self.buf.push(b'\n');
                        continue;
                    }
                    _ if c == '\\' as i32 || c == '"' as i32 || c == '\'' as i32 => out = c as u8,
                    EOZ => continue, // will raise an error next loop
                    _ if c == 'z' as i32 => {
                        let l = self.buf.len();
                        self.buf.truncate(l - 1);
                        self.advance();
                        while is_space(self.cur()) {
                            let c = self.cur();
                            if c == '\n' as i32 || c == '\r' as i32 {
                                self.inc_line();
                            } else {
                                self.advance();
                            }
                        }
                        continue;
                    }
                    _ => {
                        if !is_digit(c) {
                            return Err(self.esc_error("invalid escape sequence"));
                        }
                        let mut r: u32 = 0;
                        let mut i = 0;
                        while i < 3 && is_digit(self.cur()) {
                            r = 10 * r + (self.cur() as u32 - '0' as u32);
                            self.save_and_next();
                            i += 1;
                        }
                        if r > 255 {
                            return Err(self.esc_error("decimal escape too large"));
                        }
                        let l = self.buf.len();
                        self.buf.truncate(l - i - 1);
                        self.buf.push(r as u8);
                        continue;
                    }
                }
                // read_save
                self.advance();
                let l = self.buf.len();
                self.buf.truncate(l - 1);
                self.buf.push(out);
                continue;
            }
            self.save_and_next();
        }
        self.save_and_next(); // closing delimiter
        Ok(self.buf[1..self.buf.len() - 1].to_vec())
    }

    fn read_numeral(&mut self) -> Result<Tok, LexError> {
        let mut expo: &[u8; 2] = b"Ee";
        let first = self.cur();
        self.save_and_next();
        if first == '0' as i32 && self.check_next2(b"xX") {
            expo = b"Pp";
        }
        loop {
            if self.check_next2(expo) {
                self.check_next2(b"-+");
            }
            if is_xdigit(self.cur()) || self.cur() == '.' as i32 {
                self.save_and_next();
            } else {
                break;
            }
        }
        match str2number(&self.buf) {
            Some(Num::Int(i)) => Ok(Tok::Int(i)),
            Some(Num::Float(f)) => Ok(Tok::Flt(f)),
            None => Err(self.err_near_buf("malformed-number", "malformed number")),
        }
    }

    pub fn next(&mut self) -> Result<Token, LexError> {
        self.buf.clear();
        loop {
            let start = self.pos as u32;
            let c = self.cur();
            macro_rules! tk {
                ($t:expr) => {
                    return Ok(Token { tok: $t, line: self.line, start, end: self.pos as u32 })
                };
            }
            match c {
                EOZ => tk!(Tok::Eos),
                10 | 13 => {
                    self.inc_line();
                }
                32 | 9 | 11 | 12 => {
                    self.advance();
                }
                45 => {
                    // '-'
                    self.advance();
                    if self.cur() != '-' as i32 {
                        tk!(Tok::Ch(b'-'));
                    }
                    self.advance();
                    if self.cur() == '[' as i32 {
                        let sep = self.skip_sep();
                        self.buf.clear();
                        if sep >= 0 {
                            self.read_long_string(sep, true)?;
                            self.buf.clear();
                            continue;
                        }
                    }
                    while self.cur() != '\n' as i32 && self.cur() != '\r' as i32 && self.cur() != EOZ {
                        self.advance();
                    }
                }
                91 => {
                    // '['
                    let sep = self.skip_sep();
                    if sep >= 0 {
                        let body = self.read_long_string(sep, false)?.unwrap_or_default();
                        let id = self.interner.intern(&body);
                        tk!(Tok::Str(id));
                    } else if sep != -1 {
                        return Err(self.err_near_buf("syntax", "invalid long string delimiter"));
                    }
                    tk!(Tok::Ch(b'['));
                }
                61 => {
                    self.advance();
                    if self.check_next1(b'=') {
                        tk!(Tok::Eq);
                    }
                    tk!(Tok::Ch(b'='));
                }
                60 => {
                    self.advance();
                    if self.check_next1(b'=') {
                        tk!(Tok::Le);
                    }
                    if self.check_next1(b'<') {
                        tk!(Tok::Shl);
                    }
                    tk!(Tok::Ch(b'<'));
                }
                62 => {
                    self.advance();
                    if self.check_next1(b'=') {
                        tk!(Tok::Ge);
                    }
                    if self.check_next1(b'>') {
                        tk!(Tok::Shr);
                    }
                    tk!(Tok::Ch(b'>'));
                }
                47 => {
                    self.advance();
                    if self.check_next1(b'/') {
                        tk!(Tok::IDiv);
                    }
                    tk!(Tok::Ch(b'/'));
                }
                126 => {
                    self.advance();
                    if self.check_next1(b'=') {
                        tk!(Tok::Ne);
                    }
                    tk!(Tok::Ch(b'~'));
                }
                58 => {
                    self.advance();
                    if self.check_next1(b':') {
                        tk!(Tok::DbColon);
                    }
                    tk!(Tok::Ch(b':'));
                }
                34 | 39 => {
                    let s = self.read_string(c as u8)?;
                    let id = self.interner.intern(&s);
                    tk!(Tok::Str(id));
                }
                46 => {
                    // '.'
                    self.save_and_next();
                    if self.check_next1(b'.') {
                        if self.check_next1(b'.') {
                            tk!(Tok::Dots);
                        }
                        tk!(Tok::Concat);
                    }
                    if !is_digit(self.cur()) {
                        tk!(Tok::Ch(b'.'));
                    }
                    let t = self.read_numeral_after_dot()?;
                    tk!(t);
                }
                48..=57 => {
                    let t = self.read_numeral()?;
                    tk!(t);
                }
                _ => {
                    if is_lalpha(c) {
                        let s = self.pos;
                        while is_lalnum(self.cur()) {
                            self.advance();
                        }
                        let text = &self.src[s..self.pos];
                        if let Some(t) = reserved_word(text) {
                            tk!(t);
                        }
                        let id = self.interner.intern(text);
                        tk!(Tok::Name(id));
                    }
                    self.advance();
                    tk!(Tok::Ch(c as u8));
                }
            }
        }
    }

    fn read_numeral_after_dot(&mut self) -> Result<Tok, LexError> {
        // buffer already holds "."; current is a digit. Same loop as read_numeral (decimal only).
        let expo: &[u8; 2] = b"Ee";
        self.save_and_next();
        loop {
            if self.check_next2(expo) {
                self.check_next2(b"-+");
            }
            if is_xdigit(self.cur()) || self.cur() == '.' as i32 {
                self.save_and_next();
            } else {
                break;
            }
        }
        match str2number(&self.buf) {
            Some(Num::Int(i)) => Ok(Tok::Int(i)),
            Some(Num::Float(f)) => Ok(Tok::Flt(f)),
            None => Err(self.err_near_buf("malformed-number", "malformed number")),
        }
    }
}

/// luaO_utf8esc
pub fn utf8esc(x: u32, out: &mut Vec<u8>) {
    if x < 0x80 {
        out.push(x as u8);
        return;
    }
    let mut tmp = [0u8; 8];
    let mut n = 0;
    let mut x = x;
    let mut mfb: u32 = 0x3f;
    loop {
        tmp[n] = (0x80 | (x & 0x3f)) as u8;
        n += 1;
        x >>= 6;
        mfb >>= 1;
        if x <= mfb {
            break;
        }
    }
    tmp[n] = (((!mfb) << 1) | x) as u8;
    n += 1;
    for i in (0..n).rev() {
        out.push(tmp[i]);
    }
}
