//! developer tool: print the renderings (annotation subsets) of a stored C08 case
use syltmodel::print::{Choices, Plan};
fn main() {
    let path = std::env::args().nth(1).expect("replay file");
    let v: serde_json::Value = vcore::json_from_slice(&std::fs::read(&path).unwrap()).unwrap();
    let case: checks::c08::Case = serde_json::from_value(v["case"].clone()).unwrap();
    let mut all = vec![Vec::new()];
    all.extend(case.subsets.iter().cloned());
    for (i, bits) in all.into_iter().enumerate() {
        let mut p = Plan::default();
        p.annot_default = (false, false, false);
        p.annot = Choices(bits);
        let text = checks::common::render(&case.prog, &p).text;
        std::fs::write(format!("/tmp/blow/v{}.sy", i), text).unwrap();
    }
}
