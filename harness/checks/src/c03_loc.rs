//! C03 helper: find the planted raw node of a GenAST program again (replay files store the *planted* program,
//! the shrinker never removes raw nodes), classify where it sits, and derive the unplanted base / the legal
//! twin by removing it or swapping its text. The placement classes mirror `syltmodel::plant::Placement`; the
//! generator cross-checks the two (label `placement-disagrees`).
use syltmodel::ast::*;

#[derive(Clone, Debug)]
pub struct Loc {
    /// innermost placement class (block classes for statements and whole expression statements)
    pub placement: &'static str,
    /// blocks / function literals entered below the enclosing top-level definition
    pub depth: usize,
    pub closure_depth: usize,
    pub global: VarId,
    pub global_is_fn: bool,
    pub in_pure: bool,
    pub in_loop: bool,
    /// expression plant that is a whole expression statement (its value is dropped)
    pub value_unused: bool,
    /// expression plant whose direct parent is a tuple literal
    pub in_tuple: bool,
    /// statement plant (or whole expression statement) that is the last statement of a block without value
    pub last_in_block: bool,
    /// some enclosing block (below the innermost function) is a branch of an `if` that has no `else`
    pub in_elseless_if: bool,
}

pub enum Action {
    Find,
    /// statement plants: delete the raw statement; expression plants: not applicable
    Remove,
    SetText(String),
}

#[derive(Clone, Copy)]
struct Cx {
    placement: &'static str,
    block: &'static str,
    depth: usize,
    cdepth: usize,
    pure_: bool,
    in_loop: bool,
    global: VarId,
    global_is_fn: bool,
    elseless: bool,
}

struct St<'a> {
    text: &'a str,
    is_expr: bool,
    action: Action,
    found: Option<Loc>,
}

impl Cx {
    fn with(self, placement: &'static str) -> Cx {
        Cx { placement, ..self }
    }
    fn nested(self, class: &'static str) -> Cx {
        Cx { placement: class, block: class, depth: self.depth + 1, ..self }
    }
    fn loc(&self, value_unused: bool, in_tuple: bool, last: bool) -> Loc {
        Loc {
            placement: self.placement,
            depth: self.depth,
            closure_depth: self.cdepth,
            global: self.global,
            global_is_fn: self.global_is_fn,
            in_pure: self.pure_,
            in_loop: self.in_loop,
            value_unused,
            in_tuple,
            last_in_block: last,
            in_elseless_if: self.elseless,
        }
    }
}

fn block(b: &mut Block, cx: Cx, st: &mut St) {
    let mut i = 0;
    while i < b.stmts.len() {
        let last = i + 1 == b.stmts.len() && b.value.is_none();
        if !st.is_expr {
            if let Stmt::Raw(t) = &b.stmts[i] {
                if t == st.text {
                    st.found = Some(cx.with(cx.block).loc(false, false, last));
                    match &st.action {
                        Action::Find => {}
                        Action::Remove => {
                            b.stmts.remove(i);
                        }
                        Action::SetText(n) => b.stmts[i] = Stmt::Raw(n.clone()),
                    }
                    return;
                }
            }
        }
        stmt(&mut b.stmts[i], cx, st, last);
        if st.found.is_some() {
            return;
        }
        i += 1;
    }
    if let Some(v) = &mut b.value {
        expr(v, cx.with("returnvalue"), st, false, false, false);
    }
}

fn stmt(s: &mut Stmt, cx: Cx, st: &mut St, last: bool) {
    match s {
        Stmt::Def { value, .. } => expr(value, cx.with("defvalue"), st, false, false, false),
        Stmt::Assign { target, value, .. } => {
            if let LValue::Field(o, _) = target {
                expr(o, cx.with("operand"), st, false, false, false);
            }
            if st.found.is_none() {
                expr(value, cx.with("defvalue"), st, false, false, false);
            }
        }
        Stmt::Expr(x) => expr(x, cx.with(cx.block), st, true, false, last),
        Stmt::Loop { cond, body } => {
            if let Some(c) = cond {
                expr(c, cx.with("condition"), st, false, false, false);
            }
            if st.found.is_none() {
                let mut n = cx.nested("loopbody");
                n.in_loop = true;
                block(body, n, st);
            }
        }
        Stmt::Ret(Some(x)) => expr(x, cx.with("returnvalue"), st, false, false, false),
        Stmt::Block(b) => block(b, cx.nested("doblock"), st),
        Stmt::Assert(a, b) => {
            expr(a, cx.with("operand"), st, false, false, false);
            if st.found.is_none() {
                expr(b, cx.with("operand"), st, false, false, false);
            }
        }
        Stmt::Break | Stmt::Continue | Stmt::Ret(None) | Stmt::Unreachable(_) | Stmt::Raw(_) => {}
    }
}

fn function(def: &mut FnDef, cx: Cx, class: &'static str, st: &mut St) {
    let mut n = cx.nested(class);
    n.cdepth += 1;
    n.pure_ = cx.pure_ || def.pure;
    n.in_loop = false;
    n.elseless = false;
    block(&mut def.body, n, st);
}

fn expr(x: &mut Expr, cx: Cx, st: &mut St, stmt_top: bool, in_tuple: bool, last: bool) {
    if st.found.is_some() {
        return;
    }
    if st.is_expr {
        if let EKind::Raw(t) = &x.kind {
            if t == st.text {
                st.found = Some(cx.loc(stmt_top, in_tuple, stmt_top && last));
                if let Action::SetText(n) = &st.action {
                    x.kind = EKind::Raw(n.clone());
                }
                return;
            }
        }
    }
    let op = cx.with("operand");
    match &mut x.kind {
        EKind::Int(_) | EKind::Float(_) | EKind::Str(_) | EKind::Bool(_) | EKind::Var(_) | EKind::MaybeNone | EKind::Raw(_) => {}
        EKind::Bin(_, a, b) | EKind::AssertEq(a, b) => {
            expr(a, op, st, false, false, false);
            expr(b, op, st, false, false, false);
        }
        EKind::Neg(a) | EKind::Not(a) | EKind::Field(a, _) | EKind::TupleIdx(a, _) | EKind::MaybeJust(a) | EKind::Mark(a) => {
            expr(a, op, st, false, false, false)
        }
        EKind::If(bs, d) => {
            let no_else = d.is_none();
            for (c, b) in bs.iter_mut() {
                // (the conditions belong to the `if` as well: their `ret`s are merged with the branches')
                let mut cc = cx.with("condition");
                cc.elseless = cx.elseless || no_else;
                expr(c, cc, st, false, false, false);
                if st.found.is_some() {
                    return;
                }
                let mut n = cx.nested("branch");
                n.elseless = cx.elseless || no_else;
                block(b, n, st);
                if st.found.is_some() {
                    return;
                }
            }
            if let Some(d) = d {
                block(d, cx.nested("branch"), st);
            }
        }
        EKind::Case { scrut, arms, default } => {
            expr(scrut, cx.with("condition"), st, false, false, false);
            for a in arms.iter_mut() {
                if st.found.is_some() {
                    return;
                }
                block(&mut a.body, cx.nested("casearm"), st);
            }
            if let Some(d) = default {
                if st.found.is_none() {
                    block(d, cx.nested("casearm"), st);
                }
            }
        }
        EKind::Call(f, args) => {
            expr(f, op, st, false, false, false);
            for a in args.iter_mut() {
                expr(a, cx.with("argument"), st, false, false, false);
            }
        }
        EKind::Std(_, args) => {
            for a in args.iter_mut() {
                expr(a, cx.with("argument"), st, false, false, false);
            }
        }
        EKind::Tuple(args) => {
            for a in args.iter_mut() {
                expr(a, cx.with("element"), st, false, true, false);
            }
        }
        EKind::List(args) => {
            for a in args.iter_mut() {
                expr(a, cx.with("element"), st, false, false, false);
            }
        }
        EKind::Lambda(def) => function(def, cx, "closure", st),
        EKind::BlobNew { fields, .. } => {
            for (_, fx) in fields.iter_mut() {
                if st.found.is_some() {
                    return;
                }
                if let EKind::Lambda(def) = &mut fx.kind {
                    function(def, cx, "method", st);
                } else {
                    expr(fx, cx.with("fieldinit"), st, false, false, false);
                }
            }
        }
        EKind::Variant(_, _, p) => {
            if let Some(p) = p {
                expr(p, op, st, false, false, false);
            }
        }
    }
}

/// Apply `action` to the first raw node carrying exactly `text`; returns where it was found.
pub fn apply(p: &mut Program, text: &str, is_expr: bool, action: Action) -> Option<Loc> {
    let mut st = St { text, is_expr, action, found: None };
    for gi in 0..p.globals.len() {
        let var = p.globals[gi].var;
        let g = &mut p.globals[gi];
        if let EKind::Lambda(def) = &mut g.value.kind {
            let cx = Cx {
                placement: "fnbody",
                block: "fnbody",
                depth: 0,
                cdepth: 0,
                pure_: def.pure,
                in_loop: false,
                global: var,
                global_is_fn: true,
                elseless: false,
            };
            block(&mut def.body, cx, &mut st);
        } else {
            let cx = Cx {
                placement: "globalinit",
                block: "global",
                depth: 0,
                cdepth: 0,
                pure_: false,
                in_loop: false,
                global: var,
                global_is_fn: false,
                elseless: false,
            };
            expr(&mut g.value, cx, &mut st, false, false, false);
        }
        if st.found.is_some() {
            break;
        }
    }
    st.found
}

pub fn find(p: &Program, text: &str, is_expr: bool) -> Option<Loc> {
    let mut q = p.clone();
    apply(&mut q, text, is_expr, Action::Find)
}

pub fn placement_name(pl: syltmodel::plant::Placement) -> &'static str {
    use syltmodel::plant::Placement as P;
    match pl {
        P::FnBody => "fnbody",
        P::Closure => "closure",
        P::Method => "method",
        P::Branch => "branch",
        P::CaseArm => "casearm",
        P::LoopBody => "loopbody",
        P::DoBlock => "doblock",
        P::GlobalInit => "globalinit",
        P::Argument => "argument",
        P::Operand => "operand",
        P::FieldInit => "fieldinit",
        P::Condition => "condition",
        P::DefValue => "defvalue",
        P::Element => "element",
        P::ReturnValue => "returnvalue",
    }
}
