//! C06 — every accepted program yields loadable Lua (validity predicate: the Lua 5.3 loader rules).
use crate::common::*;
use arbitrary::Unstructured;
use serde::{Deserialize, Serialize};
use syltmodel::ast::*;
use syltmodel::gen::{Gen, GenCfg, LEXICAL_FIELD_NAMES};
use syltmodel::print::{Plan as SurfacePlan, LUA_KEYWORDS};
use vcore::{compile, Check, Labels, Outcome, Plan, Project, Stats, Step, Tape, Tier, Verdict};

pub struct C06;
pub const CHECK: C06 = C06;
pub fn plan(t: Tier) -> Plan {
    Plan::new(t.pick(20_000, 240_000), t.pick(3000, 5000))
}

#[derive(Clone, Serialize, Deserialize)]
pub struct Case {
    pub prog: ProgCase,
    pub features: Vec<String>,
    /// stand-alone program with one long straight-line body of *cheap* statements (see `cheap_long_body`); `prog` is unused
    #[serde(default)]
    pub cheap_body: Option<String>,
}

/// One function body of 100-600 statements none of which needs a Lua local of its own in the emitted code: assignments
/// of literals to a variable, compound assignments with literals, unused literals, asserts between literals.
/// (Definitions, variable reads and calls each cost a local - that is the open finding `too-many-locals`; these do not,
/// so such a body has to load whatever its length.)
fn cheap_long_body(t: &mut Tape) -> String {
    let n = *t.pick(&[100usize, 190, 199, 200, 201, 250, 256, 400, 600]);
    let kind = t.below(6);
    let mut s = String::from("Zb :: blob { f: int, g: str }\nstart :: fn do\n    x := 0\n    y := \"\"\n    b := Zb { f: 0, g: \"\" }\n");
    for i in 1..=n {
        let k = if kind == 5 { t.below(5) } else { kind };
        match k {
            0 => s.push_str(&format!("    x = {}\n", i)),
            1 => s.push_str(&format!("    {} <=> {}\n", i, i)),
            2 => s.push_str("    x += 1\n"),
            3 => s.push_str(&format!("    {}\n", i)),
            _ => s.push_str(&format!("    y = \"s{}\"\n", i)),
        }
    }
    s.push_str("    print(x)\n    print(b.f)\n    print(y)\nend\n");
    s
}

pub fn lexical_cfg(t: &mut Tape, thorough: bool) -> GenCfg {
    let mut cfg = GenCfg::core(thorough);
    cfg.lexical_names = true;
    cfg.plain_strings = false;
    cfg.extreme_literals = true;
    cfg.scenario_weight = 1;
    cfg.locals_budget = 150;
    // known-finding avoidance (DESIGN §2.6): on for 80 % of the budget
    let raw = t.chance(1, 5);
    cfg.backslash_strings = raw;
    cfg.long_bodies = if raw { 260 } else { 40 };
    cfg.many_globals = if raw { 160 } else { 20 };
    cfg.avoid_stmt_after_ret = t.chance(1, 2);
    cfg.avoid_unused_andor = false;
    cfg
}

fn features(p: &Program, src: &str) -> Vec<String> {
    let mut f = std::collections::BTreeSet::new();
    for b in &p.blobs {
        for fd in &b.fields {
            if LUA_KEYWORDS.contains(&fd.name.as_str()) {
                f.insert("lua-keyword-field".to_string());
            } else if LEXICAL_FIELD_NAMES.contains(&fd.name.as_str()) {
                f.insert("odd-field-name".to_string());
            }
        }
    }
    syltmodel::walk::walk_program(p, &mut |e| match &e.kind {
        EKind::Str(s) => {
            if s.contains('\\') {
                f.insert("backslash-in-string".to_string());
            }
            if s.contains('\n') || s.contains('\r') {
                f.insert("newline-in-string".to_string());
            }
            if s.chars().any(|c| (c as u32) < 32 && c != '\n' && c != '\r') {
                f.insert("control-char-in-string".to_string());
            }
            if !s.is_ascii() {
                f.insert("non-ascii-string".to_string());
            }
        }
        EKind::Int(i) if i.unsigned_abs() > (1u64 << 53) => {
            f.insert("huge-int".to_string());
        }
        EKind::Float(t) if t.contains('e') || t.starts_with('.') || t.ends_with('.') => {
            f.insert("odd-float-literal".to_string());
        }
        _ => {}
    });
    // unused expression statements / statements after ret / long bodies
    fn blk(b: &Block, f: &mut std::collections::BTreeSet<String>) {
        let mut seen_ret = false;
        for s in &b.stmts {
            if seen_ret {
                f.insert("statement-after-ret".to_string());
            }
            match s {
                Stmt::Ret(_) => seen_ret = true,
                Stmt::Expr(x) => {
                    if x.ty != Ty::Void && !matches!(x.kind, EKind::If(..) | EKind::Case { .. } | EKind::Call(..) | EKind::Std(..)) {
                        f.insert("unused-expression".to_string());
                    }
                }
                Stmt::Loop { body, .. } => blk(body, f),
                Stmt::Block(b) => blk(b, f),
                _ => {}
            }
        }
        if b.stmts.len() >= 60 {
            f.insert("long-body".to_string());
        }
    }
    syltmodel::walk::walk_program(p, &mut |e| match &e.kind {
        EKind::Lambda(d) => blk(&d.body, &mut f),
        EKind::If(bs, d) => {
            for (_, b) in bs {
                blk(b, &mut f);
            }
            if let Some(d) = d {
                blk(d, &mut f);
            }
        }
        EKind::Case { arms, default, .. } => {
            for a in arms {
                blk(&a.body, &mut f);
            }
            if let Some(d) = default {
                blk(d, &mut f);
            }
        }
        _ => {}
    });
    if p.globals.len() >= 60 {
        f.insert("many-globals".to_string());
    }
    if src.len() > 12_000 {
        f.insert("large-program".to_string());
    }
    f.into_iter().collect()
}

impl Check for C06 {
    type Case = Case;
    fn id(&self) -> &'static str {
        "C06"
    }
    fn generate(&self, u: &mut Unstructured, tier: Tier) -> Option<Case> {
        let mut t = Tape::new(u);
        if t.chance(1, 40) {
            let src = cheap_long_body(&mut t);
            return Some(Case { prog: ProgCase { prog: Program::default(), plan: SurfacePlan::default(), source: src.clone() }, features: vec!["cheap-long-body".into()], cheap_body: Some(src) });
        }
        let cfg = lexical_cfg(&mut t, tier == Tier::Thorough);
        let mut prog = Gen::new(&mut t, cfg).program();
        // a quarter of the cases: loop exits and returns planted at arbitrary statement positions. Most of these
        // programs must be rejected (discarded); whatever the compiler accepts has to load
        if t.chance(1, 4) {
            let n = 1 + t.below(2);
            for _ in 0..n {
                let (ss, _) = syltmodel::plant::sites(&prog);
                if ss.is_empty() {
                    break;
                }
                let i = t.below(ss.len());
                let st = match t.below(4) {
                    0 => Stmt::Break,
                    1 => Stmt::Continue,
                    2 => Stmt::Ret(None),
                    _ => Stmt::Ret(Some(int(0))),
                };
                prog = syltmodel::plant::insert_stmt(&prog, i, st);
            }
        }
        let plan = SurfacePlan::default();
        let source = render(&prog, &plan).text;
        let mut features = features(&prog, &source);
        let _ = &mut features;
        Some(Case { prog: ProgCase { prog, plan, source }, features, cheap_body: None })
    }

    fn evaluate(&self, case: &Case, labels: &mut Labels) -> Verdict {
        if let Some(src) = &case.cheap_body {
            labels.add("feature:cheap-long-body");
            return match compile(&Project::single(src.clone())) {
                Outcome::Accepted(lua) => match minilua::load(&lua) {
                    Ok(_) => {
                        labels.add("accepted");
                        Verdict::Pass { nontrivial: true }
                    }
                    Err(e) => Verdict::Violation {
                        signature: format!("C06/lua-load/{}/cheap-long-body", e.class),
                        detail: format!("a function body of literal assignments / compound assignments / unused literals (no definitions, reads or calls) does not load: {}\n--- source (head) ---\n{}", e.msg, src.chars().take(600).collect::<String>()),
                    },
                },
                Outcome::Rejected { errors, .. } => {
                    labels.add(format!("cheap-long-body-rejected:{}", errors[0].kind));
                    Verdict::Discard("rejected".into())
                }
                Outcome::Panicked { .. } => Verdict::Discard("compiler-panicked".into()),
            };
        }
        let printed = render(&case.prog.prog, &case.prog.plan);
        let feats = features(&case.prog.prog, &printed.text);
        for f in &feats {
            labels.add(format!("feature:{}", f));
        }
        let out = compile(&Project::single(printed.text.clone()));
        let lua = match &out {
            Outcome::Accepted(b) => b,
            Outcome::Rejected { errors, .. } => {
                labels.add(format!("rejected:{}:{}", errors[0].kind, errors[0].sub));
                if let Ok(d) = std::env::var("SAVE_REJECTED") {
                    let _ = std::fs::create_dir_all(&d);
                    let _ = std::fs::write(format!("{}/rej_{:x}.sy", d, vcore::hash64(&printed.text)), format!("// {}\n{}", out.short(), printed.text));
                }
                return Verdict::Discard("rejected".into());
            }
            Outcome::Panicked { .. } => return Verdict::Discard("compiler-panicked".into()),
        };
        labels.add("accepted");
        match minilua::load(lua) {
            Ok(chunk) => {
                let st = minilua::load_stats(&chunk);
                if st.max_register_estimate >= 230 {
                    return Verdict::Discard("register-estimate-grey-zone".into());
                }
                if st.max_c_levels >= 185 {
                    return Verdict::Discard("c-levels-grey-zone".into());
                }
                if st.max_active_locals > 150 {
                    labels.add("many-locals");
                }
                Verdict::Pass { nontrivial: !feats.is_empty() }
            }
            Err(e) => {
                let trigger = match e.class.as_str() {
                    "reserved-name" => "field-name",
                    "bad-escape" | "unfinished-string" => {
                        if feats.iter().any(|f| f == "backslash-in-string") {
                            "backslash-in-string-literal"
                        } else if feats.iter().any(|f| f == "newline-in-string") {
                            "newline-in-string-literal"
                        } else {
                            "string-literal"
                        }
                    }
                    "too-many-locals" => {
                        if e.msg.contains("main function") {
                            "main-chunk"
                        } else {
                            "function-body"
                        }
                    }
                    "return-not-last" => "statement-after-ret",
                    _ => "other",
                };
                Verdict::Violation {
                    signature: format!("C06/lua-load/{}/{}", e.class, trigger),
                    detail: format!(
                        "the compiler accepted the program but the emitted chunk does not load: {} (chunk line {})\nfeatures: {:?}\n--- source ---\n{}",
                        e.msg, e.line, feats, printed.text
                    ),
                }
            }
        }
    }

    fn simplify_at(&self, case: &Case, idx: usize) -> Step<Case> {
        if let Some(src) = &case.cheap_body {
            // fewer statements: drop the idx-th block of ten body lines
            let lines: Vec<&str> = src.lines().collect();
            let body = lines.len().saturating_sub(9);
            if idx * 10 >= body {
                return Step::End;
            }
            let (a, b) = (5 + idx * 10, (5 + idx * 10 + 10).min(5 + body));
            let kept: Vec<&str> = lines.iter().enumerate().filter(|(i, _)| *i < a || *i >= b).map(|(_, l)| *l).collect();
            let out = kept.join("\n") + "\n";
            let mut c = case.clone();
            c.prog.source = out.clone();
            c.cheap_body = Some(out);
            return Step::Candidate(c);
        }
        match shrink_step(&case.prog, idx) {
            Step::End => Step::End,
            Step::Skip => Step::Skip,
            Step::Candidate(p) => Step::Candidate(Case { prog: p, features: case.features.clone(), cheap_body: None }),
        }
    }
    fn sample(&self, case: &Case) -> serde_json::Value {
        let mut v = sample_of(&case.prog);
        v["features"] = serde_json::json!(case.features);
        v
    }
    fn rule(&self) -> String {
        "cases: random well-typed programs from the lexical profile: blob field names drawn from a pool with every Lua reserved word \
         that Sylt allows (elseif for function goto local repeat return then until while), underscore and long names; string literals \
         over arbitrary characters except the double quote (newline, CR, tab, control characters, UTF-8 incl. 4-byte; backslash in the \
         20% of cases that run without the known-finding avoidance switches); ints up to i64::MAX, floats 1e308 1e-320 .5 5. 1e+2; \
         unused expression statements of every kind; statements after `ret`; straight-line bodies of up to 260 extra definitions; \
         in a quarter of the cases 1-2 `break` / `continue` / `ret` statements planted at arbitrary statement positions (function bodies, \
         closures, pure closures inside loops, branches, arms: mostly rejected and then discarded, whatever is accepted must load). \
         Oracle: compile Accepted => the chunk passes mini-Lua's loader (lparser.c rules incl. 200 locals / 255 upvalues / C levels / \
         return-must-be-last / reserved words / escapes / goto-label rules); register-estimate >= 230 or C levels >= 185 => case \
         is inconclusive (discarded). non-trivial = accepted and at least one lexical corner feature present; distinct by case hash"
            .into()
    }
    fn assumptions(&self) -> Vec<String> {
        vec!["mini-Lua's loader accepts exactly what lua5.3's luaL_loadbuffer accepts on this subset (conformance tests in harness/minilua/tests/loader.rs; jump-offset and constant-table limits are not modelled, generators stay far below them)".into()]
    }
    fn health(&self, s: &Stats) -> Result<(), String> {
        if s.evaluations < 200 {
            return Ok(());
        }
        if (s.label("accepted") as f64) < 0.5 * s.evaluations as f64 {
            return Err("fewer than half of the generated programs compile".into());
        }
        for f in ["feature:lua-keyword-field", "feature:newline-in-string", "feature:unused-expression", "feature:non-ascii-string"] {
            if s.label(f) * 50 < s.evaluations {
                return Err(format!("lexical feature {} is (nearly) absent: {} of {}", f, s.label(f), s.evaluations));
            }
        }
        Ok(())
    }
}
