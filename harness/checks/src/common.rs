//! helpers shared by the GenAST based checks
use serde::{Deserialize, Serialize};
use syltmodel::ast::Program;
use syltmodel::interp::{run_program, RunResult, Stop, COV_NAMES};
use syltmodel::print::{print_program, Plan as SurfacePlan, Printed};
use vcore::luarun::{Terminal, Trace};

#[derive(Clone, Serialize, Deserialize)]
pub struct ProgCase {
    pub prog: Program,
    pub plan: SurfacePlan,
    /// rendered source, for human readers of replay files (re-rendered on evaluation)
    #[serde(default)]
    pub source: String,
}

pub fn ref_steps(thorough: bool) -> u64 {
    if thorough {
        2_000_000
    } else {
        200_000
    }
}

/// expected trace from the reference run, mapping `<!>` uids to printed lines
pub fn expected_trace(r: &RunResult, printed: &Printed) -> Result<Trace, String> {
    let terminal = match &r.stop {
        None => Terminal::Ok,
        Some(Stop::AssertFailed) => Terminal::AssertFailed,
        Some(Stop::Unreachable(uid)) => match printed.unreachable_lines.get(uid) {
            Some(l) if *l == usize::MAX => return Err("ref-unreachable-written-twice".into()),
            l => Terminal::Unreachable(*l.unwrap_or(&0) as u64),
        },
        Some(Stop::Budget(w)) => return Err(format!("ref-budget-{}", w)),
        Some(Stop::Dyn(k, what)) => return Err(format!("ref-dynerror-{}:{}", k, what)),
    };
    Ok(Trace { lines: r.out.clone(), terminal })
}

pub fn cov_labels(r: &RunResult) -> Vec<&'static str> {
    COV_NAMES.iter().zip(r.cov.iter()).filter(|(_, c)| **c > 0).map(|(n, _)| *n).collect()
}

pub fn render(prog: &Program, plan: &SurfacePlan) -> Printed {
    print_program(prog, plan)
}

pub fn reference(prog: &Program, thorough: bool) -> RunResult {
    run_program(prog, ref_steps(thorough))
}

pub fn diff_traces(exp: &Trace, got: &Trace) -> Option<(String, String)> {
    let n = exp.lines.len().min(got.lines.len());
    for i in 0..n {
        if exp.lines[i] != got.lines[i] {
            return Some((
                "output-differs".into(),
                format!("printed line {} differs: expected {:?}, Lua printed {:?}", i + 1, exp.lines[i], got.lines[i]),
            ));
        }
    }
    if exp.lines.len() != got.lines.len() {
        let (longer, who) = if exp.lines.len() > got.lines.len() { (&exp.lines, "reference") } else { (&got.lines, "Lua") };
        return Some((
            "output-length-differs".into(),
            format!(
                "{} printed {} lines, the other {}; first extra line: {:?}; terminals: expected {:?}, got {:?}",
                who,
                longer.len(),
                n,
                longer[n],
                exp.terminal,
                got.terminal
            ),
        ));
    }
    if exp.terminal != got.terminal {
        let kind = match &got.terminal {
            Terminal::LuaError { class, .. } => format!("lua-error-{}", class),
            Terminal::Ok => "terminal-ok-unexpected".to_string(),
            Terminal::AssertFailed => "assert-failed-unexpected".to_string(),
            Terminal::Unreachable(_) => "unreachable-differs".to_string(),
            Terminal::OutOfBudget(_) => "budget".to_string(),
        };
        return Some((kind, format!("terminal differs: expected {:?}, Lua ended with {:?}", exp.terminal, got.terminal)));
    }
    None
}

pub fn shrink_step(case: &ProgCase, idx: usize) -> vcore::Step<ProgCase> {
    match syltmodel::shrink::candidate_at(&case.prog, idx) {
        syltmodel::shrink::ShrinkStep::End => vcore::Step::End,
        syltmodel::shrink::ShrinkStep::Skip => vcore::Step::Skip,
        syltmodel::shrink::ShrinkStep::Candidate(q) => {
            let source = render(&q, &case.plan).text;
            vcore::Step::Candidate(ProgCase { prog: q, plan: case.plan.clone(), source })
        }
    }
}

pub fn sample_of(case: &ProgCase) -> serde_json::Value {
    vcore::truncate_value(serde_json::json!({ "source": render(&case.prog, &case.plan).text }), 2500)
}

/// A stable class for an error message: quoted parts ('..' and "..") and digits removed, whitespace collapsed.
pub fn message_class(msg: &str) -> String {
    let mut out = String::new();
    let mut quote: Option<char> = None;
    for c in msg.chars() {
        match quote {
            Some(q) => {
                if c == q {
                    quote = None;
                }
            }
            None => {
                if c == '\'' || c == '"' {
                    quote = Some(c);
                } else if c.is_ascii_digit() {
                } else if c.is_whitespace() {
                    if !out.ends_with(' ') {
                        out.push(' ');
                    }
                } else {
                    out.push(c);
                }
            }
        }
    }
    out.trim().chars().take(60).collect()
}
