//! C18 — not built yet (stub so that the binary links; `./check C18` reports INFRA until replaced).
use arbitrary::Unstructured;
use vcore::{Check, Labels, Plan, Tier, Verdict};

pub struct Stub;
pub const CHECK: Stub = Stub;
pub fn plan(_t: Tier) -> Plan {
    Plan::new(1, 16)
}
impl Check for Stub {
    type Case = u8;
    fn id(&self) -> &'static str {
        "C18"
    }
    fn generate(&self, _u: &mut Unstructured, _tier: Tier) -> Option<u8> {
        None
    }
    fn evaluate(&self, _case: &u8, _labels: &mut Labels) -> Verdict {
        Verdict::Discard("stub".into())
    }
    fn rule(&self) -> String {
        "stub".into()
    }
    fn health(&self, _s: &vcore::Stats) -> Result<(), String> {
        Err("check not built yet".into())
    }
}
