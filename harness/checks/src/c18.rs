//! C18 — standard-library containers and helpers meet their contracts (model-based / stateful PBT).
//!
//! A case is a *history*: an element/key type, a small universe of keys, initial contents and up to 40
//! operations on one list / dict / set, or a sequence of Maybe- and math-helper calls. The history is run
//! against a plain Rust model (Vec, BTreeMap, BTreeSet, Option, i64, exact eighths) and rendered as one Sylt
//! program that prints an observation after every operation; the program is compiled by the real pipeline and
//! run by mini-Lua; the printed lines must equal the model's lines and the run must end normally.
#[path = "c18_types.rs"]
pub mod types;
#[path = "c18_render.rs"]
pub mod render;

use arbitrary::Unstructured;
use render::{colliding, render, Line, Rendered, PRO};
use types::*;
use vcore::luarun::{run_lua, LuaOutcome, Terminal};
use vcore::{compile, Check, Labels, Outcome, Project, Stats, Step, Tape, Tier, Verdict};

pub struct C18;
pub const CHECK: C18 = C18;
pub fn plan(t: Tier) -> vcore::Plan {
    vcore::Plan::new(t.pick(24_000, 900_000), 640)
}

// ---------------------------------------------------------------------------------------------------
// generator
// ---------------------------------------------------------------------------------------------------

const ATOMS: [&str; 12] = ["a", "", "b", " ", ",", ", ", "a, b", "a,b", " a", "b ", "ab", ", a"];
const ALPHA: [char; 4] = ['a', 'b', ' ', ','];

fn gen_str(t: &mut Tape) -> String {
    if t.chance(2, 3) {
        t.pick(&ATOMS).to_string()
    } else {
        let n = t.below(4);
        (0..n).map(|_| *t.pick(&ALPHA)).collect()
    }
}
fn gen_int(t: &mut Tape) -> i64 {
    match t.weighted(&[10, 2, 1]) {
        0 => t.range(-3, 6),
        1 => *t.pick(&[2147483647i64, -2147483648, 2147483648, -2147483647, 100, -100, 255, 65536]),
        _ => {
            let v = (t.u64() & 0xffff_ffff) as i64;
            v - (1 << 31)
        }
    }
}
fn gen_val(t: &mut Tape, ty: &Ty) -> Val {
    match ty {
        Ty::Int => Val::Int(gen_int(t)),
        Ty::Str => Val::Str(gen_str(t)),
        Ty::Bool => Val::Bool(t.bool()),
        Ty::Tup(ts) => Val::Tup(ts.iter().map(|x| gen_val(t, x)).collect()),
    }
}
fn gen_ty(t: &mut Tape) -> Ty {
    match t.weighted(&[5, 4, 2, 3, 2, 1, 1, 1, 1, 2, 1]) {
        9 => Ty::Tup(vec![Ty::Tup(vec![Ty::Str, Ty::Str]), Ty::Int]),
        10 => Ty::Tup(vec![Ty::Int, Ty::Tup(vec![Ty::Str, Ty::Str, Ty::Int])]),
        0 => Ty::Int,
        1 => Ty::Str,
        2 => Ty::Tup(vec![Ty::Int, Ty::Int]),
        3 => Ty::Tup(vec![Ty::Str, Ty::Str]),
        4 => Ty::Tup(vec![Ty::Int, Ty::Str]),
        5 => Ty::Tup(vec![Ty::Str]),
        6 => Ty::Tup(vec![Ty::Int]),
        7 => Ty::Tup(vec![Ty::Str, Ty::Int]),
        _ => Ty::Tup(vec![Ty::Str, Ty::Int, Ty::Str]),
    }
}
fn gen_num(t: &mut Tape, float: bool) -> Num {
    if float {
        Num::F(match t.weighted(&[8, 2]) {
            0 => t.range(-40, 40),
            _ => t.range(-(1 << 20), 1 << 20),
        })
    } else {
        Num::I(gen_int(t))
    }
}
fn gen_pred(t: &mut Tape, ty: &Ty, n: usize) -> Pred {
    let k = t.below(n);
    match (t.weighted(&[4, 2, 2, 2, 3, 1, 1, 2, 2, 3]), ty) {
        (9, _) => Pred::NeViaGet(k),
        (7, _) => Pred::EqViaGet(k),
        (8, _) => Pred::NeViaFilter(k),
        (0, _) => Pred::Eq(k),
        (1, _) => Pred::Ne(k),
        (2, Ty::Int) => Pred::Lt(k),
        (3, Ty::Int) => Pred::Gt(k),
        (4, Ty::Tup(_)) => Pred::FstEq(k),
        (5, _) => Pred::Never,
        (6, _) => Pred::Always,
        _ => Pred::Eq(k),
    }
}
fn gen_mapfn(t: &mut Tape, ty: &Ty, n: usize) -> MapFn {
    let k = t.below(n);
    match (t.weighted(&[2, 3, 2, 3, 2]), ty) {
        (0, _) => MapFn::Id,
        (1, Ty::Int) | (1, Ty::Str) => MapFn::Add(k),
        (2, _) => MapFn::Pair,
        (3, Ty::Tup(_)) => MapFn::Fst,
        (4, _) => MapFn::IsEq(k),
        _ => MapFn::Pair,
    }
}
fn gen_foldfn(t: &mut Tape, ty: &Ty) -> FoldFn {
    let i = t.range(0, 3);
    match ty {
        Ty::Int => match t.below(4) {
            0 => FoldFn::Sum(i),
            1 => FoldFn::SubAcc(i),
            2 => FoldFn::Poly(i),
            _ => FoldFn::Count(i),
        },
        Ty::Str => match t.below(3) {
            0 => FoldFn::CatAccItem,
            1 => FoldFn::CatItemAcc,
            _ => FoldFn::Count(i),
        },
        Ty::Tup(ts) if ts[0] == Ty::Int => match t.below(2) {
            0 => FoldFn::SumFst(i),
            _ => FoldFn::Count(i),
        },
        _ => FoldFn::Count(i),
    }
}

fn gen_case(t: &mut Tape) -> Case {
    // the key-collision findings were repaired in e1155ea: colliding keys are always used (the draw is kept so that
    // stored tapes decode as before; set the switch to `!t.chance(1, 5)` again for a future open finding)
    let _ = t.chance(1, 5);
    let sw = Switches { avoid_key_collision: false };
    let kind = match t.weighted(&[3, 3, 2, 2]) {
        0 => Kind::List,
        1 => Kind::Dict,
        2 => Kind::Set,
        _ => Kind::MaybeMath,
    };
    let elem = gen_ty(t);
    let vty = if t.bool() { Ty::Str } else { Ty::Int };
    let n_uni = 1 + t.below(6);
    let mut universe: Vec<Val> = Vec::new();
    for _ in 0..n_uni {
        let v = gen_val(t, &elem);
        if !universe.contains(&v) {
            universe.push(v);
        }
    }
    // tuples with two adjacent string components (at the top or inside a nested tuple): plant a pair of distinct keys
    // that print the same text
    fn colliding_pair(ty: &Ty, base: &Val, a: &str, b: &str, c: &str) -> Option<(Val, Val)> {
        if let (Ty::Tup(ts), Val::Tup(xs)) = (ty, base) {
            if let Some(p) = (0..ts.len().saturating_sub(1)).find(|i| ts[*i] == Ty::Str && ts[*i + 1] == Ty::Str) {
                let mut k1 = xs.clone();
                let mut k2 = xs.clone();
                k1[p] = Val::Str(format!("{}, {}", a, b));
                k1[p + 1] = Val::Str(c.to_string());
                k2[p] = Val::Str(a.to_string());
                k2[p + 1] = Val::Str(format!("{}, {}", b, c));
                return Some((Val::Tup(k1), Val::Tup(k2)));
            }
            for (i, (t1, x1)) in ts.iter().zip(xs.iter()).enumerate() {
                if let Some((u, v)) = colliding_pair(t1, x1, a, b, c) {
                    let mut k1 = xs.clone();
                    let mut k2 = xs.clone();
                    k1[i] = u;
                    k2[i] = v;
                    return Some((Val::Tup(k1), Val::Tup(k2)));
                }
            }
        }
        None
    }
    if matches!(&elem, Ty::Tup(_)) && t.chance(1, 2) {
        let (a, b, c) = (gen_str(t), gen_str(t), gen_str(t));
        let base = gen_val(t, &elem);
        if let Some((k1, k2)) = colliding_pair(&elem, &base, &a, &b, &c) {
            for k in [k1, k2] {
                if !universe.contains(&k) {
                    universe.push(k);
                }
            }
        }
    }
    let n_vals = 1 + t.below(4);
    let mut vals: Vec<Val> = Vec::new();
    for _ in 0..n_vals {
        let v = gen_val(t, &vty);
        if !vals.contains(&v) {
            vals.push(v);
        }
    }
    let nu = universe.len();
    let nv = vals.len();
    let n_init = t.below(6);
    let init: Vec<(usize, usize)> = (0..n_init).map(|_| (t.below(nu), t.below(nv))).collect();
    let from_list = t.bool();
    let n_ops = t.below(41);
    let mut ops = Vec::with_capacity(n_ops);
    // approximate length of the list, so that most get/set indices are near the valid range
    let mut len: i64 = if kind == Kind::List || kind == Kind::MaybeMath { n_init as i64 } else { 0 };
    for _ in 0..n_ops {
        let op = match kind {
            Kind::List => match t.weighted(&[5, 3, 3, 4, 4, 2, 2, 2, 2, 2, 2, 2]) {
                0 => {
                    len += 1;
                    Op::Push(t.below(nu))
                }
                1 => {
                    len += 1;
                    Op::Prepend(t.below(nu))
                }
                2 => {
                    len = (len - 1).max(0);
                    Op::Pop
                }
                3 => Op::Get(t.range(-2, len + 1)),
                4 => {
                    let i = if t.chance(1, 8) { t.range(-2, len + 1) } else { t.range(0, (len - 1).max(0)) };
                    Op::Set(i, t.below(nu))
                }
                5 => Op::Len,
                6 => Op::Map(gen_mapfn(t, &elem, nu)),
                7 => Op::Filter(gen_pred(t, &elem, nu)),
                8 => Op::Fold(gen_foldfn(t, &elem)),
                9 => Op::Find(gen_pred(t, &elem, nu)),
                10 => Op::Contains(t.below(nu)),
                _ => Op::Last,
            },
            Kind::Dict => match t.weighted(&[6, 4, 5, 1, 2]) {
                0 => Op::Update(t.below(nu), t.below(nv)),
                1 => Op::Lookup(t.below(nu)),
                2 => Op::Remove(t.below(nu)),
                3 => Op::Len,
                _ => Op::Contains(t.below(nu)),
            },
            Kind::Set => match t.weighted(&[6, 4, 5, 1]) {
                0 => Op::Add(t.below(nu)),
                1 => Op::Contains(t.below(nu)),
                2 => Op::Remove(t.below(nu)),
                _ => Op::Len,
            },
            Kind::MaybeMath => {
                if t.chance(1, 2) {
                    let src = match t.weighted(&[3, 2, 4, 2]) {
                        0 => MSrc::SrcJust(t.below(nu)),
                        1 => MSrc::SrcNone,
                        2 => MSrc::LibGet(t.range(-1, len + 1)),
                        _ => MSrc::LibFind(gen_pred(t, &elem, nu)),
                    };
                    let helper = match t.weighted(&[4, 2, 2, 2, 2]) {
                        0 => MHelper::Observe,
                        1 => MHelper::OrDefault(t.below(nu)),
                        2 => MHelper::Map(gen_mapfn(t, &elem, nu)),
                        3 => MHelper::AndThen(gen_pred(t, &elem, nu)),
                        _ => MHelper::Flatten,
                    };
                    Op::May(src, helper)
                } else {
                    let f = t.bool();
                    Op::Math(match t.weighted(&[2, 2, 2, 3, 2, 4, 3]) {
                        0 => MathOp::Min(gen_num(t, f), gen_num(t, f)),
                        1 => MathOp::Max(gen_num(t, f), gen_num(t, f)),
                        2 => MathOp::Abs(gen_num(t, f)),
                        3 => {
                            let (x, a, b) = (gen_num(t, f), gen_num(t, f), gen_num(t, f));
                            // mostly lo <= hi (the other order is unspecified and is skipped when rendered)
                            if a.raw() > b.raw() && !t.chance(1, 8) {
                                MathOp::Clamp(x, b, a)
                            } else {
                                MathOp::Clamp(x, a, b)
                            }
                        }
                        4 => MathOp::Sign(gen_num(t, f)),
                        5 => MathOp::Div(gen_int(t), gen_int(t)),
                        _ => MathOp::Floor(gen_num(t, f)),
                    })
                }
            }
        };
        ops.push(op);
    }
    Case { kind, elem, vty, universe, vals, init, from_list, ops, sw, source: String::new() }
}

// ---------------------------------------------------------------------------------------------------
// oracle
// ---------------------------------------------------------------------------------------------------

fn op_name(case: &Case, op: usize) -> String {
    if op == PRO {
        match (case.kind, case.from_list) {
            (Kind::Dict, true) | (Kind::Set, true) => "from_list".into(),
            (Kind::Dict, false) | (Kind::Set, false) => "new".into(),
            _ => "literal".into(),
        }
    } else if op >= case.ops.len() {
        "final".into()
    } else {
        case.ops[op].name().into()
    }
}

/// Names the root-cause class of the first difference between expected and printed lines.
fn classify(case: &Case, r: &Rendered, got: &[String], terminal: &Terminal) -> Option<(String, String)> {
    let kind = case.kind.name();
    let n = r.exp.len().min(got.len());
    let first = (0..n).find(|i| r.exp[*i].text != got[*i]);
    let coll = colliding(case);
    let describe = |i: usize| -> String {
        let l: &Line = &r.exp[i];
        format!(
            "observation #{} ({} after operation {} = {}{}): model says {:?}, program printed {:?}",
            i + 1,
            l.tag,
            if l.op == PRO { "prologue".to_string() } else { format!("#{}", l.op) },
            op_name(case, l.op),
            l.key.map(|k| format!(", probed key {}", case.universe[k].lit())).unwrap_or_default(),
            l.text,
            got.get(i).cloned().unwrap_or_else(|| "<nothing>".into())
        )
    };
    if let Some(i) = first {
        let l = &r.exp[i];
        let opn = op_name(case, l.op);
        // (1) library-made None compared with a source-written None
        if l.tag == "eq-source-none" && l.text == "true" && got[i] == "false" {
            return Some(("C18/maybe/library-none-not-equal-source-none".into(), describe(i)));
        }
        // (2) distinct keys that print the same text
        if matches!(case.kind, Kind::Dict | Kind::Set) {
            let op_key = if l.op < case.ops.len() {
                match &case.ops[l.op] {
                    Op::Update(k, _) | Op::Lookup(k) | Op::Remove(k) | Op::Contains(k) | Op::Add(k) => Some(*k),
                    _ => None,
                }
            } else {
                None
            };
            let involved = match (l.key, op_key) {
                (Some(k), _) => coll.get(k).copied().unwrap_or(false),
                (None, Some(k)) => coll.get(k).copied().unwrap_or(false),
                (None, None) => coll.iter().any(|c| *c),
            };
            if involved {
                return Some((format!("C18/{}/distinct-keys-with-same-text-collide", kind), describe(i)));
            }
        }
        // (3) a mutating operation after which the whole-state observation is what it was before
        if l.state && l.op != PRO && l.op < case.ops.len() && case.ops[l.op].mutating() {
            let block: Vec<usize> = (0..r.exp.len()).filter(|j| r.exp[*j].op == l.op && r.exp[*j].state).collect();
            let prev_op = r.exp[..block[0]].iter().rev().find(|x| x.state).map(|x| x.op);
            if let Some(p) = prev_op {
                let prev: Vec<&str> = r.exp.iter().filter(|x| x.op == p && x.state).map(|x| x.text.as_str()).collect();
                let now_got: Vec<&str> = block.iter().filter_map(|j| got.get(*j)).map(|s| s.as_str()).collect();
                if prev.len() == now_got.len() && prev == now_got {
                    return Some((format!("C18/{}/{}-has-no-effect", kind, opn), describe(i)));
                }
            }
        }
        return Some((format!("C18/{}/{}/{}", kind, opn, l.tag), describe(i)));
    }
    if r.exp.len() != got.len() {
        let (opn, what) = if got.len() < r.exp.len() {
            (op_name(case, r.exp[n].op), format!("program stopped after {} of {} observations ({:?}); next expected: {}", n, r.exp.len(), terminal, describe(n)))
        } else {
            ("final".to_string(), format!("program printed {} extra lines, first {:?}", got.len() - n, got[n]))
        };
        let class = match terminal {
            Terminal::LuaError { class, .. } => format!("lua-error-{}", class),
            Terminal::AssertFailed => "assert-failed".into(),
            Terminal::Unreachable(_) => "unreachable".into(),
            _ => "output-length".into(),
        };
        return Some((format!("C18/{}/{}/{}", kind, opn, class), what));
    }
    if *terminal != Terminal::Ok {
        return Some((format!("C18/{}/final/terminal", kind), format!("all observations agree but the run ended with {:?}", terminal)));
    }
    None
}

impl Check for C18 {
    type Case = Case;
    fn id(&self) -> &'static str {
        "C18"
    }
    fn generate(&self, u: &mut Unstructured, _tier: Tier) -> Option<Case> {
        let mut t = Tape::new(u);
        let mut c = gen_case(&mut t);
        c.source = render(&c).source;
        Some(c)
    }

    fn evaluate(&self, case: &Case, labels: &mut Labels) -> Verdict {
        let r = render(case);
        for l in &r.labels {
            labels.add(l.clone());
        }
        if !case.sw.avoid_key_collision {
            labels.add("switch:key-collision-avoidance-off");
        }
        let out = compile(&Project::single(r.source.clone()));
        let lua = match &out {
            Outcome::Accepted(b) => b,
            Outcome::Rejected { errors, bytes_written } => {
                if *bytes_written > 0 {
                    return Verdict::Violation {
                        signature: "C18/rejected-but-wrote-lua".into(),
                        detail: format!("{} bytes of Lua written although compilation failed: {}", bytes_written, out.short()),
                    };
                }
                labels.add(format!("rejected:{}:{}", errors[0].kind, errors[0].sub));
                if let Ok(d) = std::env::var("C18_SAVE_REJECTED") {
                    let _ = std::fs::create_dir_all(&d);
                    let _ = std::fs::write(format!("{}/rej_{:x}.sy", d, vcore::hash64(&r.source)), format!("// {}\n{}", out.short(), r.source));
                }
                return Verdict::Discard("rejected".into());
            }
            Outcome::Panicked { .. } => {
                labels.add("compiler-panicked");
                return Verdict::Discard("compiler-panicked".into());
            }
        };
        labels.add("accepted");
        let got = match run_lua(lua, 20_000_000) {
            LuaOutcome::LoadError { class, msg, line } => {
                // loadability is C06's property; here the case is unusable
                labels.add(format!("lua-load-error:{}", class));
                let _ = (msg, line);
                return Verdict::Discard(format!("lua-load-{}", class));
            }
            LuaOutcome::Ran(t) => t,
        };
        if let Terminal::OutOfBudget(w) = &got.terminal {
            return Verdict::Discard(format!("lua-budget-{}", w));
        }
        if let Some((signature, what)) = classify(case, &r, &got.lines, &got.terminal) {
            return Verdict::Violation { signature, detail: format!("{}\n--- program ---\n{}", what, r.source) };
        }
        let nontrivial = r.ops_run >= 5 && (r.absent_lookup || r.remove_after_insert);
        if r.absent_lookup {
            labels.add("nt:absent-lookup");
        }
        if r.remove_after_insert {
            labels.add("nt:remove-after-insert");
        }
        labels.add(match r.ops_run {
            0 => "ops:0",
            1..=4 => "ops:1-4",
            5..=15 => "ops:5-15",
            _ => "ops:16-40",
        });
        Verdict::Pass { nontrivial }
    }

    fn simplify_at(&self, case: &Case, idx: usize) -> Step<Case> {
        let fin = |mut c: Case| {
            c.source = render(&c).source;
            Step::Candidate(c)
        };
        let mut i = idx;
        // 1. drop an operation
        if i < case.ops.len() {
            let mut c = case.clone();
            c.ops.remove(i);
            return fin(c);
        }
        i -= case.ops.len();
        // 2. drop an initial element
        if i < case.init.len() {
            let mut c = case.clone();
            c.init.remove(i);
            return fin(c);
        }
        i -= case.init.len();
        // 3. shrink the key universe: drop key j together with everything that refers to it
        if i < case.universe.len() {
            if case.universe.len() <= 1 {
                return Step::Skip;
            }
            return match drop_key(case, i) {
                Some(c) => fin(c),
                None => Step::Skip,
            };
        }
        i -= case.universe.len();
        // 4. shrink an argument of an operation
        if i < case.ops.len() {
            return match shrink_op(&case.ops[i]) {
                Some(op) => {
                    let mut c = case.clone();
                    c.ops[i] = op;
                    fin(c)
                }
                None => Step::Skip,
            };
        }
        i -= case.ops.len();
        // 5. simplify a key of the universe
        if i < case.universe.len() {
            return match shrink_val(&case.universe[i]) {
                Some(v) if !case.universe.contains(&v) => {
                    let mut c = case.clone();
                    c.universe[i] = v;
                    fin(c)
                }
                _ => Step::Skip,
            };
        }
        i -= case.universe.len();
        // 6. simplify a dict value
        if i < case.vals.len() {
            return match shrink_val(&case.vals[i]) {
                Some(v) if !case.vals.contains(&v) => {
                    let mut c = case.clone();
                    c.vals[i] = v;
                    fin(c)
                }
                _ => Step::Skip,
            };
        }
        i -= case.vals.len();
        // 7. all avoidance switches on / new() instead of from_list
        match i {
            0 => {
                if case.sw == Switches::all_on() {
                    Step::Skip
                } else {
                    let mut c = case.clone();
                    c.sw = Switches::all_on();
                    fin(c)
                }
            }
            1 => {
                if case.from_list && case.init.is_empty() {
                    let mut c = case.clone();
                    c.from_list = false;
                    fin(c)
                } else {
                    Step::Skip
                }
            }
            2 | 3 => {
                // simplest element / key type: int, then str (keys renamed, operations keep their indices)
                let ty = if i == 2 { Ty::Int } else { Ty::Str };
                if case.elem == Ty::Int || case.elem == ty || case.universe.len() > 8 {
                    return Step::Skip;
                }
                let mut c = case.clone();
                const NAMES: [&str; 8] = ["a", "b", "ab", "ba", "aa", "bb", "aab", "abb"];
                c.universe = (0..case.universe.len()).map(|k| if ty == Ty::Int { Val::Int(k as i64) } else { Val::Str(NAMES[k].to_string()) }).collect();
                c.elem = ty;
                fin(c)
            }
            _ => Step::End,
        }
    }

    fn sample(&self, case: &Case) -> serde_json::Value {
        let ops: Vec<String> = case.ops.iter().map(|o| format!("{:?}", o)).collect();
        vcore::truncate_value(
            serde_json::json!({
                "kind": case.kind.name(), "elem": case.elem.src(), "universe": case.universe.iter().map(|v| v.lit()).collect::<Vec<_>>(),
                "ops": ops.join("; "), "program": case.source,
            }),
            2048,
        )
    }

    fn rule(&self) -> String {
        "cases: operation histories decoded from a byte tape: one of list / dict / set / maybe+math, an element or key type \
         (int, str over {a b space comma} incl. the empty string, tuples (int,int) (str,str) (int,str) (str,int) (str,) (int,) \
         (str,int,str)), a universe of 1..8 keys (for tuples with two adjacent strings half of the universes hold a planted pair of \
         distinct keys with the same printed text), 0..5 initial elements (dict/set: from_list, duplicates allowed, or new()), \
         0..40 operations with generated arguments (list indices from -2 to len+1, keys from the universe so that hits, misses and \
         removals after insertions occur; ints up to |x| <= 2^31; floats = k/8). The history is interpreted by a Rust model \
         (Vec/BTreeMap/BTreeSet/Option, wrapping i64, exact eighths) and rendered as one Sylt program printing an observation after \
         every operation (list printed whole; dict/set probed by get/contains_key/contains/len over the whole universe; results of \
         get/pop/find/last printed and compared in Sylt with source-written Maybe.Just x / Maybe.None; math results compared with == \
         against a literal of the declared type plus ordering checks; at the end the container is compared with one rebuilt from the \
         model's contents). oracle: printed lines == model lines and the run ends normally. non-trivial = accepted, >= 5 rendered \
         operations, and at least one removal after an insertion or one absent lookup; distinct by hash of the case. \
         list.set with an index outside 0..len-1 is modelled as 'nothing changes'. Inputs excluded as unspecified by docs/signatures \
         (skipped when rendered, counted as labels excluded:*): div(a, 0); the direction in which div rounds a negative inexact quotient (only |a - q*b| < |b| is \
         checked there); sign(0) and sign(0.0); clamp with lo > hi; mixing int and float arguments; |x| > 2^31. \
         Tuple keys with adjacent string components get planted pairs of distinct keys that print the same text (the former \
         key-collision findings, repaired in e1155ea)."
            .into()
    }
    fn assumptions(&self) -> Vec<String> {
        vec![
            "mini-Lua (harness/minilua) agrees with Lua 5.3 on the subset the emitter and preamble.lua use (validated by ./check selftest)".into(),
            "contracts taken from std/*.sy signatures and the repository's own tests: list.get/pop/find/last and dict.get return Maybe, \
             so out-of-range / empty / missing yield None; fold calls f(item, acc) as in `pu *ITEM, *OUT -> *OUT`; from_list with \
             duplicate keys keeps the last value (fold of update); floor rounds toward negative infinity (tests/sylt_std/floor.sy); \
             div on a non-negative or exact quotient is the mathematical quotient (tests/bugs/int_division_632.sy)"
                .into(),
            "how a float-typed result is spelled when printed (1 vs 1.0) is not part of the contract: numeric results are compared with == in Sylt".into(),
        ]
    }
    fn health(&self, s: &Stats) -> Result<(), String> {
        if s.evaluations < 200 {
            return Ok(());
        }
        let ev = s.evaluations as f64;
        let acc = s.label("accepted") as f64 / ev;
        if acc < 0.9 {
            return Err(format!("only {:.1}% of rendered histories are accepted by the compiler (rule: >= 90 %)", acc * 100.0));
        }
        for k in ["kind:list", "kind:dict", "kind:set", "kind:maybemath"] {
            if (s.label(k) as f64) < 0.08 * ev {
                return Err(format!("{} makes up only {} of {} cases", k, s.label(k), s.evaluations));
            }
        }
        for l in [
            "nt:absent-lookup",
            "nt:remove-after-insert",
            "dict:get-hit",
            "dict:get-after-remove",
            "dict:remove-present(non-str-key)",
            "dict:remove-present(str-key)",
            "obs:eq-source-none(library-made)",
            "set:remove-present",
            "list:get-hit",
            "list:get-beyond-end",
            "list:get-negative",
            "list:pop-empty",
            "op:list:fold",
            "op:list:set",
            "op:list:prepend",
            "op:maybemath:div",
            "floor:negative-fraction",
            "elem:str",
            "elem:tup-str-str",
        ] {
            if s.label(l) * 200 < s.evaluations {
                return Err(format!("class {} is (nearly) absent: {} of {} cases", l, s.label(l), s.evaluations));
            }
        }
        if (s.nontrivial as f64) < 0.4 * ev {
            return Err(format!("only {} of {} cases are non-trivial", s.nontrivial, s.evaluations));
        }
        Ok(())
    }
}

// ---------------------------------------------------------------------------------------------------
// shrinking helpers
// ---------------------------------------------------------------------------------------------------

fn remap_pred(p: &Pred, j: usize) -> Option<Pred> {
    let f = |k: usize| if k == j { None } else { Some(if k > j { k - 1 } else { k }) };
    Some(match p {
        Pred::Never => Pred::Never,
        Pred::Always => Pred::Always,
        Pred::Eq(k) => Pred::Eq(f(*k)?),
        Pred::Ne(k) => Pred::Ne(f(*k)?),
        Pred::Lt(k) => Pred::Lt(f(*k)?),
        Pred::Gt(k) => Pred::Gt(f(*k)?),
        Pred::FstEq(k) => Pred::FstEq(f(*k)?),
        Pred::EqViaGet(k) => Pred::EqViaGet(f(*k)?),
        Pred::NeViaFilter(k) => Pred::NeViaFilter(f(*k)?),
        Pred::NeViaGet(k) => Pred::NeViaGet(f(*k)?),
    })
}
fn remap_mapfn(m: &MapFn, j: usize) -> Option<MapFn> {
    let f = |k: usize| if k == j { None } else { Some(if k > j { k - 1 } else { k }) };
    Some(match m {
        MapFn::Add(k) => MapFn::Add(f(*k)?),
        MapFn::IsEq(k) => MapFn::IsEq(f(*k)?),
        other => other.clone(),
    })
}

/// remove universe[j]; operations and initial elements that refer to it are dropped, larger indices shift
fn drop_key(case: &Case, j: usize) -> Option<Case> {
    let f = |k: usize| if k == j { None } else { Some(if k > j { k - 1 } else { k }) };
    let mut c = case.clone();
    c.universe.remove(j);
    c.init = case.init.iter().filter_map(|(k, v)| f(*k).map(|k| (k, *v))).collect();
    c.ops = case
        .ops
        .iter()
        .filter_map(|op| {
            Some(match op {
                Op::Push(k) => Op::Push(f(*k)?),
                Op::Prepend(k) => Op::Prepend(f(*k)?),
                Op::Set(i, k) => Op::Set(*i, f(*k)?),
                Op::Contains(k) => Op::Contains(f(*k)?),
                Op::Remove(k) => Op::Remove(f(*k)?),
                Op::Update(k, v) => Op::Update(f(*k)?, *v),
                Op::Lookup(k) => Op::Lookup(f(*k)?),
                Op::Add(k) => Op::Add(f(*k)?),
                Op::Map(m) => Op::Map(remap_mapfn(m, j)?),
                Op::Filter(p) => Op::Filter(remap_pred(p, j)?),
                Op::Find(p) => Op::Find(remap_pred(p, j)?),
                Op::May(src, h) => {
                    let src = match src {
                        MSrc::SrcJust(k) => MSrc::SrcJust(f(*k)?),
                        MSrc::LibFind(p) => MSrc::LibFind(remap_pred(p, j)?),
                        other => other.clone(),
                    };
                    let h = match h {
                        MHelper::OrDefault(k) => MHelper::OrDefault(f(*k)?),
                        MHelper::Map(m) => MHelper::Map(remap_mapfn(m, j)?),
                        MHelper::AndThen(p) => MHelper::AndThen(remap_pred(p, j)?),
                        other => other.clone(),
                    };
                    Op::May(src, h)
                }
                other => other.clone(),
            })
        })
        .collect();
    Some(c)
}

fn shrink_i(i: i64) -> Option<i64> {
    if i == 0 {
        None
    } else if i.abs() == 1 {
        Some(0)
    } else {
        Some(i / 2)
    }
}
fn shrink_num(n: Num) -> Option<Num> {
    shrink_i(n.raw()).map(|r| n.with_raw(r))
}

fn shrink_op(op: &Op) -> Option<Op> {
    Some(match op {
        Op::Get(i) => Op::Get(shrink_i(*i)?),
        Op::Set(i, k) => {
            if let Some(j) = shrink_i(*i) {
                Op::Set(j, *k)
            } else if *k > 0 {
                Op::Set(*i, 0)
            } else {
                return None;
            }
        }
        Op::Push(k) if *k > 0 => Op::Push(0),
        Op::Prepend(k) if *k > 0 => Op::Prepend(0),
        Op::Update(k, v) if *v > 0 => Op::Update(*k, 0),
        Op::Map(m) if *m != MapFn::Id => Op::Map(MapFn::Id),
        Op::Filter(p) if *p != Pred::Always && *p != Pred::Never => Op::Filter(Pred::Always),
        Op::Find(p) if *p != Pred::Always && *p != Pred::Never => Op::Find(Pred::Never),
        Op::Fold(f) => match f {
            FoldFn::Count(0) => return None,
            FoldFn::Count(_) => Op::Fold(FoldFn::Count(0)),
            FoldFn::Sum(i) if *i != 0 => Op::Fold(FoldFn::Sum(0)),
            FoldFn::SubAcc(i) if *i != 0 => Op::Fold(FoldFn::SubAcc(0)),
            FoldFn::Poly(i) if *i != 0 => Op::Fold(FoldFn::Poly(0)),
            FoldFn::SumFst(i) if *i != 0 => Op::Fold(FoldFn::SumFst(0)),
            _ => return None,
        },
        Op::Math(m) => Op::Math(match m {
            MathOp::Min(a, b) => match (shrink_num(*a), shrink_num(*b)) {
                (Some(x), _) => MathOp::Min(x, *b),
                (None, Some(y)) => MathOp::Min(*a, y),
                _ => return None,
            },
            MathOp::Max(a, b) => match (shrink_num(*a), shrink_num(*b)) {
                (Some(x), _) => MathOp::Max(x, *b),
                (None, Some(y)) => MathOp::Max(*a, y),
                _ => return None,
            },
            MathOp::Abs(a) => MathOp::Abs(shrink_num(*a)?),
            MathOp::Sign(a) => MathOp::Sign(shrink_num(*a)?),
            MathOp::Floor(a) => MathOp::Floor(shrink_num(*a)?),
            MathOp::Clamp(x, lo, hi) => match (shrink_num(*x), shrink_num(*lo), shrink_num(*hi)) {
                (Some(a), _, _) => MathOp::Clamp(a, *lo, *hi),
                (None, Some(b), _) => MathOp::Clamp(*x, b, *hi),
                (None, None, Some(c)) => MathOp::Clamp(*x, *lo, c),
                _ => return None,
            },
            MathOp::Div(a, b) => match (shrink_i(*a), shrink_i(*b)) {
                (Some(x), _) => MathOp::Div(x, *b),
                (None, Some(y)) if y != 0 => MathOp::Div(*a, y),
                _ => return None,
            },
        }),
        Op::May(src, h) => {
            if *h != MHelper::Observe {
                Op::May(src.clone(), MHelper::Observe)
            } else {
                match src {
                    MSrc::LibGet(i) => Op::May(MSrc::LibGet(shrink_i(*i)?), h.clone()),
                    MSrc::LibFind(p) if *p != Pred::Never => Op::May(MSrc::LibFind(Pred::Never), h.clone()),
                    _ => return None,
                }
            }
        }
        _ => return None,
    })
}

fn shrink_val(v: &Val) -> Option<Val> {
    match v {
        Val::Int(i) => shrink_i(*i).map(Val::Int),
        Val::Str(s) => {
            if s.is_empty() {
                None
            } else if s.len() > 1 && s != "a" && !s.contains(|c| c != 'a') {
                Some(Val::Str("a".into()))
            } else {
                let mut t = s.clone();
                t.pop();
                Some(Val::Str(t))
            }
        }
        Val::Bool(b) => {
            if *b {
                Some(Val::Bool(false))
            } else {
                None
            }
        }
        Val::Tup(xs) => {
            for (i, x) in xs.iter().enumerate() {
                if let Some(y) = shrink_val(x) {
                    let mut c = xs.clone();
                    c[i] = y;
                    return Some(Val::Tup(c));
                }
            }
            None
        }
    }
}
