//! C15 — diagnostics name the file and line of the offending construct.
//!
//! Planted-fault search: a valid 1-3 file project is built from line-oriented pieces (so the line of every
//! piece is known by construction), text shapes (long / non-ASCII comments, non-ASCII and multi-line string
//! literals, CRLF, tabs, blank-line runs, trailing whitespace, multi-line constructs) are inserted at generated
//! places, and ONE single-line local error is planted at a chosen (file, line, context). Oracle: the project is
//! rejected and the first returned error carries the planted file and line (duplicates: either definition).
use arbitrary::Unstructured;
use serde::{Deserialize, Serialize};
use std::collections::{BTreeMap, BTreeSet};
use vcore::{compile, Check, ErrInfo, Labels, Outcome, Project, Stats, Step, Tape, Tier, Verdict};

#[path = "c15_gen.rs"]
mod gen;

pub struct C15;
pub const CHECK: C15 = C15;
pub fn plan(t: Tier) -> vcore::Plan {
    // tape shrinking is cheap to skip here: the structural shrinker (`simplify_at`) does the minimisation
    let mut p = vcore::Plan::new(t.pick(30_000, 400_000), 1600);
    p.max_shrink_iters = 40;
    p
}

/// text-shape classes (a shape piece / statement belongs to exactly one; crlf, tabs and trailing-ws are flags)
pub const SHAPE_CLASSES: [&str; 9] = [
    "multiline-string",
    "string-nonascii",
    "comment-nonascii",
    "comment-long",
    "multiline-construct",
    "blank-run",
    "crlf",
    "tabs",
    "trailing-ws",
];
/// kinds of planted local errors; the last three are classified apart because their reported location has (had) a
/// cause of its own: outer-stmt is an open finding behind the avoid switch, syntax-eof was fixed in 5895c94, unary-minus in 25e04d4
pub const KINDS: [&str; 12] = [
    "syntax",
    "unresolved",
    "duplicate",
    "const-assign",
    "operator",
    "argument",
    "annotation",
    "break",
    "conflict-marker",
    "outer-stmt",
    "syntax-eof",
    "unary-minus",
];

/// one statement of a function body; `lines` carry indentation relative to the body level
#[derive(Clone, Serialize, Deserialize, Default, Debug, PartialEq)]
pub struct Stmt {
    pub lines: Vec<String>,
    #[serde(default)]
    pub refs: Vec<String>,
    #[serde(default)]
    pub shape: Option<String>,
}

/// one top-level piece of a file: `head` lines, then (functions only) body statements, then `tail` lines
#[derive(Clone, Serialize, Deserialize, Default, Debug, PartialEq)]
pub struct Piece {
    /// import | global | fn | blob | enum | start | shape
    pub role: String,
    pub head: Vec<String>,
    #[serde(default)]
    pub body: Vec<Stmt>,
    #[serde(default)]
    pub tail: Vec<String>,
    /// top-level names this piece defines, with the offset of the defining line inside `head`
    #[serde(default)]
    pub defines: Vec<(String, usize)>,
    /// names (of other pieces / files) this piece's head needs
    #[serde(default)]
    pub refs: Vec<String>,
    #[serde(default)]
    pub shape: Option<String>,
    #[serde(default)]
    pub crlf: bool,
    #[serde(default)]
    pub tabs: bool,
    #[serde(default)]
    pub trail: String,
}

#[derive(Clone, Serialize, Deserialize, Default, Debug, PartialEq)]
pub struct FileSpec {
    /// "/p/main.sy", "/p/other.sy", "/p/sub/inner.sy"
    pub path: String,
    pub pieces: Vec<Piece>,
}

/// a block wrapped around the planted line; `open`/`close` lines are indented relative to the wrapper
#[derive(Clone, Serialize, Deserialize, Default, Debug, PartialEq)]
pub struct Wrap {
    pub kind: String,
    pub open: Vec<String>,
    pub close: Vec<String>,
    /// indentation levels between the wrapper and what it encloses (1; case arms: 2)
    pub inner: usize,
}

#[derive(Clone, Serialize, Deserialize, Default, Debug, PartialEq)]
pub struct Plant {
    pub kind: String,
    pub spelling: String,
    pub file: usize,
    /// `stmt == None`: the plant block is inserted at top level *before* piece `piece` (== len: at the end);
    /// `stmt == Some(k)`: inside function piece `piece`, before body statement `k`
    pub piece: usize,
    pub stmt: Option<usize>,
    /// helper lines before the wrappers (e.g. the constant / the annotated function the plant refers to)
    #[serde(default)]
    pub setup: Vec<String>,
    #[serde(default)]
    pub wraps: Vec<Wrap>,
    /// helper lines directly before the planted line, at its level
    #[serde(default)]
    pub setup_inner: Vec<String>,
    /// the offending line (without indentation)
    pub line: String,
    /// text before / after the offending text on its line, present in the legal twin too (expression contexts:
    /// the `,` after a list element, the end of a multi-line string literal before it)
    #[serde(default)]
    pub prefix: String,
    #[serde(default)]
    pub suffix: String,
    /// what replaces `line` in the legal twin ("" = `zn :: 0`)
    #[serde(default)]
    pub twin: String,
    /// appended to the offending line (whitespace / a comment)
    #[serde(default)]
    pub trailer: String,
    #[serde(default)]
    pub crlf: bool,
    #[serde(default)]
    pub tabs: bool,
    /// conflict markers must start their line
    #[serde(default)]
    pub unindented: bool,
    /// duplicate definitions: the name whose other definition's line is accepted too
    #[serde(default)]
    pub dup_of: Option<String>,
    /// the planted line is the last line of the file and has no line terminator
    #[serde(default)]
    pub no_final_newline: bool,
    /// names the plant needs (its call target, constant, namespace ...)
    #[serde(default)]
    pub refs: Vec<String>,
}

#[derive(Clone, Serialize, Deserialize, Default, Debug, PartialEq)]
pub struct Case {
    /// files[0] is the main file
    pub files: Vec<FileSpec>,
    pub plant: Plant,
    /// generator switch: the two kinds with reported findings were avoided for this case
    #[serde(default)]
    pub avoid_known: bool,
}

// ------------------------------------------------------------------------------------------------
// rendering
// ------------------------------------------------------------------------------------------------

#[derive(Clone, Copy, PartialEq)]
pub enum Mode {
    Planted,
    /// the planted line replaced by a harmless definition: must compile
    Twin,
}

pub struct Rendered {
    pub project: Project,
    pub exp_file: String,
    pub exp_line: usize,
    /// other acceptable lines in the same file (the other definition of a duplicated name)
    pub alt_lines: Vec<usize>,
    /// shape classes (and `nonascii-any`) seen in the planted file before the planted line
    pub before: BTreeSet<String>,
    pub ok: bool,
}

struct Emit {
    text: String,
    lines: usize,
    before: BTreeSet<String>,
    track: bool,
}

fn tabify(line: &str) -> String {
    let n = line.chars().take_while(|c| *c == ' ').count();
    let mut s = String::new();
    for _ in 0..n / 4 {
        s.push('\t');
    }
    for _ in 0..n % 4 {
        s.push(' ');
    }
    s.push_str(&line[n..]);
    s
}

impl Emit {
    fn line(&mut self, raw: &str, level: usize, tabs: bool, trail: &str, term: &str) {
        debug_assert!(!raw.contains('\n'));
        let mut l = String::with_capacity(raw.len() + level * 4 + trail.len());
        for _ in 0..level {
            l.push_str("    ");
        }
        l.push_str(raw);
        if tabs {
            let t = tabify(&l);
            if self.track && t != l {
                self.before.insert("tabs".into());
            }
            l = t;
        }
        l.push_str(trail);
        if self.track {
            if term == "\r\n" {
                self.before.insert("crlf".into());
            }
            if !trail.is_empty() {
                self.before.insert("trailing-ws".into());
            }
            if !l.is_ascii() {
                self.before.insert("nonascii-any".into());
            }
        }
        self.text.push_str(&l);
        self.text.push_str(term);
        self.lines += 1;
    }
}

pub const TWIN_LINE: &str = "zn :: 0";

pub fn render(case: &Case, mode: Mode) -> Rendered {
    let mut files = BTreeMap::new();
    let p = &case.plant;
    let mut exp_line = 0usize;
    let mut before = BTreeSet::new();
    let mut def_lines: BTreeMap<String, usize> = BTreeMap::new();
    let mut ok = true;
    for (fi, f) in case.files.iter().enumerate() {
        let here = fi == p.file;
        let mut e = Emit { text: String::new(), lines: 0, before: BTreeSet::new(), track: here };
        let emit_plant = |e: &mut Emit, base: usize, exp_line: &mut usize| {
            let term = if p.crlf { "\r\n" } else { "\n" };
            for s in &p.setup {
                e.line(s, base, p.tabs, "", term);
            }
            let mut level = base;
            let mut levels = Vec::new();
            for w in &p.wraps {
                levels.push(level);
                for l in &w.open {
                    e.line(l, level, p.tabs, "", term);
                }
                level += w.inner;
            }
            for s in &p.setup_inner {
                e.line(s, level, p.tabs, "", term);
            }
            // the planted line itself
            e.track = false;
            *exp_line = e.lines + 1;
            let core = if mode == Mode::Planted {
                p.line.as_str()
            } else if p.twin.is_empty() {
                TWIN_LINE
            } else {
                p.twin.as_str()
            };
            let text = format!("{}{}{}", p.prefix, core, p.suffix);
            let text = text.as_str();
            let lv = if p.unindented { 0 } else { level };
            let last_term = if p.no_final_newline && mode == Mode::Planted { "" } else { term };
            e.line(text, lv, p.tabs && !p.unindented, &p.trailer, last_term);
            for (w, lv) in p.wraps.iter().zip(levels.iter()).rev() {
                for l in &w.close {
                    e.line(l, *lv, p.tabs, "", term);
                }
            }
        };
        let np = f.pieces.len();
        for (pi, pc) in f.pieces.iter().enumerate() {
            if here && p.stmt.is_none() && p.piece == pi {
                emit_plant(&mut e, 0, &mut exp_line);
            }
            let term = if pc.crlf { "\r\n" } else { "\n" };
            let start = e.lines;
            if here {
                for (n, off) in &pc.defines {
                    def_lines.entry(n.clone()).or_insert(start + off + 1);
                }
            }
            if e.track {
                if let Some(s) = &pc.shape {
                    e.before.insert(s.clone());
                }
            }
            for l in &pc.head {
                e.line(l, 0, pc.tabs, &pc.trail, term);
            }
            let nb = pc.body.len();
            for (si, st) in pc.body.iter().enumerate() {
                if here && p.stmt == Some(si) && p.piece == pi {
                    emit_plant(&mut e, 1, &mut exp_line);
                }
                if e.track {
                    if let Some(s) = &st.shape {
                        e.before.insert(s.clone());
                    }
                }
                for l in &st.lines {
                    e.line(l, 1, pc.tabs, &pc.trail, term);
                }
            }
            if here && p.piece == pi {
                if let Some(k) = p.stmt {
                    if k == nb {
                        emit_plant(&mut e, 1, &mut exp_line);
                    } else if k > nb {
                        ok = false;
                    }
                }
            }
            for l in &pc.tail {
                e.line(l, 0, pc.tabs, &pc.trail, term);
            }
        }
        if here && p.stmt.is_none() && p.piece == np {
            emit_plant(&mut e, 0, &mut exp_line);
        }
        if here {
            if p.piece > np || (p.stmt.is_some() && p.piece >= np) {
                ok = false;
            }
            before = e.before.clone();
        }
        files.insert(f.path.clone(), e.text);
    }
    if p.file >= case.files.len() || case.files.is_empty() {
        ok = false;
    }
    let mut alt_lines = Vec::new();
    if let Some(n) = &p.dup_of {
        if let Some(l) = def_lines.get(n) {
            alt_lines.push(*l);
        }
    }
    let exp_file = case.files.get(p.file).map(|f| f.path.clone()).unwrap_or_default();
    let main = case.files.first().map(|f| f.path.clone()).unwrap_or_default();
    Rendered { project: Project { files, main, std: true, require: None }, exp_file, exp_line, alt_lines, before, ok }
}

// ------------------------------------------------------------------------------------------------
// oracle
// ------------------------------------------------------------------------------------------------

pub enum Probe {
    Malformed,
    #[allow(dead_code)]
    TwinRejected(String),
    TwinPanic,
    NotAnError,
    #[allow(dead_code)]
    Panic(String),
    Right { first: ErrInfo, nerr: usize, before: BTreeSet<String>, exp_line: usize },
    Wrong { first: ErrInfo, nerr: usize, exp_file: String, exp_line: usize, alt_lines: Vec<usize>, source: String },
}

pub fn probe(case: &Case) -> Probe {
    let tw = render(case, Mode::Twin);
    if !tw.ok {
        return Probe::Malformed;
    }
    match compile(&tw.project) {
        Outcome::Accepted(_) => {}
        Outcome::Rejected { errors, .. } if errors.is_empty() => return Probe::TwinRejected(String::new()),
        Outcome::Rejected { errors, .. } => {
            let e = &errors[0];
            return Probe::TwinRejected(format!(
                "{}:{} {}:{} {}",
                e.kind,
                e.sub,
                e.file.clone().unwrap_or_default(),
                e.line,
                vcore::first_line(&e.message)
            ));
        }
        Outcome::Panicked { .. } => return Probe::TwinPanic,
    }
    let r = render(case, Mode::Planted);
    match compile(&r.project) {
        Outcome::Accepted(_) => Probe::NotAnError,
        Outcome::Panicked { location, .. } => Probe::Panic(location),
        Outcome::Rejected { errors, .. } if errors.is_empty() => Probe::Panic("rejected with an empty error list".into()),
        Outcome::Rejected { errors, .. } => {
            let first = errors[0].clone();
            let file_ok = first.file.as_deref() == Some(r.exp_file.as_str());
            let line_ok = first.line == r.exp_line || r.alt_lines.contains(&first.line);
            if file_ok && line_ok {
                Probe::Right { first, nerr: errors.len(), before: r.before, exp_line: r.exp_line }
            } else {
                let source = r.project.files.get(&r.exp_file).cloned().unwrap_or_default();
                Probe::Wrong { first, nerr: errors.len(), exp_file: r.exp_file, exp_line: r.exp_line, alt_lines: r.alt_lines, source }
            }
        }
    }
}

fn is_wrong(case: &Case) -> bool {
    matches!(probe(case), Probe::Wrong { .. })
}

/// keep only the pieces / statements for which the predicates hold, re-computing the plant position.
/// None when the piece holding the plant would go.
pub fn retain(case: &Case, keep_piece: &dyn Fn(usize, usize, &Piece) -> bool, keep_stmt: &dyn Fn(usize, usize, usize, &Stmt) -> bool) -> Option<Case> {
    let mut out = case.clone();
    let p = &case.plant;
    let mut new_piece = p.piece;
    let mut new_stmt = p.stmt;
    for (fi, f) in case.files.iter().enumerate() {
        let mut pieces = Vec::new();
        for (pi, pc) in f.pieces.iter().enumerate() {
            let holds_plant = fi == p.file && p.stmt.is_some() && p.piece == pi;
            if !keep_piece(fi, pi, pc) {
                if holds_plant {
                    return None;
                }
                if fi == p.file && pi < p.piece {
                    new_piece -= 1;
                }
                continue;
            }
            let mut pc2 = pc.clone();
            pc2.body.clear();
            for (si, st) in pc.body.iter().enumerate() {
                if keep_stmt(fi, pi, si, st) {
                    pc2.body.push(st.clone());
                } else if holds_plant {
                    if let (Some(k), Some(ns)) = (p.stmt, new_stmt.as_mut()) {
                        if si < k {
                            *ns -= 1;
                        }
                    }
                }
            }
            pieces.push(pc2);
        }
        out.files[fi].pieces = pieces;
    }
    out.plant.piece = new_piece;
    out.plant.stmt = new_stmt;
    Some(out)
}

/// remove the text shapes of one class (None: all of them, including the flags on the planted line)
pub fn strip_shapes(case: &Case, class: Option<&str>) -> Case {
    let hit = |s: &Option<String>| match (s, class) {
        (Some(_), None) => true,
        (Some(s), Some(c)) => s == c,
        _ => false,
    };
    let mut out = retain(case, &|_, _, pc| !hit(&pc.shape), &|_, _, _, st| !hit(&st.shape)).unwrap_or_else(|| case.clone());
    let all = class.is_none();
    for f in out.files.iter_mut() {
        for pc in f.pieces.iter_mut() {
            if all || class == Some("crlf") {
                pc.crlf = false;
            }
            if all || class == Some("tabs") {
                pc.tabs = false;
            }
            if all || class == Some("trailing-ws") {
                pc.trail.clear();
            }
        }
    }
    if all || class == Some("crlf") {
        out.plant.crlf = false;
    }
    if all || class == Some("tabs") {
        out.plant.tabs = false;
    }
    if all {
        out.plant.trailer.clear();
    }
    out
}

/// the multi-line string literal that is part of the planted statement itself (contexts string-tail, list-str),
/// written on one line
fn collapse_plant_string(case: &Case) -> Option<Case> {
    let mut c = case.clone();
    let w = c.plant.wraps.last_mut()?;
    match w.kind.as_str() {
        "string-tail" => {
            c.plant.prefix = format!("{} {}", w.open.join(" "), c.plant.prefix);
            w.open.clear();
        }
        "list-str" => {
            let tail = w.open.split_off(1);
            w.open.push(format!("    {}", tail.iter().map(|l| l.trim()).collect::<Vec<_>>().join(" ")));
        }
        _ => return None,
    }
    Some(c)
}

/// which preceding text shape a wrong location depends on: `any-text` when it is wrong without any shape
fn blame(case: &Case, before: &BTreeSet<String>) -> String {
    let bare = strip_shapes(case, None);
    if is_wrong(&bare) {
        if let Some(c) = collapse_plant_string(&bare) {
            if !is_wrong(&c) {
                return "after-multiline-string".into();
            }
        }
        return "any-text".into();
    }
    for c in SHAPE_CLASSES.iter() {
        if !before.contains(*c) {
            continue;
        }
        if !is_wrong(&strip_shapes(case, Some(c))) {
            return format!("after-{}", c);
        }
    }
    // shapes after the planted line or in other files, or only a combination
    for c in SHAPE_CLASSES.iter() {
        if !is_wrong(&strip_shapes(case, Some(c))) {
            return format!("with-{}", c);
        }
    }
    "shape-combination".into()
}

fn numbered(src: &str, around: &[usize]) -> String {
    let lo = around.iter().copied().filter(|l| *l > 0).min().unwrap_or(1).saturating_sub(3).max(1);
    let hi = around.iter().copied().max().unwrap_or(1) + 2;
    let mut s = String::new();
    for (i, l) in src.split('\n').enumerate() {
        let n = i + 1;
        if n >= lo && n <= hi {
            let mark = if around.first() == Some(&n) { ">>" } else { "  " };
            s.push_str(&format!("{} {:4} | {}\n", mark, n, l.trim_end_matches('\r')));
        }
    }
    s
}

fn ctx_label(p: &Plant) -> String {
    match p.wraps.last() {
        Some(w) => w.kind.clone(),
        None => {
            if p.stmt.is_some() {
                "fn-body".into()
            } else {
                "top".into()
            }
        }
    }
}

impl Check for C15 {
    type Case = Case;
    fn id(&self) -> &'static str {
        "C15"
    }

    fn generate(&self, u: &mut Unstructured, tier: Tier) -> Option<Case> {
        let mut t = Tape::new(u);
        Some(gen::generate(&mut t, tier))
    }

    fn evaluate(&self, case: &Case, labels: &mut Labels) -> Verdict {
        let p = &case.plant;
        let fclass = if p.file == 0 { "main" } else { "imported" };
        labels.add(format!("kind:{}", p.kind));
        labels.add(format!("spelling:{}/{}", p.kind, p.spelling));
        labels.add(format!("file:{}", fclass));
        labels.add(format!("ctx:{}", ctx_label(p)));
        labels.add(format!("depth:{}", p.wraps.len()));
        labels.add(format!("files:{}", case.files.len()));
        if case.avoid_known {
            labels.add("switch:avoid-known");
        }
        match probe(case) {
            Probe::Malformed => Verdict::Discard("malformed-case".into()),
            Probe::TwinRejected(_) => Verdict::Discard("twin-rejected".into()),
            Probe::TwinPanic => Verdict::Discard("twin-panic".into()),
            Probe::NotAnError => {
                labels.add(format!("not-an-error:{}/{}", p.kind, p.spelling));
                Verdict::Discard("plant-not-an-error".into())
            }
            Probe::Panic(_) => Verdict::Discard("panic".into()),
            Probe::Right { first, nerr, before, exp_line } => {
                for s in before.iter() {
                    labels.add(format!("shape:{}", s));
                }
                if before.iter().all(|s| s == "nonascii-any") {
                    labels.add("shape:none");
                }
                labels.add(format!("first-error:{}", first.kind));
                labels.add(if nerr == 1 { "errors:1" } else { "errors:2+" });
                labels.add(format!("planted-line:{}", if exp_line <= 10 { "1-10" } else if exp_line <= 40 { "11-40" } else { "41+" }));
                if p.crlf {
                    labels.add("planted-line-crlf");
                }
                if p.dup_of.is_some() {
                    labels.add(if first.line == exp_line { "duplicate:reported-at-plant" } else { "duplicate:reported-at-other-definition" });
                }
                let in_stmt = matches!(ctx_label(p).as_str(), "string-tail" | "list-str");
                if in_stmt {
                    labels.add("shape:multiline-string-in-same-statement");
                }
                let nt = p.file != 0 || in_stmt || before.contains("multiline-string") || before.contains("string-nonascii") || before.contains("comment-nonascii");
                Verdict::Pass { nontrivial: nt }
            }
            Probe::Wrong { first, nerr, exp_file, exp_line, alt_lines, source } => {
                let before = render(case, Mode::Planted).before;
                let b = blame(case, &before);
                let wrong_file = first.file.as_deref() != Some(exp_file.as_str());
                let class = if wrong_file { "wrong-file" } else { "wrong-line" };
                // a misplaced top-level statement is reported at whatever token follows it: which text shape "is to
                // blame" then only says what happened to follow, it is one root cause
                let b = if p.kind == "outer-stmt" && !wrong_file && first.line > exp_line { "reported-at-following-token".to_string() } else { b };
                let signature = format!("C15/{}/{}/{}", class, p.kind, b);
                let alt = if alt_lines.is_empty() { String::new() } else { format!(" (or line {} of the other definition)", alt_lines[0]) };
                let detail = format!(
                    "planted {} error `{}` ({}, context {}) at {}:{}{}; the first of {} reported error(s) is {}{} at {}:{} (cols {}-{}): {}\npreceding text shapes: {:?}; location depends on: {}\n--- {} ---\n{}",
                    p.kind,
                    p.line,
                    p.spelling,
                    ctx_label(p),
                    exp_file,
                    exp_line,
                    alt,
                    nerr,
                    first.kind,
                    if first.sub.is_empty() { String::new() } else { format!(":{}", first.sub) },
                    first.file.clone().unwrap_or_else(|| "<no file>".into()),
                    first.line,
                    first.col_start,
                    first.col_end,
                    vcore::first_line(&first.message),
                    before,
                    b,
                    exp_file,
                    numbered(&source, &[exp_line, first.line])
                );
                Verdict::Violation { signature, detail }
            }
        }
    }

    fn simplify_at(&self, case: &Case, idx: usize) -> Step<Case> {
        simplify(case, idx)
    }

    fn sample(&self, case: &Case) -> serde_json::Value {
        let r = render(case, Mode::Planted);
        vcore::truncate_value(
            serde_json::json!({
                "kind": case.plant.kind, "spelling": case.plant.spelling, "context": ctx_label(&case.plant),
                "planted_line_text": case.plant.line, "expected_file": r.exp_file, "expected_line": r.exp_line,
                "shapes_before": r.before, "files": r.project.files,
            }),
            1800,
        )
    }

    fn rule(&self) -> String {
        "cases: a valid 1-3 file Sylt project (main + imported modules via `use m`, `use m as a`, `use sub/m`, `from m use x`; \
         files made of line-oriented pieces: imports, constant/mutable globals, annotated functions with small bodies (if/elif/else, \
         loop, closure, do-block, blob instantiation, enum + case, calls across files), blobs, enums, `start`), with text shapes \
         inserted at generated places (long comments, non-ASCII comments, non-ASCII string literals, string literals spanning 2-4 \
         lines as globals / locals / call arguments, multi-line blob/list/tuple/call constructs, blank-line runs, CRLF for whole \
         files or single pieces, tab indentation, trailing whitespace), plus ONE planted single-line local error of kind syntax / \
         unresolved (name, call, type, namespace member, from-import) / duplicate (global, function, blob, import) / const-assign \
         (local, global, imported, function name) / operator / argument (own, imported or adjacent annotated function; type or arity; \
         paren, arrow and prime calls) / annotation (definition and return annotations) / break / conflict-marker / outer-stmt \
         (non-definition at top level) / syntax-eof (last line without terminator) / unary-minus (`-` on a non-number literal), at a generated (file, line) in context top level / \
         function body / fresh function, wrapped in 0-3 of if, else, elif, loop, closure, do, case-arm, and (syntax / unresolved / \
         operator) optionally as an expression on its own line inside a multi-line list literal, call argument list, parenthesised \
         group, or directly after the end of a string literal that began lines earlier. The planted line replaced by \
         `zn :: 0` (legal twin) must compile, otherwise the case is discarded. oracle: the planted project is rejected (accepted => \
         discard plant-not-an-error) and the FIRST returned error has file == planted file and line_start == planted line (1 + number \
         of '\\n' before it); duplicates: the line of either definition. A wrong location is re-tested with the text shapes removed \
         (all, then class by class) and the class the location depends on goes into the signature. non-trivial = planted in an \
         imported file, or after a multi-line string, a non-ASCII string or a non-ASCII comment in the same file; distinct by hash of \
         the case"
            .into()
    }

    fn assumptions(&self) -> Vec<String> {
        vec![
            "a line is what '\\n' terminates ('\\r\\n' counts once, a lone '\\r' never occurs in generated text); line numbers are 1-based".into(),
            "with exactly one planted cause the first element of the returned error list is the primary diagnostic".into(),
            "for a duplicate definition the location of either definition (same file) is accepted".into(),
        ]
    }

    fn health(&self, s: &Stats) -> Result<(), String> {
        if s.evaluations < 1000 {
            return Ok(());
        }
        let ev = s.evaluations as f64;
        let nae = s.discard("plant-not-an-error") as f64;
        if nae > 0.2 * ev {
            return Err(format!("{:.0}% of the plants are not errors", 100.0 * nae / ev));
        }
        let tw = (s.discard("twin-rejected") + s.discard("twin-panic") + s.discard("malformed-case")) as f64;
        if tw > 0.05 * ev {
            return Err(format!("{:.1}% of the base projects (legal twins) do not compile", 100.0 * tw / ev));
        }
        // kinds behind the avoid switch are generated in 20 % of the budget only
        let forced = std::env::var("C15_AVOID").ok();
        for k in KINDS.iter() {
            if forced.as_deref() == Some("1") && *k == "outer-stmt" {
                continue;
            }
            let need = if *k == "outer-stmt" {
                3
            } else if *k == "unary-minus" {
                s.evaluations / 300
            } else {
                s.evaluations / 100
            };
            if s.label(&format!("kind:{}", k)) < need.max(1) {
                return Err(format!("planted kind {} (nearly) absent: {} cases", k, s.label(&format!("kind:{}", k))));
            }
        }
        for c in SHAPE_CLASSES.iter() {
            if s.label(&format!("shape:{}", c)) < s.evaluations / 100 {
                return Err(format!("text shape {} precedes the planted line in only {} cases", c, s.label(&format!("shape:{}", c))));
            }
        }
        for f in ["file:main", "file:imported"] {
            if s.label(f) < s.evaluations / 5 {
                return Err(format!("{} only {} cases", f, s.label(f)));
            }
        }
        for c in ["ctx:top", "ctx:fn-body", "ctx:closure", "ctx:if", "ctx:loop"] {
            if s.label(c) < s.evaluations / 200 {
                return Err(format!("context {} only {} cases", c, s.label(c)));
            }
        }
        if (s.nontrivial as f64) < 0.4 * ev {
            return Err(format!("only {} of {} cases are non-trivial", s.nontrivial, s.evaluations));
        }
        Ok(())
    }
}

// ------------------------------------------------------------------------------------------------
// simplification
// ------------------------------------------------------------------------------------------------

fn intersects(a: &[String], names: &BTreeSet<String>) -> bool {
    a.iter().any(|x| names.contains(x))
}

/// drop everything that defines or needs one of `names` (transitively). None if the plant or `start` needs them.
fn drop_names(case: &Case, seed: BTreeSet<String>, drop_file: Option<usize>) -> Option<Case> {
    let mut names = seed;
    let p = &case.plant;
    let mut gone: BTreeSet<(usize, usize)> = BTreeSet::new();
    loop {
        let mut changed = false;
        for (fi, f) in case.files.iter().enumerate() {
            for (pi, pc) in f.pieces.iter().enumerate() {
                if gone.contains(&(fi, pi)) {
                    continue;
                }
                let defines_hit = pc.defines.iter().any(|(n, _)| names.contains(n));
                if Some(fi) == drop_file || intersects(&pc.refs, &names) || defines_hit {
                    gone.insert((fi, pi));
                    for (n, _) in &pc.defines {
                        names.insert(n.clone());
                    }
                    changed = true;
                }
            }
        }
        if !changed {
            break;
        }
    }
    if intersects(&p.refs, &names) || p.dup_of.as_ref().map(|n| names.contains(n)).unwrap_or(false) {
        return None;
    }
    for (fi, pi) in gone.iter() {
        let pc = &case.files[*fi].pieces[*pi];
        if *fi == 0 && pc.role == "start" {
            return None;
        }
        if *fi == p.file && p.stmt.is_some() && p.piece == *pi {
            return None;
        }
    }
    let mut out = retain(case, &|fi, pi, _| !gone.contains(&(fi, pi)), &|_, _, _, st| !intersects(&st.refs, &names))?;
    if let Some(d) = drop_file {
        if d == 0 || d == p.file {
            return None;
        }
        out.files.remove(d);
        if out.plant.file > d {
            out.plant.file -= 1;
        }
    }
    Some(out)
}

fn simplify(case: &Case, idx: usize) -> Step<Case> {
    let mut k = idx;
    let cand = |c: Option<Case>| match c {
        Some(c) if &c != case => Step::Candidate(c),
        _ => Step::Skip,
    };
    // A: all text shapes at once, then class by class
    if k == 0 {
        return cand(Some(strip_shapes(case, None)));
    }
    k -= 1;
    if k < SHAPE_CLASSES.len() {
        return cand(Some(strip_shapes(case, Some(SHAPE_CLASSES[k]))));
    }
    k -= SHAPE_CLASSES.len();
    // B: whole files
    if k < case.files.len() {
        if k == 0 || k == case.plant.file {
            return Step::Skip;
        }
        let key = format!("file:{}", case.files[k].path);
        let mut seed = BTreeSet::new();
        seed.insert(key);
        return cand(drop_names(case, seed, Some(k)));
    }
    k -= case.files.len();
    // C: single pieces (with what depends on them)
    for (fi, f) in case.files.iter().enumerate() {
        if k < f.pieces.len() {
            let pc = &f.pieces[k];
            if (fi == 0 && pc.role == "start") || (fi == case.plant.file && case.plant.stmt.is_some() && case.plant.piece == k) {
                return Step::Skip;
            }
            if pc.defines.is_empty() {
                return cand(retain(case, &|a, b, _| !(a == fi && b == k), &|_, _, _, _| true));
            }
            let seed: BTreeSet<String> = pc.defines.iter().map(|(n, _)| n.clone()).collect();
            return cand(drop_names(case, seed, None));
        }
        k -= f.pieces.len();
    }
    // D: single body statements
    for (fi, f) in case.files.iter().enumerate() {
        for (pi, pc) in f.pieces.iter().enumerate() {
            if k < pc.body.len() {
                return cand(retain(case, &|_, _, _| true, &|a, b, c, _| !(a == fi && b == pi && c == k)));
            }
            k -= pc.body.len();
        }
    }
    // E: the plant's own decoration
    let p = &case.plant;
    if k < p.wraps.len() {
        // a fresh function at top level must stay when the planted line is a statement
        if matches!(p.wraps[k].kind.as_str(), "fresh-fn" | "list-int" | "list-str" | "call-arg" | "paren-group" | "string-tail") {
            return Step::Skip;
        }
        let mut c = case.clone();
        c.plant.wraps.remove(k);
        return Step::Candidate(c);
    }
    k -= p.wraps.len();
    let mut c = case.clone();
    match k {
        0 => c.plant.trailer.clear(),
        1 => c.plant.crlf = false,
        2 => c.plant.tabs = false,
        3 => {
            // move the plant to the start of its function body / of the file
            match c.plant.stmt.as_mut() {
                Some(s) => *s = 0,
                None => c.plant.piece = 0,
            }
        }
        4 => {
            for f in c.files.iter_mut() {
                for pc in f.pieces.iter_mut() {
                    pc.crlf = false;
                    pc.tabs = false;
                    pc.trail.clear();
                }
            }
        }
        _ => return Step::End,
    }
    cand(Some(c))
}
