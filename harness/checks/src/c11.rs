//! C11 — top-level order is irrelevant; globals are initialised before use.
//! Metamorphic over permutations of the top-level items + differential against the reference interpreter,
//! plus planted dependency cycles that must be rejected in every order.
use crate::common::*;
use arbitrary::Unstructured;
use serde::{Deserialize, Serialize};
use syltmodel::ast::*;
use syltmodel::gen::{Gen, GenCfg};
use syltmodel::print::Plan as SurfacePlan;
use vcore::luarun::{run_lua, LuaOutcome, Terminal};
use vcore::{compile, Check, Labels, Outcome, Plan, Project, Stats, Step, Tape, Tier, Verdict};

pub struct C11;
pub const CHECK: C11 = C11;
pub fn plan(t: Tier) -> Plan {
    Plan::new(t.pick(10_000, 100_000), t.pick(3400, 4600))
}

#[derive(Clone, Serialize, Deserialize)]
pub struct Case {
    pub prog: Program,
    /// permutations of the top-level items (blobs, enums, globals in printer order)
    pub orders: Vec<Vec<usize>>,
    /// a planted cyclic pair of globals: source lines appended to the item list
    pub cycle: Option<Vec<String>>,
    #[serde(default)]
    pub source: String,
    /// stand-alone "single-mention" program (c11_pos): its top-level items; `orders` permutes them, `prog` is empty
    #[serde(default)]
    pub positions: Option<Vec<String>>,
    #[serde(default)]
    pub position_ids: Vec<String>,
    /// stand-alone programs only: an imported module (its text; the main file starts with `use zpm`) - "across files"
    #[serde(default)]
    pub module: Option<String>,
}

pub fn toplevel_cfg(thorough: bool) -> GenCfg {
    let mut cfg = GenCfg::core(thorough);
    cfg.toplevel_calls = true;
    cfg.max_decls = if thorough { 14 } else { 10 };
    cfg.decl_budget = 35;
    cfg.max_stmts = 6;
    cfg.scenario_weight = 0;
    cfg
}

fn n_items(p: &Program) -> usize {
    p.blobs.len() + p.enums.len() + p.globals.len()
}

fn permutation(t: &mut Tape, n: usize) -> Vec<usize> {
    let mut v: Vec<usize> = (0..n).collect();
    for i in (1..n).rev() {
        let j = t.below(i + 1);
        v.swap(i, j);
    }
    v
}

const CYCLES: &[&[&str]] = &[
    &["zca :: zcb + 1", "zcb :: zca + 1"],
    &["zca :: zcf()", "zcf :: fn -> int do\n    zca\nend"],
    &["zca := zcb", "zcb := zcc", "zcc := zca"],
    &["zca :: (fn -> int do\n    zcb\nend)()", "zcb :: zca"],
    // a function that reads a value whose initialiser uses the function *as a value* (passed, stored in a tuple / list / blob)
    &["zcf :: fn -> int do\n    zcg + 1\nend", "zcg :: zch(zcf)", "zch :: fn f: fn -> int -> int do\n    1\nend"],
    &["zcf :: fn -> int do\n    zcg[1] + 1\nend", "zcg :: (zcf, 1)"],
    &["zcf :: fn -> int do\n    list.len(zcg)\nend", "zcg :: [zcf]"],
    &["Zcb :: blob { m: fn -> int }", "zcf :: fn -> int do\n    zcg.m() + 1\nend", "zcg :: Zcb { m: zcf }"],
    // a longer cycle through two functions and a value
    &["zcf :: fn -> int do\n    zck()\nend", "zck :: fn -> int do\n    zcg\nend", "zcg :: zcf() + 1"],
];

fn render_with(case: &Case, order: &[usize]) -> String {
    // the planted cycle lines are extra items placed according to extra indices in `order`
    let n = n_items(&case.prog);
    let mut plan = SurfacePlan::default();
    plan.order = Some(order.iter().copied().filter(|i| *i < n).collect());
    let printed = render(&case.prog, &plan);
    match &case.cycle {
        None => printed.text,
        Some(lines) => {
            // insert every cycle item before the printed item that follows it in `order`
            let mut chunks: Vec<String> = Vec::new();
            let text_lines: Vec<&str> = printed.text.lines().collect();
            let mut item_iter = printed.item_lines.iter();
            for idx in order {
                if *idx < n {
                    if let Some((a, b)) = item_iter.next() {
                        chunks.push(text_lines[a - 1..*b].join("\n"));
                    }
                } else if let Some(l) = lines.get(idx - n) {
                    chunks.push(l.clone());
                }
            }
            let mut s = chunks.join("\n");
            s.push('\n');
            s
        }
    }
}

/// single-mention programs: every order is accepted, loads, and prints the same lines as the first order
fn evaluate_positions(case: &Case, items: &[String], labels: &mut Labels) -> Verdict {
    labels.add("single-mention-program");
    for id in &case.position_ids {
        labels.add(format!("position:{}", id));
    }
    let header = if case.module.is_some() { "use zpm\n" } else { "" };
    let text = |order: &[usize]| -> String { format!("{}{}\n", header, order.iter().filter_map(|i| items.get(*i)).cloned().collect::<Vec<_>>().join("\n")) };
    let project = |src: &str| -> Project {
        match &case.module {
            None => Project::single(src.to_string()),
            Some(m) => {
                let mut p = Project::single(src.to_string());
                let dir = p.main.rsplit_once('/').map(|x| x.0.to_string()).unwrap_or_default();
                p.files.insert(format!("{}/zpm.sy", dir), m.clone());
                p
            }
        }
    };
    let mut first: Option<(usize, vcore::luarun::Trace)> = None;
    let mut accepted = 0;
    let mut rejected: Vec<(usize, String)> = Vec::new();
    for (k, order) in case.orders.iter().enumerate() {
        let src = text(order);
        match compile(&project(&src)) {
            Outcome::Accepted(lua) => {
                accepted += 1;
                match run_lua(&lua, 2_000_000) {
                    LuaOutcome::LoadError { class, msg, .. } => {
                        return Verdict::Violation {
                            signature: format!("C11/lua-load/{}", class),
                            detail: format!("order #{}: emitted chunk does not load: {}\n--- source ---\n{}", k, msg, src),
                        };
                    }
                    LuaOutcome::Ran(t) => {
                        if let Terminal::OutOfBudget(_) = t.terminal {
                            return Verdict::Discard("lua-budget".into());
                        }
                        match &first {
                            None => first = Some((k, t)),
                            Some((k0, t0)) => {
                                let same_end = format!("{:?}", t0.terminal) == format!("{:?}", t.terminal);
                                if let Some((kind, what)) = diff_traces(t0, &t).or_else(|| if same_end { None } else { Some(("terminal-differs".to_string(), format!("{:?} vs {:?}", t0.terminal, t.terminal))) }) {
                                    return Verdict::Violation {
                                        signature: format!("C11/orders-differ/{}", kind),
                                        detail: format!(
                                            "two orders of the same top-level definitions behave differently ({}; positions {:?}): {}\n--- order #{} ---\n{}\n--- order #{} ---\n{}",
                                            kind,
                                            case.position_ids,
                                            what,
                                            k0,
                                            text(&case.orders[*k0]),
                                            k,
                                            src
                                        ),
                                    };
                                }
                            }
                        }
                    }
                }
            }
            Outcome::Rejected { errors, bytes_written } => {
                if bytes_written > 0 {
                    return Verdict::Violation { signature: "C11/wrote-lua-on-error".into(), detail: "bytes written although rejected".into() };
                }
                rejected.push((k, format!("{}:{}", errors[0].kind, message_class(&errors[0].message))));
            }
            Outcome::Panicked { .. } => return Verdict::Discard("compiler-panicked".into()),
        }
    }
    if accepted > 0 && !rejected.is_empty() {
        let (k, why) = &rejected[0];
        return Verdict::Violation {
            signature: format!("C11/acceptance-depends-on-order/{}", why),
            detail: format!("{} of {} orders are accepted, order #{} is rejected ({})\n--- rejected order ---\n{}", accepted, case.orders.len(), k, why, text(&case.orders[*k])),
        };
    }
    if accepted == 0 && case.position_ids.iter().any(|i| i.starts_with("invalid:")) {
        labels.add("single-mention-invalid-rejected-in-every-order");
        return Verdict::Pass { nontrivial: true };
    }
    if accepted == 0 {
        // the catalogue is meant to be valid Sylt: a rejected template is a harness defect (see health())
        labels.add(format!("single-mention-rejected:{}:{}", case.position_ids.join("+"), rejected[0].1));
        return Verdict::Discard("single-mention-rejected".into());
    }
    if let Some((_, t)) = &first {
        if !matches!(t.terminal, Terminal::Ok) {
            labels.add(format!("single-mention-run-ends:{:?}", t.terminal));
        }
    }
    labels.add("accepted");
    Verdict::Pass { nontrivial: true }
}

impl Check for C11 {
    type Case = Case;
    fn id(&self) -> &'static str {
        "C11"
    }
    fn generate(&self, u: &mut Unstructured, tier: Tier) -> Option<Case> {
        let mut t = Tape::new(u);
        if t.chance(1, 5) {
            let (mut items, mut ids) = crate::c11_pos::build(&mut t);
            // 1 in 4: an imported module that is a program of its own; a definition of the main file mentions the module's
            // `start`, the main file's `start` does not depend on that definition
            let module = if t.chance(1, 4) {
                ids.push("module-with-own-start".into());
                let user = match t.below(3) {
                    0 => "zpreplay :: fn do\n    zpm.start()\nend",
                    1 => "zpreplay :: zpm.start",
                    _ => "zpreplay :: fn -> int do\n    zpm.start()\n    zpm.zmvalue\nend",
                };
                let at = t.below(items.len());
                items.insert(at, user.to_string());
                Some("zmvalue :: 7\nzmshow :: fn do\n    print(zmvalue)\nend\nstart :: fn do\n    zmshow()\n    print(\"module start ran\")\nend\n".to_string())
            } else {
                None
            };
            let n = items.len();
            let mut orders: Vec<Vec<usize>> = vec![(0..n).collect(), (0..n).rev().collect()];
            for _ in 0..tier.pick(6, 10) {
                orders.push(permutation(&mut t, n));
            }
            let source = items.join("\n") + "\n";
            return Some(Case { prog: Program::default(), orders, cycle: None, source, positions: Some(items), position_ids: ids, module });
        }
        let prog = Gen::new(&mut t, toplevel_cfg(tier == Tier::Thorough)).program();
        let cycle: Option<Vec<String>> = if t.chance(1, 6) { Some(t.pick(CYCLES).iter().map(|s| s.to_string()).collect()) } else { None };
        let n = n_items(&prog) + cycle.as_ref().map(|c| c.len()).unwrap_or(0);
        let mut orders: Vec<Vec<usize>> = Vec::new();
        orders.push((0..n).collect());
        orders.push((0..n).rev().collect());
        let r = t.below(n.max(1));
        orders.push((0..n).map(|i| (i + r) % n.max(1)).collect());
        for _ in 0..tier.pick(3, 5) {
            orders.push(permutation(&mut t, n));
        }
        let mut case = Case { prog, orders, cycle, source: String::new(), positions: None, position_ids: Vec::new(), module: None };
        case.source = render_with(&case, &case.orders[0]);
        Some(case)
    }

    fn evaluate(&self, case: &Case, labels: &mut Labels) -> Verdict {
        if let Some(items) = &case.positions {
            return evaluate_positions(case, items, labels);
        }
        let n = n_items(&case.prog);
        // cyclic variants: rejected in every order
        if case.cycle.is_some() {
            labels.add("planted-cycle");
            let mut accepted_in: Vec<usize> = Vec::new();
            let mut first_msg = String::new();
            for (k, order) in case.orders.iter().enumerate() {
                let src = render_with(case, order);
                match compile(&Project::single(src)) {
                    Outcome::Accepted(_) => accepted_in.push(k),
                    Outcome::Rejected { errors, bytes_written } => {
                        if bytes_written > 0 {
                            return Verdict::Violation { signature: "C11/wrote-lua-on-error".into(), detail: "bytes written although rejected".into() };
                        }
                        if first_msg.is_empty() {
                            first_msg = errors[0].message.clone();
                        }
                    }
                    Outcome::Panicked { .. } => return Verdict::Discard("compiler-panicked".into()),
                }
            }
            if !accepted_in.is_empty() {
                return Verdict::Violation {
                    signature: "C11/cycle-accepted".into(),
                    detail: format!(
                        "a program whose global initialisers depend on each other cyclically is accepted in {} of {} orders\n--- one accepted order ---\n{}",
                        accepted_in.len(),
                        case.orders.len(),
                        render_with(case, &case.orders[accepted_in[0]])
                    ),
                };
            }
            if !first_msg.contains("ependency") {
                labels.add("cycle-rejected-for-other-reason");
            }
            return Verdict::Pass { nontrivial: true };
        }
        let r = reference(&case.prog, false);
        if r.ambiguous {
            return Verdict::Discard("order-ambiguous".into());
        }
        if r.nan_seen || r.unprintable_seen {
            return Verdict::Discard("nan-or-unprintable".into());
        }
        let base_printed = render(&case.prog, &SurfacePlan::default());
        let expected = match expected_trace(&r, &base_printed) {
            Ok(t) => t,
            Err(e) => {
                if e.starts_with("ref-dynerror") {
                    labels.add("ref-dynerror");
                }
                return Verdict::Discard(e.split(':').next().unwrap_or("ref").chars().take(40).collect());
            }
        };
        if matches!(expected.terminal, Terminal::Unreachable(_)) {
            // the line number of `<!>` moves with the permutation
            return Verdict::Discard("unreachable-reached".into());
        }
        let mut accepted = 0;
        let mut rejected: Vec<(usize, String)> = Vec::new();
        let mut inverted_edges = false;
        for (k, order) in case.orders.iter().enumerate() {
            let src = render_with(case, order);
            // does this permutation put some global after a global that is printed later in the base order?
            if k > 0 && order.iter().filter(|i| **i < n).zip(order.iter().filter(|i| **i < n).skip(1)).any(|(a, b)| a > b) {
                inverted_edges = true;
            }
            match compile(&Project::single(src.clone())) {
                Outcome::Accepted(lua) => {
                    accepted += 1;
                    match run_lua(&lua, r.steps * 60 + 400_000) {
                        LuaOutcome::LoadError { class, msg, .. } => {
                            return Verdict::Violation {
                                signature: format!("C11/lua-load/{}", class),
                                detail: format!("order #{}: emitted chunk does not load: {}\n--- source ---\n{}", k, msg, src),
                            };
                        }
                        LuaOutcome::Ran(t) => {
                            if let Terminal::OutOfBudget(_) = t.terminal {
                                return Verdict::Discard("lua-budget".into());
                            }
                            if let Some((kind, what)) = diff_traces(&expected, &t) {
                                return Verdict::Violation {
                                    signature: format!("C11/trace/{}", kind),
                                    detail: format!(
                                        "order #{} of the top-level definitions behaves differently from the source's meaning: {}\n--- this order ---\n{}\n--- base order ---\n{}",
                                        k, what, src, base_printed.text
                                    ),
                                };
                            }
                        }
                    }
                }
                Outcome::Rejected { errors, bytes_written } => {
                    if bytes_written > 0 {
                        return Verdict::Violation { signature: "C11/wrote-lua-on-error".into(), detail: "bytes written although rejected".into() };
                    }
                    rejected.push((k, format!("{}:{}", errors[0].kind, message_class(&errors[0].message))));
                }
                Outcome::Panicked { .. } => return Verdict::Discard("compiler-panicked".into()),
            }
        }
        if accepted > 0 && !rejected.is_empty() {
            let (k, why) = &rejected[0];
            return Verdict::Violation {
                signature: format!("C11/acceptance-depends-on-order/{}", why),
                detail: format!(
                    "{} of {} orders are accepted, order #{} is rejected ({})\n--- rejected order ---\n{}\n--- base order ---\n{}",
                    accepted,
                    case.orders.len(),
                    k,
                    why,
                    render_with(case, &case.orders[*k]),
                    base_printed.text
                ),
            };
        }
        if accepted == 0 {
            labels.add(format!("all-rejected:{}", rejected[0].1));
            return Verdict::Discard("rejected-in-every-order".into());
        }
        labels.add("accepted");
        if r.cov[syltmodel::interp::Cov::GlobalWrite as usize] > 0 {
            labels.add("global-write");
        }
        let has_call_init = case.prog.globals.iter().any(|g| matches!(g.value.kind, EKind::Call(..)));
        if has_call_init {
            labels.add("call-initialiser");
        }
        Verdict::Pass { nontrivial: inverted_edges && case.prog.globals.len() >= 4 }
    }

    fn simplify_at(&self, case: &Case, idx: usize) -> Step<Case> {
        if case.cycle.is_some() || case.positions.is_some() {
            return Step::End;
        }
        let pc = ProgCase { prog: case.prog.clone(), plan: SurfacePlan::default(), source: String::new() };
        match shrink_step(&pc, idx) {
            Step::End => Step::End,
            Step::Skip => Step::Skip,
            Step::Candidate(p) => {
                // removing a global shifts item indices: drop the index from every order
                let old_n = n_items(&case.prog);
                let new_n = n_items(&p.prog);
                let orders: Vec<Vec<usize>> = if new_n == old_n {
                    case.orders.clone()
                } else {
                    // a global was removed: rebuild orders by relative rank
                    case.orders
                        .iter()
                        .map(|o| {
                            let mut keep: Vec<usize> = o.iter().copied().filter(|i| *i < new_n).collect();
                            for i in 0..new_n {
                                if !keep.contains(&i) {
                                    keep.push(i);
                                }
                            }
                            keep
                        })
                        .collect()
                };
                let mut c = Case { prog: p.prog, orders, cycle: None, source: String::new(), positions: None, position_ids: Vec::new(), module: None };
                c.source = render_with(&c, &c.orders[0]);
                Step::Candidate(c)
            }
        }
    }
    fn sample(&self, case: &Case) -> serde_json::Value {
        vcore::truncate_value(
            serde_json::json!({"base_order": render_with(case, &case.orders[0]), "a_permutation": case.orders.last(), "cycle": case.cycle}),
            2000,
        )
    }
    fn rule(&self) -> String {
        "cases: a random well-typed program of the top-level profile (constants, mutable globals, pure and impure global functions, \
         blobs, enums; initialisers built from earlier constants or calling earlier functions; at most one initialiser with effects \
         - it may print and assign mutable globals - so that the documented semantics make the behaviour order-independent) rendered \
         in the identity order, the reverse, a rotation and 3 (quick) / 5 (thorough) random permutations of all top-level items \
         (types included); 1 case in 6 additionally carries a planted dependency cycle (value<->value, value->function->value, a \
         3-cycle, through an immediately applied closure); 1 case in 5 is instead a stand-alone single-mention program (c11_pos: \
         a function or initialiser that mentions a global at exactly one of 49 syntactic positions - loop condition and body, both \
         operands of one operator, case scrutinee / arm / else, stores, field stores, lambdas, call sugar ... - reached from start or \
         from another initialiser) in 8 (quick) / 12 (thorough) orders, all of which must be accepted and print the same lines. Oracle: every order is accepted and its mini-Lua trace equals the reference \
         interpreter's trace of the program (or every order is rejected); a planted cycle is rejected in every order with zero bytes \
         written. non-trivial = a permutation inverts the textual order of at least two globals and there are >= 4 globals, or a cyclic \
         variant; distinct by case hash"
            .into()
    }
    fn health(&self, s: &Stats) -> Result<(), String> {
        if s.evaluations < 200 {
            return Ok(());
        }
        if (s.label("accepted") as f64) < 0.5 * s.evaluations as f64 {
            return Err(format!("only {} of {} programs are accepted in every order", s.label("accepted"), s.evaluations));
        }
        if s.label("call-initialiser") * 5 < s.evaluations || s.label("global-write") * 10 < s.evaluations {
            return Err("initialisers that call functions / writes to globals are rare".into());
        }
        Ok(())
    }
}
