//! C04 catalogue of planted violations: text pieces (violation + legal twin), own nesting chains, site choice.
use serde::{Deserialize, Serialize};
use std::collections::HashMap;
use syltmodel::ast::*;
use syltmodel::plant::{self, ExprSite, Placement, StmtSite};

pub const SMARK: &str = "@@C04S@@";
pub const EMARK: &str = "@@C04E@@";

/// three renderings of one slot: unplanted base, legal twin, violation
#[derive(Clone, Default, Debug, Serialize, Deserialize, PartialEq)]
pub struct V3 {
    pub base: String,
    pub twin: String,
    pub bad: String,
}
impl V3 {
    pub fn same(s: &str) -> V3 {
        V3 { base: s.to_string(), twin: s.to_string(), bad: s.to_string() }
    }
}

/// (twin, bad) pair of one text piece
#[derive(Clone, Default, Debug)]
pub struct P2 {
    pub twin: String,
    pub bad: String,
}
pub fn both(s: impl Into<String>) -> P2 {
    let s = s.into();
    P2 { twin: s.clone(), bad: s }
}
pub fn p2(twin: impl Into<String>, bad: impl Into<String>) -> P2 {
    P2 { twin: twin.into(), bad: bad.into() }
}

/// selector bytes drawn from the tape *before* the base program is generated
pub struct Sel {
    pub b: Vec<u8>,
    pub i: usize,
}
impl Sel {
    pub fn byte(&mut self) -> u8 {
        let v = self.b.get(self.i).copied().unwrap_or(0);
        self.i += 1;
        v
    }
    pub fn below(&mut self, n: usize) -> usize {
        if n <= 1 {
            return 0;
        }
        if n <= 256 {
            (self.byte() as usize * n) >> 8
        } else {
            let v = ((self.byte() as usize) << 8) | self.byte() as usize;
            (v * n) >> 16
        }
    }
    pub fn chance(&mut self, num: usize, den: usize) -> bool {
        self.below(den) >= den - num
    }
    pub fn pick<'t, T>(&mut self, xs: &'t [T]) -> &'t T {
        let i = self.below(xs.len());
        &xs[i]
    }
    pub fn weighted(&mut self, w: &[u32]) -> usize {
        let total: u32 = w.iter().sum();
        if total == 0 {
            return 0;
        }
        let mut r = self.below(total as usize) as u32;
        for (i, x) in w.iter().enumerate() {
            if r < *x {
                return i;
            }
            r -= *x;
        }
        w.len() - 1
    }
}

pub fn ind(s: &str) -> String {
    s.lines().map(|l| format!("    {}", l)).collect::<Vec<_>>().join("\n")
}

#[derive(Clone, Copy, PartialEq, Debug)]
pub enum Wrap {
    If,
    Else,
    Elif,
    Do,
    CaseArm,
    CaseElse,
    FnClosure,
    PuClosure,
    Loop,
    IfExpr,
    ForEach,
    Map,
}
pub const WRAPS_IMPURE: &[Wrap] =
    &[Wrap::If, Wrap::FnClosure, Wrap::Else, Wrap::Do, Wrap::CaseArm, Wrap::Loop, Wrap::CaseElse, Wrap::IfExpr, Wrap::ForEach, Wrap::Elif];
pub const WRAPS_PURE: &[Wrap] =
    &[Wrap::If, Wrap::FnClosure, Wrap::Else, Wrap::Do, Wrap::CaseArm, Wrap::PuClosure, Wrap::CaseElse, Wrap::IfExpr, Wrap::Map, Wrap::Elif];

impl Wrap {
    pub fn name(self) -> &'static str {
        match self {
            Wrap::If => "if",
            Wrap::Else => "else",
            Wrap::Elif => "elif",
            Wrap::Do => "do",
            Wrap::CaseArm => "case-arm",
            Wrap::CaseElse => "case-else",
            Wrap::FnClosure => "fn-closure",
            Wrap::PuClosure => "pu-closure",
            Wrap::Loop => "loop",
            Wrap::IfExpr => "if-expr",
            Wrap::ForEach => "for-each-lambda",
            Wrap::Map => "map-lambda",
        }
    }
    /// wrap `inner` (one or more statements) into one more level of nesting; `n` makes names unique
    pub fn apply(self, n: usize, inner: &str) -> String {
        let i = ind(inner);
        match self {
            Wrap::If => format!("if 1 < 2 do\n{}\n    ze{} :: 0\nend", i, n),
            Wrap::Else => format!("if 1 > 2 do\n    zd{} :: 0\nelse\n{}\n    ze{} :: 0\nend", n, i, n),
            Wrap::Elif => format!("if 1 > 2 do\n    zd{} :: 0\nelif 1 < 2 do\n{}\n    ze{} :: 0\nend", n, i, n),
            Wrap::Do => format!("zd{} :: 0\ndo\n{}\n    ze{} :: 0\nend", n, i, n),
            Wrap::CaseArm => format!(
                "case Maybe.Just 1 do\n    Just zv{} ->\n{}\n        ze{} :: 0\n    end\n    else\n        zd{} :: 0\n    end\nend",
                n,
                ind(&i),
                n,
                n
            ),
            Wrap::CaseElse => format!(
                "case Maybe.Just 1 do\n    Just zv{} ->\n        zd{} :: 0\n    end\n    else\n{}\n        ze{} :: 0\n    end\nend",
                n,
                n,
                ind(&i),
                n
            ),
            Wrap::FnClosure => format!("zg{} :: fn zy{}: int -> int do\n{}\n    zy{}\nend", n, n, i, n),
            Wrap::PuClosure => format!("zg{} :: pu zy{}: int -> int do\n{}\n    zy{}\nend", n, n, i, n),
            Wrap::Loop => format!("zl{} := 0\nloop zl{} < 1 do\n    zl{} += 1\n{}\n    ze{} :: 0\nend", n, n, n, i, n),
            Wrap::IfExpr => format!("zx{} :: if 1 < 2 do\n{}\n    1\nelse\n    2\nend", n, i),
            Wrap::ForEach => format!("for_each([1], fn zy{}: int do\n{}\n    ze{} :: 0\nend)", n, i, n),
            Wrap::Map => format!("zw{} :: map([1], pu zy{}: int -> int do\n{}\n    zy{}\nend)", n, n, i, n),
        }
    }
}

pub fn chain(core: &str, wraps: &[Wrap]) -> String {
    let mut s = core.to_string();
    for (k, w) in wraps.iter().enumerate().rev() {
        s = w.apply(k + 1, &s);
    }
    s
}

/// pieces of one plant: `pre_out` `head` [ `pre_in` chain(`core`) ] `tail`
#[derive(Clone, Default, Debug)]
pub struct Pieces {
    pub pre_out: P2,
    pub head: P2,
    pub pre_in: P2,
    pub core: P2,
    pub tail: P2,
}

fn join_nonempty(parts: &[String]) -> String {
    parts.iter().filter(|s| !s.is_empty()).cloned().collect::<Vec<_>>().join("\n")
}

pub fn assemble(p: &Pieces, wraps: &[Wrap]) -> V3 {
    let one = |pre_out: &str, head: &str, pre_in: &str, core: &str, tail: &str| -> String {
        let body = join_nonempty(&[pre_in.to_string(), chain(core, wraps)]);
        if head.is_empty() {
            join_nonempty(&[pre_out.to_string(), body, tail.to_string()])
        } else {
            join_nonempty(&[pre_out.to_string(), head.to_string(), ind(&body), tail.to_string()])
        }
    };
    V3 {
        base: String::new(),
        twin: one(&p.pre_out.twin, &p.head.twin, &p.pre_in.twin, &p.core.twin, &p.tail.twin),
        bad: one(&p.pre_out.bad, &p.head.bad, &p.pre_in.bad, &p.core.bad, &p.tail.bad),
    }
}

/// planted globals every single-file case carries (in base, twin and violation alike)
pub const STD_PRELUDE: &str = "Zb :: blob { f: int, g: float }\n\
Zfb :: blob { g: fn int -> int, h: pu int -> int }\n\
zcg :: 1\n\
zcf :: 1.5\n\
zmg := 1\n\
zmf := 1.5\n\
zbg :: Zb { f: 1, g: 1.5 }\n\
zmb := Zb { f: 1, g: 1.5 }\n\
zig :: fn do end\n\
zig2 :: fn zx: int -> int do zx end\n\
zpg :: pu zx: int -> int do zx end\n\
zfb :: Zfb { g: fn zx: int -> int do zx end, h: pu zx: int -> int do zx end }\n";

pub const LIB_PATH: &str = "/p/zlib.sy";
pub const LIB_TEXT: &str = "zlc :: 1\nzlf :: 1.5\nzlm := 1\nzlg := 1.5\nzli :: fn zx: int -> int do zx end\nzlp :: pu zx: int -> int do zx end\n";

/// how the library's names are reached from main: (import line, prefix for a name, name mapping)
#[derive(Clone, Copy, Debug, PartialEq)]
pub enum Imp {
    Ns,
    NsAlias,
    From,
    FromAs,
}
impl Imp {
    pub fn name(self) -> &'static str {
        match self {
            Imp::Ns => "ns",
            Imp::NsAlias => "ns-alias",
            Imp::From => "from",
            Imp::FromAs => "from-as",
        }
    }
    pub fn line(self, file: &str, names: &[&str]) -> String {
        match self {
            Imp::Ns => format!("use {}\n", file),
            Imp::NsAlias => format!("use {} as zn\n", file),
            Imp::From => format!("from {} use ({})\n", file, names.join(", ")),
            Imp::FromAs => {
                format!("from {} use ({})\n", file, names.iter().map(|n| format!("{} as zh{}", n, n)).collect::<Vec<_>>().join(", "))
            }
        }
    }
    pub fn r(self, file: &str, name: &str) -> String {
        match self {
            Imp::Ns => format!("{}.{}", file, name),
            Imp::NsAlias => format!("zn.{}", name),
            Imp::From => name.to_string(),
            Imp::FromAs => format!("zh{}", name),
        }
    }
}
pub const IMPS: &[Imp] = &[Imp::Ns, Imp::FromAs, Imp::NsAlias, Imp::From];

/// literals (two different ones) and assignment operators usable on a type; None = no literal known
pub fn lits(ty: &Ty) -> Option<(String, String)> {
    Some(match ty {
        Ty::Int => ("1".into(), "2".into()),
        Ty::Float => ("1.5".into(), "2.5".into()),
        Ty::Str => ("\"a\"".into(), "\"b\"".into()),
        Ty::Bool => ("true".into(), "false".into()),
        Ty::Tuple(ts) if !ts.is_empty() => {
            let mut a = Vec::new();
            let mut b = Vec::new();
            for t in ts {
                let (x, y) = lits(t)?;
                a.push(x);
                b.push(y);
            }
            if ts.len() == 1 {
                (format!("({},)", a[0]), format!("({},)", b[0]))
            } else {
                (format!("({})", a.join(", ")), format!("({})", b.join(", ")))
            }
        }
        Ty::List(t) => {
            let (x, y) = lits(t)?;
            (format!("[{}]", x), format!("[{}, {}]", y, x))
        }
        _ => return None,
    })
}
pub fn ops(ty: &Ty) -> &'static [&'static str] {
    match ty {
        Ty::Int => &["=", "+=", "-=", "*="],
        Ty::Float => &["=", "+=", "-=", "*=", "/="],
        Ty::Str => &["=", "+="],
        _ => &["="],
    }
}
pub fn ty_text(p: &Program, t: &Ty) -> String {
    syltmodel::print::type_text(p, t)
}

/// function signatures used for the `pu`-type plants: (declared pu type, fn literal, pu literal, call args)
pub const SIGS: &[(&str, &str, &str, &str)] = &[
    ("pu int -> int", "fn zy: int -> int do zy end", "pu zy: int -> int do zy end", "(1)"),
    ("pu -> void", "fn do end", "pu do end", "()"),
    ("pu int, int -> int", "fn zy: int, zz: int -> int do zy + zz end", "pu zy: int, zz: int -> int do zy + zz end", "(1, 2)"),
    ("pu str -> str", "fn zy: str -> str do zy end", "pu zy: str -> str do zy end", "(\"a\")"),
    ("pu float -> bool", "fn zy: float -> bool do zy > 1.0 end", "pu zy: float -> bool do zy > 1.0 end", "(1.5)"),
];

pub struct Sites {
    pub ss: Vec<StmtSite>,
    pub es: Vec<ExprSite>,
    /// smallest block depth at which a variable is visible (= depth of its declaring block)
    pub decl_depth: HashMap<VarId, usize>,
}
pub fn collect(prog: &Program) -> Sites {
    let (ss, es) = plant::sites(prog);
    let mut decl_depth: HashMap<VarId, usize> = HashMap::new();
    for s in &ss {
        for v in &s.ctx.scope {
            let e = decl_depth.entry(*v).or_insert(s.ctx.depth);
            if s.ctx.depth < *e {
                *e = s.ctx.depth;
            }
        }
    }
    Sites { ss, es, decl_depth }
}
pub fn placement_name(p: Placement) -> String {
    format!("{:?}", p)
}
