//! C04: builders of the individual plant kinds (A: assignment to constants, B: inside `pu`, C: impure at `pu` type)
use super::cat::*;
use syltmodel::ast::*;
use syltmodel::plant::{self, StmtSite};

pub struct Built {
    pub prog: Program,
    pub stmt: V3,
    pub expr: V3,
    pub prelude: V3,
    /// second file (path, text per variant)
    pub other: Option<(String, V3)>,
    /// path of the file rendered from `prog` (main unless the generated program is the imported one)
    pub prog_path: String,
    pub main: String,
    pub kind: &'static str,
    pub variant: String,
    /// "" | "alias" | "import"
    pub via: &'static str,
    pub nest: Vec<&'static str>,
    pub depth: usize,
    pub placement: String,
    /// impure-site | base-pure | own-pu | own-global-pu | import-main
    pub mode: &'static str,
    /// expected TypeError variant(s) of the rejection
    pub expect: &'static str,
    /// the same plant without the own nesting chain (shrinking)
    pub flat_stmt: Option<V3>,
    pub flat_prelude: Option<V3>,
}

pub struct Cx<'a> {
    pub sel: &'a mut Sel,
    pub prog: &'a Program,
    pub sites: Sites,
    pub want_depth: usize,
}

impl<'a> Cx<'a> {
    fn impure_sites(&self) -> Vec<usize> {
        (0..self.sites.ss.len()).filter(|i| !self.sites.ss[*i].ctx.in_pure).collect()
    }
    fn pure_sites(&self) -> Vec<usize> {
        (0..self.sites.ss.len()).filter(|i| self.sites.ss[*i].ctx.in_pure).collect()
    }
    fn pick_idx(&mut self, xs: &[usize]) -> Option<usize> {
        if xs.is_empty() {
            None
        } else {
            Some(xs[self.sel.below(xs.len())])
        }
    }
    /// own nesting chain so that `site_depth + len` approaches the wanted depth
    fn wraps(&mut self, site_depth: usize, pure: bool) -> Vec<Wrap> {
        let n = self.want_depth.saturating_sub(site_depth).min(4);
        let pool = if pure { WRAPS_PURE } else { WRAPS_IMPURE };
        (0..n).map(|_| *self.sel.pick(pool)).collect()
    }
    fn site(&self, i: usize) -> &StmtSite {
        &self.sites.ss[i]
    }
    fn scope_vars(&self, i: usize, f: impl Fn(&VarInfo) -> bool) -> Vec<VarId> {
        self.site(i).ctx.scope.iter().copied().filter(|v| f(self.prog.var(*v))).collect()
    }
    fn finish_stmt(&self, site: usize, pieces: &Pieces, wraps: &[Wrap]) -> (Program, V3, String) {
        let prog = plant::insert_stmt(self.prog, site, Stmt::Raw(SMARK.to_string()));
        (prog, assemble(pieces, wraps), placement_name(self.site(site).ctx.placement))
    }
}

fn std_prelude() -> V3 {
    V3::same(STD_PRELUDE)
}

fn built_stmt(
    cx: &Cx,
    site: usize,
    pieces: &Pieces,
    wraps: &[Wrap],
    kind: &'static str,
    variant: String,
    via: &'static str,
    depth: usize,
    mode: &'static str,
    expect: &'static str,
) -> Built {
    let (prog, stmt, placement) = cx.finish_stmt(site, pieces, wraps);
    Built {
        prog,
        stmt,
        expr: V3::default(),
        prelude: std_prelude(),
        other: None,
        prog_path: "/p/main.sy".into(),
        main: "/p/main.sy".into(),
        kind,
        variant,
        via,
        nest: wraps.iter().map(|w| w.name()).collect(),
        depth,
        placement,
        mode,
        expect,
        flat_stmt: Some(assemble(pieces, &[])),
        flat_prelude: None,
    }
}

/// assignment statement texts for a constant `c` of type `ty`: (bad core, twin pre, twin core)
fn assign_texts(sel: &mut Sel, c: &str, ty: &Ty, tmp: &str) -> (String, String, String, String) {
    match lits(ty) {
        Some((_, b)) if !sel.chance(1, 6) => {
            let op = *sel.pick(ops(ty));
            (format!("{} {} {}", c, op, b), format!("{} := {}", tmp, c), format!("{} {} {}", tmp, op, b), op.to_string())
        }
        _ => (format!("{} = {}", c, c), format!("{} := {}", tmp, c), format!("{} = {}", tmp, c), "=self".to_string()),
    }
}

const OWN_TYS: &[Ty] = &[Ty::Int, Ty::Float, Ty::Str, Ty::Bool];

fn own_ty(sel: &mut Sel) -> Ty {
    match sel.below(6) {
        4 => Ty::Tuple(vec![Ty::Int, Ty::Float]),
        5 => Ty::List(Box::new(Ty::Int)),
        k => OWN_TYS[k].clone(),
    }
}

// ------------------------------------------------------------------------------------------ A kinds

pub fn const_own(cx: &mut Cx) -> Option<Built> {
    let sites = cx.impure_sites();
    let site = cx.pick_idx(&sites)?;
    let ty = own_ty(cx.sel);
    let (a, b) = lits(&ty)?;
    let op = *cx.sel.pick(ops(&ty));
    let annotated = cx.sel.chance(1, 4);
    let wraps = cx.wraps(0, false);
    let tt = ty_text(cx.prog, &ty);
    let pre = if annotated { p2(format!("zq0: {} = {}", tt, a), format!("zq0: {} : {}", tt, a)) } else { p2(format!("zq0 := {}", a), format!("zq0 :: {}", a)) };
    // a decoy: a *mutable* variable of the same name in an inner scope that has ended before the assignment
    let decoy = match cx.sel.below(8) {
        0 => format!("if true do\n    zq0 := {}\nend", a),
        1 => format!("do\n    zq0 := {}\nend", a),
        2 => format!("case Maybe.Just 1 do\n    Just zqd ->\n        zq0 := {}\n    end\n    else\n    end\nend", a),
        3 => format!("case Maybe.Just 1 do\n    Just zqd ->\n    end\n    else\n        zq0 := {}\n    end\nend", a),
        4 => format!("if false do\nelse\n    zq0 := {}\nend", a),
        _ => String::new(),
    };
    let (pre, dv) = if decoy.is_empty() {
        (pre, "")
    } else {
        (P2 { twin: format!("{}\n{}", pre.twin, decoy), bad: format!("{}\n{}", pre.bad, decoy) }, "+decoy")
    };
    let pieces = Pieces { pre_out: pre, core: both(format!("zq0 {} {}", op, b)), ..Default::default() };
    Some(built_stmt(cx, site, &pieces, &wraps, "const-own", format!("{}:{}{}", tt, op, dv), "", wraps.len(), "impure-site", "Assignability"))
}

pub fn const_alias(cx: &mut Cx) -> Option<Built> {
    let sites = cx.impure_sites();
    let site = cx.pick_idx(&sites)?;
    let consts = cx.scope_vars(site, |v| !v.mutable && v.kind != VarKind::SelfVar);
    let wraps = cx.wraps(0, false);
    let two = cx.sel.chance(1, 3);
    // source of the alias: an own literal, a constant in scope, the planted global
    let (src, ty, srcname): (String, Option<Ty>, String) = match cx.sel.below(3) {
        1 if !consts.is_empty() => {
            let v = consts[cx.sel.below(consts.len())];
            let info = cx.prog.var(v);
            (info.name.clone(), Some(info.ty.clone()), format!("scope-{:?}", info.kind))
        }
        2 => ("zcg".into(), Some(Ty::Int), "global".into()),
        _ => {
            let ty = own_ty(cx.sel);
            (lits(&ty)?.0, Some(ty), "literal".into())
        }
    };
    let last = if two { "zc0" } else { "zb0" };
    let ty = ty.unwrap_or(Ty::Void);
    let (core, op) = match lits(&ty) {
        Some((_, b)) => {
            let op = *cx.sel.pick(ops(&ty));
            (format!("{} {} {}", last, op, b), op.to_string())
        }
        None => (format!("{} = za0", last), "=self".to_string()),
    };
    let mk = |last_def: &str| {
        if two {
            format!("za0 :: {}\nzb0 :: za0\nzc0 {} zb0", src, last_def)
        } else {
            format!("za0 :: {}\nzb0 {} za0", src, last_def)
        }
    };
    let pieces = Pieces { pre_out: p2(mk(":="), mk("::")), core: both(core), ..Default::default() };
    Some(built_stmt(cx, site, &pieces, &wraps, "const-alias", format!("{}:{}:{}", srcname, if two { 2 } else { 1 }, op), "alias", wraps.len(), "impure-site", "Assignability"))
}

/// assignment to a constant of the base program that is in scope at the site (local / parameter / case binding)
pub fn const_scope(cx: &mut Cx, want: VarKind, kind: &'static str) -> Option<Built> {
    let cands: Vec<usize> = cx
        .impure_sites()
        .into_iter()
        .filter(|i| !cx.scope_vars(*i, |v| v.kind == want && !v.mutable).is_empty())
        .collect();
    let site = cx.pick_idx(&cands)?;
    let vars = cx.scope_vars(site, |v| v.kind == want && !v.mutable);
    let v = vars[cx.sel.below(vars.len())];
    let info = cx.prog.var(v).clone();
    let below = cx.site(site).ctx.depth.saturating_sub(*cx.sites.decl_depth.get(&v).unwrap_or(&0));
    let wraps = cx.wraps(below, false);
    let (bad, tpre, tcore, op) = assign_texts(cx.sel, &info.name, &info.ty, "zt0");
    let pieces = Pieces { pre_out: p2(tpre, ""), core: p2(tcore, bad), ..Default::default() };
    Some(built_stmt(cx, site, &pieces, &wraps, kind, format!("scope:{}", op), "", below + wraps.len(), "impure-site", "Assignability"))
}

pub fn const_param_own(cx: &mut Cx) -> Option<Built> {
    let sites = cx.impure_sites();
    let site = cx.pick_idx(&sites)?;
    let ty = OWN_TYS[cx.sel.below(4)].clone();
    let (a, b) = lits(&ty)?;
    let op = *cx.sel.pick(ops(&ty));
    let tt = ty_text(cx.prog, &ty);
    let wraps = cx.wraps(0, false);
    let (head, tail, form) = match cx.sel.below(3) {
        0 => (format!("zf0 :: fn zx0: {} do", tt), "end".to_string(), "fn-def"),
        1 => (format!("zf0 :: fn zn0: int, zx0: {} -> int do", tt), "    zn0\nend".to_string(), "fn-def-2nd"),
        _ => (format!("for_each([{}], fn zx0: {} do", a, tt), "    ze0 :: 0\nend)".to_string(), "lambda-arg"),
    };
    let pieces = Pieces {
        head: both(head),
        pre_in: p2("zt0 := zx0", ""),
        core: p2(format!("zt0 {} {}", op, b), format!("zx0 {} {}", op, b)),
        tail: both(tail),
        ..Default::default()
    };
    Some(built_stmt(cx, site, &pieces, &wraps, "const-param", format!("own-{}:{}:{}", form, tt, op), "", wraps.len(), "impure-site", "Assignability"))
}

pub fn const_casebind_own(cx: &mut Cx) -> Option<Built> {
    let sites = cx.impure_sites();
    let site = cx.pick_idx(&sites)?;
    let ty = OWN_TYS[cx.sel.below(3)].clone();
    let (a, b) = lits(&ty)?;
    let op = *cx.sel.pick(ops(&ty));
    let wraps = cx.wraps(0, false);
    let pieces = Pieces {
        head: both(format!("case Maybe.Just {} do\n    Just zv0 ->", a)),
        pre_in: p2("    zt0 := zv0", ""),
        core: p2(format!("zt0 {} {}", op, b), format!("zv0 {} {}", op, b)),
        tail: both("        ze0 :: 0\n    end\n    else\n        zd0 :: 0\n    end\nend"),
        ..Default::default()
    };
    Some(built_stmt(cx, site, &pieces, &wraps, "const-casebind", format!("own:{}:{}", ty_text(cx.prog, &ty), op), "", wraps.len(), "impure-site", "Assignability"))
}

fn base_globals(prog: &Program, mutable: bool) -> Vec<VarId> {
    prog.globals.iter().filter(|g| g.mutable == mutable && prog.var(g.var).name != "start").map(|g| g.var).collect()
}

pub fn const_global(cx: &mut Cx) -> Option<Built> {
    let sites = cx.impure_sites();
    let site = cx.pick_idx(&sites)?;
    let d = cx.site(site).ctx.depth;
    let wraps = cx.wraps(d, false);
    let gs = base_globals(cx.prog, false);
    let pieces;
    let variant;
    if !gs.is_empty() && cx.sel.chance(1, 2) {
        let g = gs[cx.sel.below(gs.len())];
        let info = cx.prog.var(g).clone();
        let (bad, tpre, tcore, op) = assign_texts(cx.sel, &info.name, &info.ty, "zt0");
        pieces = Pieces { pre_out: p2(tpre, ""), core: p2(tcore, bad), ..Default::default() };
        variant = format!("base-{}:{}", if info.ty.is_fn() { "fn" } else { "value" }, op);
    } else {
        let (c, m, ty) = if cx.sel.chance(1, 3) { ("zcf", "zmf", Ty::Float) } else { ("zcg", "zmg", Ty::Int) };
        let op = *cx.sel.pick(ops(&ty));
        let b = lits(&ty)?.1;
        pieces = Pieces { core: p2(format!("{} {} {}", m, op, b), format!("{} {} {}", c, op, b)), ..Default::default() };
        variant = format!("planted:{}", op);
    }
    Some(built_stmt(cx, site, &pieces, &wraps, "const-global", variant, "", d + wraps.len(), "impure-site", "Assignability"))
}

pub fn const_import(cx: &mut Cx) -> Option<Built> {
    let sites = cx.impure_sites();
    let site = cx.pick_idx(&sites)?;
    let d = cx.site(site).ctx.depth;
    let wraps = cx.wraps(d, false);
    let imp = *cx.sel.pick(IMPS);
    let (c, m, ty) = if cx.sel.chance(1, 3) { ("zlf", "zlg", Ty::Float) } else { ("zlc", "zlm", Ty::Int) };
    let op = *cx.sel.pick(ops(&ty));
    let b = lits(&ty)?.1;
    let alias = cx.sel.chance(1, 4);
    let pieces = if alias {
        Pieces {
            pre_out: p2(format!("za0 := {}", imp.r("zlib", c)), format!("za0 :: {}", imp.r("zlib", c))),
            core: both(format!("za0 {} {}", op, b)),
            ..Default::default()
        }
    } else {
        Pieces { core: p2(format!("{} {} {}", imp.r("zlib", m), op, b), format!("{} {} {}", imp.r("zlib", c), op, b)), ..Default::default() }
    };
    let mut b = built_stmt(cx, site, &pieces, &wraps, "const-import", format!("{}{}:{}", imp.name(), if alias { "+alias" } else { "" }, op), "import", d + wraps.len(), "impure-site", "Assignability");
    b.prelude = V3::same(&format!("{}{}", imp.line("zlib", &[c, m]), STD_PRELUDE));
    b.other = Some((LIB_PATH.to_string(), V3::same(LIB_TEXT)));
    Some(b)
}

/// the generated program is the imported module; a small main assigns to one of its constants
pub fn const_import_base(cx: &mut Cx) -> Option<Built> {
    let gs = base_globals(cx.prog, false);
    if gs.is_empty() {
        return None;
    }
    let g = cx.prog.var(gs[cx.sel.below(gs.len())]).clone();
    let wraps = cx.wraps(0, false);
    let from = cx.sel.chance(1, 2);
    let (line, r) = if from { (format!("use zbase\nfrom zbase use {} as zh0\n", g.name), "zh0".to_string()) } else { ("use zbase\n".to_string(), format!("zbase.{}", g.name)) };
    let (bad, tpre, tcore, op) = assign_texts(cx.sel, &r, &g.ty, "zt0");
    let pieces = Pieces { pre_out: p2(tpre, ""), core: p2(tcore, bad), ..Default::default() };
    let body = assemble(&pieces, &wraps);
    let mk = |b: &str| format!("{}start :: fn do\n    zbase.start()\n{}\nend\n", line, ind(b));
    Some(Built {
        prog: cx.prog.clone(),
        stmt: V3::default(),
        expr: V3::default(),
        prelude: V3::default(),
        other: Some(("/p/main.sy".into(), V3 { base: mk(""), twin: mk(&body.twin), bad: mk(&body.bad) })),
        prog_path: "/p/zbase.sy".into(),
        main: "/p/main.sy".into(),
        kind: "const-import-base",
        variant: format!("{}:{}", if from { "from-as" } else { "ns" }, op),
        via: "import",
        nest: wraps.iter().map(|w| w.name()).collect(),
        depth: wraps.len(),
        placement: "FnBody".into(),
        mode: "import-main",
        expect: "Assignability",
        flat_stmt: None,
        flat_prelude: None,
    })
}

/// whole-value assignment to a constant blob is a violation, assignment to one of its fields is the legal twin
pub fn const_blob(cx: &mut Cx) -> Option<Built> {
    let sites = cx.impure_sites();
    let site = cx.pick_idx(&sites)?;
    let blobs = cx.scope_vars(site, |v| !v.mutable && v.kind != VarKind::SelfVar && matches!(&v.ty, Ty::Blob(_)));
    let choice = cx.sel.below(3);
    if choice == 2 && !blobs.is_empty() {
        let v = blobs[cx.sel.below(blobs.len())];
        let info = cx.prog.var(v).clone();
        if let Ty::Blob(bi) = &info.ty {
            let fields = &cx.prog.blobs[*bi].fields;
            if !fields.is_empty() {
                let f = &fields[cx.sel.below(fields.len())];
                let below = cx.site(site).ctx.depth.saturating_sub(*cx.sites.decl_depth.get(&v).unwrap_or(&0));
                let wraps = cx.wraps(below, false);
                let pieces = Pieces {
                    core: p2(format!("{}.{} = {}.{}", info.name, f.name, info.name, f.name), format!("{} = {}", info.name, info.name)),
                    ..Default::default()
                };
                return Some(built_stmt(cx, site, &pieces, &wraps, "const-blob", "scope".into(), "", below + wraps.len(), "impure-site", "Assignability"));
            }
        }
    }
    let fld = if cx.sel.chance(1, 2) { "f += 2" } else { "g /= 2.0" };
    if choice == 1 {
        let d = cx.site(site).ctx.depth;
        let wraps = cx.wraps(d, false);
        let pieces = Pieces { core: p2(format!("zbg.{}", fld), "zbg = Zb { f: 2, g: 2.5 }"), ..Default::default() };
        return Some(built_stmt(cx, site, &pieces, &wraps, "const-blob", "global".into(), "", d + wraps.len(), "impure-site", "Assignability"));
    }
    let wraps = cx.wraps(0, false);
    let pieces = Pieces { pre_out: both("zb0 :: Zb { f: 1, g: 1.5 }"), core: p2(format!("zb0.{}", fld), "zb0 = Zb { f: 2, g: 2.5 }"), ..Default::default() };
    Some(built_stmt(cx, site, &pieces, &wraps, "const-blob", "own".into(), "", wraps.len(), "impure-site", "Assignability"))
}

// ------------------------------------------------------------------------------------------ B kinds

pub struct Frame {
    pub mode: &'static str,
    pub site: Option<usize>,
    pub site_depth: usize,
    pub form: usize,
}

pub struct Inner {
    pub pre_out: P2,
    /// extra parameter text of the own pure function
    pub extra: P2,
    pub pre_in: P2,
    pub core: P2,
    pub variant: String,
    pub via: &'static str,
    pub import: Option<String>,
    pub expect: &'static str,
}
impl Inner {
    fn new(core: P2, variant: impl Into<String>, expect: &'static str) -> Inner {
        Inner { pre_out: P2::default(), extra: P2::default(), pre_in: P2::default(), core, variant: variant.into(), via: "", import: None, expect }
    }
}

pub fn frame(cx: &mut Cx) -> Option<Frame> {
    let pure = cx.pure_sites();
    let impure = cx.impure_sites();
    let m = cx.sel.below(8);
    if m < 3 && !pure.is_empty() {
        let site = cx.pick_idx(&pure)?;
        let d = cx.site(site).ctx.pure_depth;
        return Some(Frame { mode: "base-pure", site: Some(site), site_depth: d, form: 0 });
    }
    if m == 7 {
        return Some(Frame { mode: "own-global-pu", site: None, site_depth: 0, form: 0 });
    }
    let site = cx.pick_idx(&impure)?;
    let form = cx.sel.below(3);
    Some(Frame { mode: "own-pu", site: Some(site), site_depth: 0, form })
}

fn own_head_tail(form: usize, extra: &P2) -> (P2, P2) {
    match form {
        1 if extra.twin.is_empty() && extra.bad.is_empty() => (both("zw0 :: map([1], pu zx0: int -> int do"), both("    zx0\nend)")),
        2 => (
            p2(format!("zp0 :: pu zx0: int{} -> int do", extra.twin), format!("zp0 :: pu zx0: int{} -> int do", extra.bad)),
            both("    ret zx0\nend"),
        ),
        _ => (
            p2(format!("zp0 :: pu zx0: int{} -> int do", extra.twin), format!("zp0 :: pu zx0: int{} -> int do", extra.bad)),
            both("    zx0\nend"),
        ),
    }
}

pub fn finish_pure(cx: &mut Cx, fr: &Frame, inner: Inner, kind: &'static str) -> Option<Built> {
    let wraps = cx.wraps(fr.site_depth, true);
    let depth = fr.site_depth + wraps.len();
    let nest: Vec<&'static str> = wraps.iter().map(|w| w.name()).collect();
    let mut prelude = match &inner.import {
        Some(line) => V3::same(&format!("{}{}", line, STD_PRELUDE)),
        None => std_prelude(),
    };
    let other = inner.import.as_ref().map(|_| (LIB_PATH.to_string(), V3::same(LIB_TEXT)));
    let mut flat_stmt = None;
    let mut flat_prelude = None;
    let (prog, stmt, placement) = match fr.mode {
        "base-pure" => {
            let pieces = Pieces { pre_in: inner.pre_in.clone(), core: inner.core.clone(), ..Default::default() };
            flat_stmt = Some(assemble(&pieces, &[]));
            cx.finish_stmt(fr.site?, &pieces, &wraps)
        }
        "own-pu" => {
            let (head, tail) = own_head_tail(fr.form, &inner.extra);
            let pieces = Pieces { pre_out: inner.pre_out.clone(), head, pre_in: inner.pre_in.clone(), core: inner.core.clone(), tail };
            flat_stmt = Some(assemble(&pieces, &[]));
            cx.finish_stmt(fr.site?, &pieces, &wraps)
        }
        _ => {
            let (head, tail) = own_head_tail(0, &inner.extra);
            let pieces = Pieces { pre_out: P2::default(), head, pre_in: inner.pre_in.clone(), core: inner.core.clone(), tail };
            let v = assemble(&pieces, &wraps);
            let f = assemble(&pieces, &[]);
            flat_prelude = Some(V3 { base: prelude.base.clone(), twin: format!("{}{}\n", prelude.twin, f.twin), bad: format!("{}{}\n", prelude.bad, f.bad) });
            prelude.twin = format!("{}{}\n", prelude.twin, v.twin);
            prelude.bad = format!("{}{}\n", prelude.bad, v.bad);
            (cx.prog.clone(), V3::default(), "GlobalPu".to_string())
        }
    };
    Some(Built {
        prog,
        stmt,
        expr: V3::default(),
        prelude,
        other,
        prog_path: "/p/main.sy".into(),
        main: "/p/main.sy".into(),
        kind,
        variant: inner.variant,
        via: inner.via,
        nest,
        depth,
        placement,
        mode: fr.mode,
        expect: inner.expect,
        flat_stmt,
        flat_prelude,
    })
}

fn scope_mutables(cx: &Cx, fr: &Frame) -> Vec<VarId> {
    match (fr.mode, fr.site) {
        ("base-pure", Some(s)) => cx.scope_vars(s, |v| v.mutable && v.kind != VarKind::SelfVar),
        _ => Vec::new(),
    }
}

fn import_of(cx: &mut Cx, names: &[&str]) -> (Imp, String) {
    let imp = *cx.sel.pick(IMPS);
    (imp, imp.line("zlib", names))
}

pub fn pure_assign(cx: &mut Cx, fr: &Frame) -> Option<Inner> {
    let iop = *cx.sel.pick(ops(&Ty::Int));
    let fop = *cx.sel.pick(ops(&Ty::Float));
    let sm = scope_mutables(cx, fr);
    let mg = base_globals(cx.prog, true);
    let e = "Exotic";
    Some(match cx.sel.below(7) {
        1 => Inner::new(p2("zt0 :: 2.5", format!("zmf {} 2.5", fop)), format!("global-float:{}", fop), e),
        2 if fr.mode == "own-pu" => {
            let mut i = Inner::new(p2("zt0 :: 2", format!("zm0 {} 2", iop)), format!("outer-local:{}", iop), e);
            i.pre_out = both("zm0 := 1");
            i
        }
        2 | 6 if !sm.is_empty() => {
            let n = cx.prog.var(sm[cx.sel.below(sm.len())]).name.clone();
            Inner::new(p2("zt0 :: 0", format!("{} = {}", n, n)), "scope-mutable:=self", e)
        }
        3 => Inner::new(p2("zt0 :: zbg.f", format!("zbg.f {} 2", iop)), format!("field-of-const-global:{}", iop), e),
        4 => {
            let mut i = Inner::new(p2("zt0 :: zb0.f", format!("zb0.f {} 2", iop)), format!("field-of-own-const:{}", iop), e);
            i.pre_in = both("zb0 :: Zb { f: 1, g: 1.5 }");
            i
        }
        5 if !mg.is_empty() => {
            let n = cx.prog.var(mg[cx.sel.below(mg.len())]).name.clone();
            Inner::new(p2("zt0 :: 0", format!("{} = {}", n, n)), "base-global:=self", e)
        }
        5 | 6 => {
            let (imp, line) = import_of(cx, &["zlc", "zlm"]);
            let mut i = Inner::new(p2(format!("zt0 :: {}", imp.r("zlib", "zlc")), format!("{} {} 2", imp.r("zlib", "zlm"), iop)), format!("import-{}:{}", imp.name(), iop), e);
            i.import = Some(line);
            i.via = "import";
            i
        }
        _ => Inner::new(p2("zt0 :: 2", format!("zmg {} 2", iop)), format!("global:{}", iop), e),
    })
}

pub fn pure_mutdef(cx: &mut Cx, fr: &Frame) -> Option<Inner> {
    let e = "Impurity";
    let own = fr.mode != "base-pure";
    let pairs: &[(&str, &str, &str)] = &[
        ("zd0 :: 1", "zd0 := 1", "plain"),
        ("zd0: int : 1", "zd0: int = 1", "annotated"),
        ("zd0 :: zcg", "zd0 := zcg", "from-const"),
        ("zd0 :: pu do end", "zd0 := pu do end", "fn-value"),
        ("zd0 :: (1, 2.5)", "zd0 := (1, 2.5)", "tuple"),
        ("zd0: str : \"a\"", "zd0: str = \"a\"", "annotated-str"),
        ("zd0 :: zx0", "zd0 := zx0", "from-param"),
        ("zd0 :: [1]", "zd0 := [1]", "list"),
    ];
    let mut k = cx.sel.below(pairs.len());
    if k == 6 && !own {
        k = 0;
    }
    let (t, b, n) = pairs[k];
    Some(Inner::new(p2(t, b), n, e))
}

/// contexts in which an int-valued expression X can be read
fn read_ctx(sel: &mut Sel, x: &str) -> (String, &'static str) {
    match sel.below(13) {
        1 => (format!("zr0 :: {} + 1", x), "operand"),
        2 => (format!("if {} > 0 do\n    zu0 :: 0\nend", x), "condition"),
        3 => (format!("zr0 :: as_str({})", x), "std-argument"),
        4 => (format!("zr0 :: ({}, 1)", x), "tuple-element"),
        5 => (format!("zr0 :: [{}]", x), "list-element"),
        6 => (format!("{}\nzu0 :: 0", x), "expression-statement"),
        7 => (format!("zr0 :: zpg({})", x), "argument"),
        8 => (format!("zr0 :: Zb {{ f: {}, g: 1.5 }}", x), "field-init"),
        9 => (format!("zr0 :: if {} > 0 do 1 else 2 end", x), "if-expr-condition"),
        10 => (format!("zr0 :: {} == 1", x), "comparison"),
        11 => (format!("zr0 :: -{}", x), "negation"),
        12 => (format!("zr0 :: pu zy0: int -> int do zy0 + {} end", x), "lambda-body"),
        _ => (format!("zr0 :: {}", x), "def-value"),
    }
}

pub fn pure_read(cx: &mut Cx, fr: &Frame) -> Option<Inner> {
    let e = "Impurity";
    let sm = scope_mutables(cx, fr);
    let mg = base_globals(cx.prog, true);
    let src = cx.sel.below(7);
    // sources whose type is arbitrary: plain definition only
    if (src == 4 || (src == 1 && fr.mode == "base-pure")) && !sm.is_empty() {
        let n = cx.prog.var(sm[cx.sel.below(sm.len())]).name.clone();
        return Some(Inner::new(p2("zr0 :: 0", format!("zr0 :: {}", n)), "scope-mutable:def-value", e));
    }
    if src == 6 && !mg.is_empty() {
        let n = cx.prog.var(mg[cx.sel.below(mg.len())]).name.clone();
        return Some(Inner::new(p2("zr0 :: 0", format!("zr0 :: {}", n)), "base-global:def-value", e));
    }
    let mut pre_out = P2::default();
    let mut import = None;
    let mut via = "";
    let (m, c, sname): (String, String, String) = match src {
        1 if fr.mode == "own-pu" => {
            pre_out = p2("zm0 :: 1", "zm0 := 1");
            ("zm0".into(), "zm0".into(), "outer-local".into())
        }
        2 => ("zmb.f".into(), "zbg.f".into(), "field-of-mutable-global".into()),
        3 | 6 => {
            let (imp, line) = import_of(cx, &["zlc", "zlm"]);
            import = Some(line);
            via = "import";
            (imp.r("zlib", "zlm"), imp.r("zlib", "zlc"), format!("import-{}", imp.name()))
        }
        5 => {
            let (t, cn) = if cx.sel.chance(1, 2) { ("zr0 :: {} * 2.0", "float-operand") } else { ("zr0 :: {}", "float-def") };
            let mut i = Inner::new(p2(t.replace("{}", "zcf"), t.replace("{}", "zmf")), format!("global-float:{}", cn), e);
            i.via = "";
            return Some(i);
        }
        _ => ("zmg".into(), "zcg".into(), "global".into()),
    };
    let mut s2 = Sel { b: vec![cx.sel.byte()], i: 0 };
    let (bad, cn) = read_ctx(&mut s2, &m);
    s2.i = 0;
    let (twin, _) = read_ctx(&mut s2, &c);
    let mut i = Inner::new(p2(twin, bad), format!("{}:{}", sname, cn), e);
    i.pre_out = pre_out;
    i.import = import;
    i.via = via;
    Some(i)
}

pub fn pure_call(cx: &mut Cx, fr: &Frame) -> Option<Inner> {
    let e = "Impurity";
    let own_param_ok = fr.mode != "base-pure" && fr.form != 1;
    Some(match cx.sel.below(16) {
        1 => Inner::new(p2("zr0 :: zpg(1)\nzu0 :: 0", "zig()\nzu0 :: 0"), "planted-void-fn", e),
        2 => Inner::new(p2("zr0 :: zpg(1)", "zr0 :: zig2(1)"), "planted-fn", e),
        3 if own_param_ok => {
            let mut i = Inner::new(both("zr0 :: zh0(1)"), "fn-typed-parameter", e);
            i.extra = p2(", zh0: (pu int -> int)", ", zh0: (fn int -> int)");
            i
        }
        4 => {
            let mut i = Inner::new(both("zr0 :: zk0(1)"), "local-fn-closure", e);
            i.pre_in = p2("zk0 :: pu zy0: int -> int do zy0 end", "zk0 :: fn zy0: int -> int do zy0 end");
            i
        }
        5 => {
            let mut i = Inner::new(both("zr0 :: za0(1)"), "alias-of-impure", e);
            i.pre_in = p2("za0 :: zpg", "za0 :: zig2");
            i.via = "alias";
            i
        }
        6 => Inner::new(p2("zr0 :: (pu zy0: int -> int do zy0 end)(1)", "zr0 :: (fn zy0: int -> int do zy0 end)(1)"), "immediate-lambda", e),
        7 => Inner::new(p2("zr0 :: list.get([1], 0)", "zr0 :: list.len([1])"), "std-list-len", e),
        8 => Inner::new(p2("zr0 :: cos(1.0)", "zr0 :: random()"), "std-random", e),
        9 => {
            let (imp, line) = import_of(cx, &["zlp", "zli"]);
            let mut i = Inner::new(p2(format!("zr0 :: {}(1)", imp.r("zlib", "zlp")), format!("zr0 :: {}(1)", imp.r("zlib", "zli"))), format!("import-{}", imp.name()), e);
            i.import = Some(line);
            i.via = "import";
            i
        }
        10 => Inner::new(p2("zr0 :: zfb.h(1)", "zr0 :: zfb.g(1)"), "blob-field-fn", e),
        11 => Inner::new(p2("zr0 :: zpg' 1", "zr0 :: zig2' 1"), "prime-call", e),
        12 => Inner::new(p2("zr0 :: 1 -> zpg()", "zr0 :: 1 -> zig2()"), "arrow-call", e),
        13 => Inner::new(p2("zr0 :: zpg(zpg(1))", "zr0 :: zpg(zig2(1))"), "nested-argument", e),
        14 => Inner::new(p2("zr0 :: [1]\nzu0 :: 0", "list.push([1], 2)\nzu0 :: 0"), "std-list-push", e),
        15 | 3 => {
            // an impure function-typed variable of the base program visible at the site
            let fns: Vec<VarId> = match (fr.mode, fr.site) {
                ("base-pure", Some(s)) => cx.scope_vars(s, |v| match &v.ty {
                    Ty::Fn(ps, _, false) => ps.iter().all(|t| lits(t).is_some()) && v.kind != VarKind::SelfVar,
                    _ => false,
                }),
                _ => Vec::new(),
            };
            if fns.is_empty() {
                Inner::new(p2("zr0 :: zpg(1)", "zr0 :: zig2(1)"), "planted-fn", e)
            } else {
                let info = cx.prog.var(fns[cx.sel.below(fns.len())]).clone();
                let args = match &info.ty {
                    Ty::Fn(ps, _, _) => ps.iter().map(|t| lits(t).unwrap().0).collect::<Vec<_>>().join(", "),
                    _ => String::new(),
                };
                Inner::new(p2("as_str(1)\nzu0 :: 0", format!("{}({})\nzu0 :: 0", info.name, args)), format!("scope-{:?}", info.kind), e)
            }
        }
        _ => Inner::new(p2("as_str(1)\nzu0 :: 0", "print(1)\nzu0 :: 0"), "print", e),
    })
}

/// read of a mutable / call of an impure function planted at an int-typed *expression* site of a pure function
pub fn pure_expr(cx: &mut Cx, call: bool) -> Option<Built> {
    let cands: Vec<usize> = (0..cx.sites.es.len()).filter(|i| cx.sites.es[*i].ctx.in_pure && cx.sites.es[*i].ty == Ty::Int).collect();
    let k = cx.pick_idx(&cands)?;
    let site = cx.sites.es[k].clone();
    let prog = plant::replace_expr(cx.prog, k, e(Ty::Int, EKind::Raw(EMARK.to_string())));
    let (twin, bad, variant) = if call {
        match cx.sel.below(3) {
            1 => ("zfb.h(1)", "zfb.g(1)", "expr-site:blob-field-fn"),
            2 => ("zpg(1)", "list.len([1])", "expr-site:std-list-len"),
            _ => ("zpg(1)", "zig2(1)", "expr-site:planted-fn"),
        }
    } else {
        match cx.sel.below(2) {
            1 => ("zbg.f", "zmb.f", "expr-site:field-of-mutable-global"),
            _ => ("zcg", "zmg", "expr-site:global"),
        }
    };
    Some(Built {
        prog,
        stmt: V3::default(),
        expr: V3 { base: "0".into(), twin: twin.into(), bad: bad.into() },
        prelude: std_prelude(),
        other: None,
        prog_path: "/p/main.sy".into(),
        main: "/p/main.sy".into(),
        kind: if call { "pure-call" } else { "pure-read" },
        variant: variant.into(),
        via: "",
        nest: Vec::new(),
        depth: site.ctx.pure_depth,
        placement: placement_name(site.ctx.placement),
        mode: "base-pure",
        expect: "Impurity",
        flat_stmt: None,
        flat_prelude: None,
    })
}

// ------------------------------------------------------------------------------------------ C kinds

fn any_site(cx: &mut Cx) -> Option<(usize, bool, usize)> {
    let all: Vec<usize> = (0..cx.sites.ss.len()).collect();
    let s = cx.pick_idx(&all)?;
    let c = &cx.site(s).ctx;
    Some((s, c.in_pure, c.depth))
}

pub fn pu_type(cx: &mut Cx, which: usize) -> Option<Built> {
    let (site, pure, d) = any_site(cx)?;
    let wraps = cx.wraps(d, pure);
    let (ty, f, p, _args) = *cx.sel.pick(SIGS);
    let fii = SIGS[0].1;
    let pii = SIGS[0].2;
    let (kind, variant, pieces): (&'static str, String, Pieces) = match which {
        0 => match cx.sel.below(4) {
            1 if !pure => ("pu-var", "mutable-def".into(), Pieces { core: p2(format!("zh0: {} = {}", ty, p), format!("zh0: {} = {}", ty, f)), ..Default::default() }),
            2 => (
                "pu-var",
                "named-local-fn".into(),
                Pieces { pre_out: p2(format!("zk0 :: {}", p), format!("zk0 :: {}", f)), core: both(format!("zh0: {} : zk0", ty)), ..Default::default() },
            ),
            3 => ("pu-var", "named-global-fn".into(), Pieces { core: p2("zh0: pu int -> int : zpg", "zh0: pu int -> int : zig2"), ..Default::default() }),
            _ => ("pu-var", "const-def".into(), Pieces { core: p2(format!("zh0: {} : {}", ty, p), format!("zh0: {} : {}", ty, f)), ..Default::default() }),
        },
        1 => {
            let kw = if pure || cx.sel.chance(1, 3) { "pu" } else { "fn" };
            let second = cx.sel.chance(1, 3);
            let (decl, call_t, call_b) = if second {
                (format!("zq0 :: {} zn0: int, zg0: ({}) -> int do\n    zn0\nend", kw, ty), format!("zr0 :: zq0(1, {})", p), format!("zr0 :: zq0(1, {})", f))
            } else {
                (format!("zq0 :: {} zg0: ({}) -> int do\n    1\nend", kw, ty), format!("zr0 :: zq0({})", p), format!("zr0 :: zq0({})", f))
            };
            ("pu-param", format!("{}-receiver{}", kw, if second { "-2nd" } else { "" }), Pieces { pre_out: both(decl), core: p2(call_t, call_b), ..Default::default() })
        }
        2 => (
            "pu-field",
            "instantiation".into(),
            Pieces { core: p2(format!("zb0 :: Zfb {{ g: {}, h: {} }}", fii, pii), format!("zb0 :: Zfb {{ g: {}, h: {} }}", fii, fii)), ..Default::default() },
        ),
        3 => {
            let (t, b, n) = match cx.sel.below(3) {
                1 => (format!("[{}]", p), format!("[{}]", f), "single"),
                2 => (format!("[{}, {}]", p, p), format!("[{}, {}]", f, p), "first"),
                _ => (format!("[{}, {}]", p, p), format!("[{}, {}]", p, f), "second"),
            };
            ("pu-list", n.into(), Pieces { core: p2(format!("zl0: [{}] : {}", ty, t), format!("zl0: [{}] : {}", ty, b)), ..Default::default() })
        }
        _ => match cx.sel.below(6) {
            1 if !pure => (
                "pu-other",
                "assignment".into(),
                Pieces { pre_out: both(format!("zh0: {} = {}", ty, p)), core: p2(format!("zh0 = {}", p), format!("zh0 = {}", f)), ..Default::default() },
            ),
            2 if !pure => (
                "pu-other",
                "field-assignment".into(),
                Pieces {
                    pre_out: both(format!("zb0 :: Zfb {{ g: {}, h: {} }}", fii, pii)),
                    core: p2(format!("zb0.h = {}", pii), format!("zb0.h = {}", fii)),
                    ..Default::default()
                },
            ),
            3 => ("pu-other", "std-map-arg".into(), Pieces { core: p2(format!("zw0 :: map([1], {})", pii), format!("zw0 :: map([1], {})", fii)), ..Default::default() }),
            4 => (
                "pu-other",
                "std-filter-arg".into(),
                Pieces {
                    core: p2("zw0 :: filter([1], pu zy: int -> bool do zy > 0 end)", "zw0 :: filter([1], fn zy: int -> bool do zy > 0 end)"),
                    ..Default::default()
                },
            ),
            5 => ("pu-other", "tuple-element".into(), Pieces { core: p2(format!("zt0: (int, {}) : (1, {})", ty, p), format!("zt0: (int, {}) : (1, {})", ty, f)), ..Default::default() }),
            _ => (
                "pu-other",
                "return-type".into(),
                Pieces { core: p2(format!("zq0 :: fn -> ({}) do\n    ret {}\nend", ty, p), format!("zq0 :: fn -> ({}) do\n    ret {}\nend", ty, f)), ..Default::default() },
            ),
        },
    };
    let mode = if pure { "base-pure" } else { "impure-site" };
    Some(built_stmt(cx, site, &pieces, &wraps, kind, variant, "", d + wraps.len(), mode, "Impurity"))
}

/// a `pu` lambda argument of the base program (declared `pu` parameter of a user function or of map/filter/fold)
/// replaced by an `fn` lambda of the same signature
pub fn pu_base_arg(cx: &mut Cx) -> Option<Built> {
    fn default_of(t: &Ty) -> Option<String> {
        if *t == Ty::Void {
            return Some(String::new());
        }
        lits(t).map(|x| x.0)
    }
    let cands: Vec<usize> = (0..cx.sites.es.len())
        .filter(|i| {
            let s = &cx.sites.es[*i];
            s.ctx.placement == plant::Placement::Argument
                && match &s.ty {
                    Ty::Fn(ps, r, true) => ps.iter().all(|t| lits(t).is_some()) && default_of(r).is_some(),
                    _ => false,
                }
        })
        .collect();
    let k = cx.pick_idx(&cands)?;
    let site = cx.sites.es[k].clone();
    let (ps, r) = match &site.ty {
        Ty::Fn(ps, r, _) => (ps.clone(), (**r).clone()),
        _ => return None,
    };
    let params: Vec<String> = ps.iter().enumerate().map(|(i, t)| format!("zy{}: {}", i, ty_text(cx.prog, t))).collect();
    let lit = |kw: &str| {
        if r == Ty::Void {
            format!("{} {} do\n    zu0 :: 0\nend", kw, params.join(", "))
        } else {
            format!("{} {} -> {} do\n    {}\nend", kw, params.join(", "), ty_text(cx.prog, &r), default_of(&r).unwrap())
        }
    };
    let prog = plant::replace_expr(cx.prog, k, e(site.ty.clone(), EKind::Raw(EMARK.to_string())));
    Some(Built {
        prog,
        stmt: V3::default(),
        expr: V3 { base: lit("pu"), twin: lit("pu"), bad: lit("fn") },
        prelude: std_prelude(),
        other: None,
        prog_path: "/p/main.sy".into(),
        main: "/p/main.sy".into(),
        kind: "pu-param",
        variant: "base-argument".into(),
        via: "",
        nest: Vec::new(),
        depth: site.ctx.depth,
        placement: placement_name(site.ctx.placement),
        mode: if site.ctx.in_pure { "base-pure" } else { "impure-site" },
        expect: "Impurity",
        flat_stmt: None,
        flat_prelude: None,
    })
}

/// known finding: an `fn` annotation has undefined purity and lets an impure function through to a `pu` type
pub fn pu_launder(cx: &mut Cx) -> Option<Built> {
    let fii = SIGS[0].1;
    let pii = SIGS[0].2;
    match cx.sel.below(3) {
        2 => {
            let fr = frame(cx)?;
            let mut i = Inner::new(both("zr0 :: zb0(1)"), "call-in-pure", "Impurity");
            i.pre_in = p2("za0: fn int -> int : zpg\nzb0: pu int -> int : za0", "za0: fn int -> int : zig2\nzb0: pu int -> int : za0");
            finish_pure(cx, &fr, i, "pu-launder")
        }
        w => {
            let (site, pure, d) = any_site(cx)?;
            let wraps = cx.wraps(d, pure);
            let (variant, pieces) = if w == 0 {
                (
                    "local-alias",
                    Pieces {
                        pre_out: p2(format!("zk0 :: {}\nzg0: fn int -> int : zk0", pii), format!("zk0 :: {}\nzg0: fn int -> int : zk0", fii)),
                        core: both("zh0: pu int -> int : zg0"),
                        ..Default::default()
                    },
                )
            } else {
                (
                    "parameter",
                    Pieces {
                        pre_out: both("zq0 :: pu zg0: (fn int -> int) -> int do\n    zh0: pu int -> int : zg0\n    zh0(1)\nend"),
                        core: p2(format!("zr0 :: zq0({})", pii), format!("zr0 :: zq0({})", fii)),
                        ..Default::default()
                    },
                )
            };
            Some(built_stmt(cx, site, &pieces, &wraps, "pu-launder", variant.into(), "alias", d + wraps.len(), if pure { "base-pure" } else { "impure-site" }, "Impurity"))
        }
    }
}

// ------------------------------------------------------------------------------------------ dispatcher

pub const KINDS: &[&str] = &[
    "const-own",
    "const-alias",
    "const-local",
    "const-param",
    "const-casebind",
    "const-global",
    "const-import",
    "const-import-base",
    "const-blob",
    "pure-assign",
    "pure-mutdef",
    "pure-read",
    "pure-call",
    "pu-var",
    "pu-param",
    "pu-field",
    "pu-list",
    "pu-other",
];

pub fn build(sel: &mut Sel, prog: &Program, raw: bool) -> Option<Built> {
    let sites = collect(prog);
    let want_depth = sel.below(5);
    let mut cx = Cx { sel, prog, sites, want_depth };
    let w: [u32; 22] = [6, 7, 7, 8, 7, 6, 6, 4, 5, 9, 8, 10, 11, 3, 3, 4, 4, 4, 4, 5, 2, if raw { 14 } else { 0 }];
    let k = cx.sel.weighted(&w);
    let own_first = cx.sel.chance(1, 3);
    let b = match k {
        0 => const_own(&mut cx),
        1 => const_alias(&mut cx),
        2 => const_scope(&mut cx, VarKind::Local, "const-local"),
        3 => {
            if own_first {
                const_param_own(&mut cx)
            } else {
                const_scope(&mut cx, VarKind::Param, "const-param").or_else(|| const_param_own(&mut cx))
            }
        }
        4 => {
            if own_first {
                const_casebind_own(&mut cx)
            } else {
                const_scope(&mut cx, VarKind::CaseBind, "const-casebind").or_else(|| const_casebind_own(&mut cx))
            }
        }
        5 => const_global(&mut cx),
        6 => const_import(&mut cx),
        7 => const_import_base(&mut cx).or_else(|| const_import(&mut cx)),
        8 => const_blob(&mut cx),
        9 | 10 | 11 | 12 => match frame(&mut cx) {
            Some(fr) => {
                let inner = match k {
                    9 => pure_assign(&mut cx, &fr),
                    10 => pure_mutdef(&mut cx, &fr),
                    11 => pure_read(&mut cx, &fr),
                    _ => pure_call(&mut cx, &fr),
                };
                let kind = ["pure-assign", "pure-mutdef", "pure-read", "pure-call"][k - 9];
                inner.and_then(|i| finish_pure(&mut cx, &fr, i, kind))
            }
            None => None,
        },
        13 | 14 => {
            let call = k == 14;
            pure_expr(&mut cx, call).or_else(|| match frame(&mut cx) {
                Some(fr) => {
                    let inner = if call { pure_call(&mut cx, &fr) } else { pure_read(&mut cx, &fr) };
                    inner.and_then(|i| finish_pure(&mut cx, &fr, i, if call { "pure-call" } else { "pure-read" }))
                }
                None => None,
            })
        }
        15 | 16 | 17 | 18 | 19 => pu_type(&mut cx, k - 15),
        20 => pu_base_arg(&mut cx).or_else(|| pu_type(&mut cx, 1)),
        _ => pu_launder(&mut cx),
    };
    match b {
        Some(b) => Some(b),
        None => const_own(&mut cx),
    }
}
