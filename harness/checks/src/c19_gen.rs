//! C19 helper: generation of (nested) types and biased value pairs/triples from the choice tape, and the
//! structural simplification steps.
use super::model::*;
use vcore::Tape;

pub const INT_POOL: &[i64] = &[0, 1, -1, 2, 3, 5, 7, 10, -10, 100, 255, -256, 1000, 65536, 2147483647, -2147483648];
pub const BIG_INTS: &[i64] = &[9007199254740993, 9007199254740992, -9007199254740993, 4611686018427387904];
pub const FLOAT_POOL: &[&str] = &[
    "0.0", "-0.0", "1.0", "-1.0", "0.5", "1.5", "2.5", "-2.5", "0.1", "0.25", "3.0", "10.0", "100.0", "0.001", "1000000.0", "-0.75", "9007199254740992.0",
];
pub const STR_POOL: &[&str] = &["", "a", "ab", "abc", "b", "B", "a b", "z", "é", "éa", "日本", "日", "ß", "0", "10", "9", "1", " ", "aa", "Z"];

#[derive(Clone, Copy, PartialEq)]
pub enum Profile {
    /// numbers and tuples of numbers: every arithmetic operator applies
    Arith,
    /// numbers, strings and tuples of them: every comparison applies
    Ord,
    /// everything (lists, blobs, enums, bools): equality
    Any,
}

pub struct G<'a, 'b, 'c> {
    pub t: &'c mut Tape<'a, 'b>,
    pub next_id: u32,
}

impl<'a, 'b, 'c> G<'a, 'b, 'c> {
    fn leaf_ty(&mut self, p: Profile) -> Ty {
        match p {
            Profile::Arith => [Ty::Int, Ty::Float][self.t.weighted(&[5, 5])].clone(),
            Profile::Ord => [Ty::Int, Ty::Float, Ty::Str][self.t.weighted(&[4, 3, 4])].clone(),
            Profile::Any => [Ty::Int, Ty::Float, Ty::Str, Ty::Bool][self.t.weighted(&[4, 3, 3, 2])].clone(),
        }
    }
    fn tuple_ty(&mut self, depth: usize, p: Profile) -> Ty {
        let n = self.t.weighted(&[8, 12, 35, 30, 15]);
        Ty::Tuple((0..n).map(|_| self.ty(depth - 1, p, false)).collect())
    }
    /// a type of nesting depth <= depth
    pub fn ty(&mut self, depth: usize, p: Profile, root: bool) -> Ty {
        if depth == 0 {
            return self.leaf_ty(p);
        }
        let composite = if root { self.t.chance(23, 25) } else { self.t.chance(11, 20) };
        if !composite {
            return self.leaf_ty(p);
        }
        if p != Profile::Any {
            return self.tuple_ty(depth, p);
        }
        match self.t.weighted(&[40, 20, 20, 20]) {
            0 => self.tuple_ty(depth, p),
            1 => Ty::List(Box::new(self.ty(depth - 1, p, false))),
            2 => {
                let n = self.t.weighted(&[5, 30, 40, 25]);
                let id = self.next_id;
                self.next_id += 1;
                Ty::Blob(id, (0..n).map(|_| self.ty(depth - 1, p, false)).collect())
            }
            _ => {
                let n = 1 + self.t.weighted(&[20, 45, 35]);
                let id = self.next_id;
                self.next_id += 1;
                let vs = (0..n).map(|_| if self.t.chance(3, 5) { Some(self.ty(depth - 1, p, false)) } else { None }).collect();
                Ty::Enum(id, vs)
            }
        }
    }

    fn int(&mut self, big_ok: bool) -> i64 {
        if big_ok && self.t.chance(1, 12) {
            *self.t.pick(BIG_INTS)
        } else {
            *self.t.pick(INT_POOL)
        }
    }

    pub fn val(&mut self, ty: &Ty, big_ok: bool) -> Val {
        match ty {
            Ty::Int => Val::Int(self.int(big_ok)),
            Ty::Float => Val::Float(self.t.pick(FLOAT_POOL).to_string()),
            Ty::Str => Val::Str(self.t.pick(STR_POOL).to_string()),
            Ty::Bool => Val::Bool(self.t.bool()),
            Ty::Tuple(ts) => Val::Tuple(ts.iter().map(|t| self.val(t, big_ok)).collect()),
            Ty::List(t) => {
                let n = self.t.weighted(&[15, 20, 35, 30]);
                Val::List((0..n).map(|_| self.val(t, false)).collect())
            }
            Ty::Blob(_, fs) => {
                let fields = fs.iter().map(|t| self.val(t, false)).collect();
                Val::Blob { fields, rev: self.t.chance(1, 3) }
            }
            Ty::Enum(_, vs) => {
                let i = self.t.below(vs.len());
                Val::Variant(i, vs[i].as_ref().map(|t| Box::new(self.val(t, false))))
            }
        }
    }

    fn late_index(&mut self, n: usize) -> usize {
        // biased towards the last positions
        let w: Vec<u32> = (0..n).map(|i| (n - i) as u32).collect(); // index 0 of the weights = last position
        n - 1 - self.t.weighted(&w)
    }

    /// one local change, preferably late in the value
    pub fn mutate(&mut self, v: &Val, ty: &Ty) -> Val {
        match (v, ty) {
            (Val::Int(i), _) => match self.t.below(4) {
                0 => Val::Int(i.wrapping_add(1)),
                1 => Val::Int(i.wrapping_sub(1)),
                2 => Val::Int(i.checked_neg().unwrap_or(0)),
                _ => Val::Int(self.int(false)),
            },
            (Val::Float(s), _) => {
                if s == "0.0" && self.t.chance(2, 3) {
                    Val::Float("-0.0".into())
                } else if s == "-0.0" && self.t.chance(2, 3) {
                    Val::Float("0.0".into())
                } else if self.t.bool() {
                    Val::Float(self.t.pick(FLOAT_POOL).to_string())
                } else if let Some(r) = s.strip_prefix('-') {
                    Val::Float(r.to_string())
                } else {
                    Val::Float(format!("-{}", s))
                }
            }
            (Val::Str(s), _) => match self.t.below(4) {
                0 => Val::Str(format!("{}{}", s, self.t.pick(&["a", "b", "é", " ", "0"]))),
                1 => {
                    let mut c: Vec<char> = s.chars().collect();
                    c.pop();
                    Val::Str(c.into_iter().collect())
                }
                2 => Val::Str(format!("{}{}", self.t.pick(&["a", "é", "Z"]), s)),
                _ => Val::Str(self.t.pick(STR_POOL).to_string()),
            },
            (Val::Bool(b), _) => Val::Bool(!b),
            (Val::Tuple(vs), Ty::Tuple(ts)) => {
                if vs.is_empty() {
                    return v.clone();
                }
                let k = self.late_index(vs.len());
                let mut out = vs.clone();
                out[k] = self.mutate(&vs[k], &ts[k]);
                Val::Tuple(out)
            }
            (Val::List(vs), Ty::List(t)) => {
                let mut out = vs.clone();
                let choice = if vs.is_empty() { 1 } else { self.t.weighted(&[5, 3, 3, 1]) };
                match choice {
                    0 => {
                        let k = self.late_index(vs.len());
                        out[k] = self.mutate(&vs[k], t);
                    }
                    1 => {
                        // a longer list with an equal prefix
                        let e = if !vs.is_empty() && self.t.bool() { vs[vs.len() - 1].clone() } else { self.val(t, false) };
                        out.push(e);
                    }
                    2 => {
                        out.pop();
                    }
                    _ => out.clear(),
                }
                Val::List(out)
            }
            (Val::Blob { fields, rev }, Ty::Blob(_, fs)) => {
                if fields.is_empty() || self.t.chance(1, 5) {
                    return Val::Blob { fields: fields.clone(), rev: !rev };
                }
                let k = self.late_index(fields.len());
                let mut out = fields.clone();
                out[k] = self.mutate(&fields[k], &fs[k]);
                Val::Blob { fields: out, rev: *rev }
            }
            (Val::Variant(i, p), Ty::Enum(_, vs)) => match (p, &vs[*i]) {
                (Some(p), Some(t)) if self.t.chance(2, 3) => Val::Variant(*i, Some(Box::new(self.mutate(p, t)))),
                _ => self.val(ty, false),
            },
            _ => v.clone(),
        }
    }

    /// exchange two components of equal type somewhere in the value (first tuple that has such a pair)
    pub fn swap(&mut self, v: &Val, ty: &Ty) -> Option<Val> {
        match (v, ty) {
            (Val::Tuple(vs), Ty::Tuple(ts)) => {
                for i in 0..ts.len() {
                    for j in i + 1..ts.len() {
                        if ts[i] == ts[j] && vs[i] != vs[j] {
                            let mut out = vs.clone();
                            out.swap(i, j);
                            return Some(Val::Tuple(out));
                        }
                    }
                }
                for k in 0..ts.len() {
                    if let Some(n) = self.swap(&vs[k], &ts[k]) {
                        let mut out = vs.clone();
                        out[k] = n;
                        return Some(Val::Tuple(out));
                    }
                }
                None
            }
            (Val::List(vs), Ty::List(_)) if vs.len() >= 2 && vs[0] != vs[vs.len() - 1] => {
                let mut out = vs.clone();
                let n = out.len();
                out.swap(0, n - 1);
                Some(Val::List(out))
            }
            _ => None,
        }
    }

    /// exchange int and float at number leaves reachable through tuples only: the value gets a different Sylt
    /// type that the checker still admits for `<`, `>` and `/`
    pub fn flip_kinds(&mut self, v: &Val) -> Val {
        match v {
            Val::Int(i) => {
                if self.t.bool() {
                    let frac = if self.t.bool() { "0" } else { "5" };
                    Val::Float(format!("{}.{}", i, frac))
                } else {
                    v.clone()
                }
            }
            Val::Float(s) => {
                if self.t.bool() {
                    match parse_float(s) {
                        Some(f) if f.abs() < 9.0e15 => {
                            let fl = f.floor() as i64;
                            Val::Int(if self.t.chance(1, 4) { fl + 1 } else { fl })
                        }
                        _ => v.clone(),
                    }
                } else {
                    v.clone()
                }
            }
            Val::Tuple(vs) => Val::Tuple(vs.iter().map(|x| self.flip_kinds(x)).collect()),
            _ => v.clone(),
        }
    }

    /// a further value of the type, related to the earlier ones
    pub fn derive(&mut self, prev: &[Val], ty: &Ty, big_ok: bool) -> Val {
        let base = prev[self.t.below(prev.len())].clone();
        match self.t.weighted(&[18, 30, 10, 10, 14, 12, 6]) {
            0 => base,
            1 => self.mutate(&base, ty),
            2 => {
                let m = self.mutate(&base, ty);
                self.mutate(&m, ty)
            }
            3 => match self.swap(&base, ty) {
                Some(s) => s,
                None => self.mutate(&base, ty),
            },
            4 => self.val(ty, big_ok),
            5 => {
                if ty.tuple_num_leaf() {
                    self.flip_kinds(&base)
                } else {
                    self.mutate(&base, ty)
                }
            }
            _ => {
                // equal up to the representation of a blob literal / sign of zero
                match &base {
                    Val::Blob { fields, rev } => Val::Blob { fields: fields.clone(), rev: !rev },
                    _ => self.mutate(&base, ty),
                }
            }
        }
    }
}

// ------------------------------------------------------------------------------------------------
// simplification
// ------------------------------------------------------------------------------------------------

#[derive(Clone, Copy, Debug)]
pub enum Edit {
    Drop(usize),
    Hoist(usize),
}

fn n_children(ty: &Ty) -> usize {
    match ty {
        Ty::Tuple(ts) => ts.len(),
        Ty::List(_) => 1,
        Ty::Blob(_, fs) => fs.len(),
        Ty::Enum(_, vs) => vs.len(),
        _ => 0,
    }
}
fn child(ty: &Ty, k: usize) -> Option<&Ty> {
    match ty {
        Ty::Tuple(ts) => ts.get(k),
        Ty::List(t) if k == 0 => Some(t),
        Ty::Blob(_, fs) => fs.get(k),
        Ty::Enum(_, vs) => vs.get(k).and_then(|v| v.as_ref()),
        _ => None,
    }
}

/// all composite nodes of a type, pre-order, as child-index paths
pub fn type_nodes(ty: &Ty, path: &mut Vec<usize>, out: &mut Vec<Vec<usize>>) {
    if n_children(ty) == 0 && !matches!(ty, Ty::Tuple(_) | Ty::Blob(..)) {
        return;
    }
    out.push(path.clone());
    for k in 0..n_children(ty) {
        if let Some(c) = child(ty, k) {
            path.push(k);
            type_nodes(c, path, out);
            path.pop();
        }
    }
}

pub fn edit_ty(ty: &Ty, path: &[usize], e: Edit) -> Option<Ty> {
    if path.is_empty() {
        return match (ty, e) {
            (Ty::Tuple(ts), Edit::Drop(k)) if k < ts.len() => {
                let mut o = ts.clone();
                o.remove(k);
                Some(Ty::Tuple(o))
            }
            (Ty::Blob(id, fs), Edit::Drop(k)) if k < fs.len() => {
                let mut o = fs.clone();
                o.remove(k);
                Some(Ty::Blob(*id, o))
            }
            (Ty::Enum(id, vs), Edit::Drop(k)) if k < vs.len() && vs.len() > 1 => {
                let mut o = vs.clone();
                o.remove(k);
                Some(Ty::Enum(*id, o))
            }
            (_, Edit::Hoist(k)) => child(ty, k).cloned(),
            _ => None,
        };
    }
    let k = path[0];
    let sub = edit_ty(child(ty, k)?, &path[1..], e)?;
    Some(match ty {
        Ty::Tuple(ts) => {
            let mut o = ts.clone();
            o[k] = sub;
            Ty::Tuple(o)
        }
        Ty::List(_) => Ty::List(Box::new(sub)),
        Ty::Blob(id, fs) => {
            let mut o = fs.clone();
            o[k] = sub;
            Ty::Blob(*id, o)
        }
        Ty::Enum(id, vs) => {
            let mut o = vs.clone();
            o[k] = Some(sub);
            Ty::Enum(*id, o)
        }
        _ => return None,
    })
}

pub fn edit_val(v: &Val, path: &[usize], e: Edit) -> Option<Val> {
    if path.is_empty() {
        return match (v, e) {
            (Val::Tuple(vs), Edit::Drop(k)) if k < vs.len() => {
                let mut o = vs.clone();
                o.remove(k);
                Some(Val::Tuple(o))
            }
            (Val::Tuple(vs), Edit::Hoist(k)) => vs.get(k).cloned(),
            (Val::List(vs), Edit::Hoist(0)) => vs.first().cloned(),
            (Val::Blob { fields, rev }, Edit::Drop(k)) if k < fields.len() => {
                let mut o = fields.clone();
                o.remove(k);
                Some(Val::Blob { fields: o, rev: *rev })
            }
            (Val::Blob { fields, .. }, Edit::Hoist(k)) => fields.get(k).cloned(),
            (Val::Variant(i, p), Edit::Drop(k)) => {
                if *i == k {
                    None
                } else {
                    Some(Val::Variant(if *i > k { *i - 1 } else { *i }, p.clone()))
                }
            }
            (Val::Variant(i, p), Edit::Hoist(k)) if *i == k => p.as_ref().map(|b| (**b).clone()),
            _ => None,
        };
    }
    let k = path[0];
    match v {
        Val::Tuple(vs) => {
            let mut o = vs.clone();
            *o.get_mut(k)? = edit_val(vs.get(k)?, &path[1..], e)?;
            Some(Val::Tuple(o))
        }
        Val::List(vs) => Some(Val::List(vs.iter().map(|x| edit_val(x, &path[1..], e)).collect::<Option<Vec<Val>>>()?)),
        Val::Blob { fields, rev } => {
            let mut o = fields.clone();
            *o.get_mut(k)? = edit_val(fields.get(k)?, &path[1..], e)?;
            Some(Val::Blob { fields: o, rev: *rev })
        }
        Val::Variant(i, p) => {
            if *i == k {
                let inner = edit_val(p.as_ref()?, &path[1..], e)?;
                Some(Val::Variant(*i, Some(Box::new(inner))))
            } else {
                Some(v.clone())
            }
        }
        _ => None,
    }
}

/// every value obtained by one local simplification of `v` (a leaf to the simplest of its kind, a list without
/// its last element, a blob literal in declaration order)
pub fn simpler_values(v: &Val) -> Vec<Val> {
    let mut out = Vec::new();
    match v {
        Val::Int(i) => {
            if *i != 0 {
                out.push(Val::Int(0));
            }
            if i.unsigned_abs() > 1 {
                out.push(Val::Int(if *i < 0 { -1 } else { 1 }));
            }
        }
        Val::Float(s) => {
            if s != "0.0" {
                out.push(Val::Float("0.0".into()));
            }
            if s != "0.0" && s != "1.0" {
                out.push(Val::Float("1.0".into()));
            }
        }
        Val::Str(s) => {
            if !s.is_empty() {
                out.push(Val::Str(String::new()));
            }
            if s.chars().count() > 1 {
                out.push(Val::Str(s.chars().take(1).collect()));
            }
        }
        Val::Bool(b) => {
            if *b {
                out.push(Val::Bool(false));
            }
        }
        Val::Tuple(vs) => {
            for (k, x) in vs.iter().enumerate() {
                for s in simpler_values(x) {
                    let mut o = vs.clone();
                    o[k] = s;
                    out.push(Val::Tuple(o));
                }
            }
        }
        Val::List(vs) => {
            if !vs.is_empty() {
                let mut o = vs.clone();
                o.pop();
                out.push(Val::List(o));
            }
            for (k, x) in vs.iter().enumerate() {
                for s in simpler_values(x) {
                    let mut o = vs.clone();
                    o[k] = s;
                    out.push(Val::List(o));
                }
            }
        }
        Val::Blob { fields, rev } => {
            if *rev {
                out.push(Val::Blob { fields: fields.clone(), rev: false });
            }
            for (k, x) in fields.iter().enumerate() {
                for s in simpler_values(x) {
                    let mut o = fields.clone();
                    o[k] = s;
                    out.push(Val::Blob { fields: o, rev: *rev });
                }
            }
        }
        Val::Variant(i, p) => {
            if let Some(p) = p {
                for s in simpler_values(p) {
                    out.push(Val::Variant(*i, Some(Box::new(s))));
                }
            }
        }
    }
    out
}
