//! C05 catalogue: generated blob/enum declarations, the violation kinds, and the renderer that turns a
//! `Spec` into the planted source text — once as the violation, once as its legal twin. Both renderings
//! take *the same* choices (every choice is a pure function of `spec.bytes` and a call-site tag), so the two
//! texts differ only where the violation is.
use serde::{Deserialize, Serialize};
use syltmodel::ast::{Program, Ty};
use syltmodel::print::type_text;

#[derive(Clone, Copy, Debug, PartialEq, Eq, Hash, Serialize, Deserialize, PartialOrd, Ord)]
pub enum Kind {
    // 1. blob instantiation
    MissingField,
    UnknownFieldInit,
    MissingAndUnknownField,
    // 2. field access
    AccessDirect,
    AccessParam,
    AccessReturned,
    AccessDeferredParam,
    AccessDeferredReturn,
    AccessWrite,
    AccessCaptured,
    // 3. unknown variant
    VariantConstruct,
    VariantMatch,
    // 4. case without else
    TotalMissing,
    TotalExtra,
    TotalMissingExtra,
    // 5. tuples
    IndexDirect,
    IndexDeferredParam,
    IndexReturned,
    IndexNested,
    IndexGenericField,
    LenBinop,
    LenBinopDeferred,
    LenAnnotated,
    LenAssign,
    LenArgument,
    LenReturn,
    LenList,
    // 6. externblob
    ExternInstance,
    // 7. break / continue
    BreakNoLoop,
    ContinueNoLoop,
    ExitInClosureBaseLoop,
    ExitInOwnClosure,
    ClosureExitInBaseLoop,
    // 8. entry point (whole-program cases)
    NoStart,
    StartImportedOnly,
    StartNotFn,
    StartParams,
    StartReturns,
}

pub const ALL_KINDS: &[Kind] = &[
    Kind::MissingField,
    Kind::UnknownFieldInit,
    Kind::MissingAndUnknownField,
    Kind::AccessDirect,
    Kind::AccessParam,
    Kind::AccessReturned,
    Kind::AccessDeferredParam,
    Kind::AccessDeferredReturn,
    Kind::AccessWrite,
    Kind::AccessCaptured,
    Kind::VariantConstruct,
    Kind::VariantMatch,
    Kind::TotalMissing,
    Kind::TotalExtra,
    Kind::TotalMissingExtra,
    Kind::IndexDirect,
    Kind::IndexDeferredParam,
    Kind::IndexReturned,
    Kind::IndexNested,
    Kind::IndexGenericField,
    Kind::LenBinop,
    Kind::LenBinopDeferred,
    Kind::LenAnnotated,
    Kind::LenAssign,
    Kind::LenArgument,
    Kind::LenReturn,
    Kind::LenList,
    Kind::ExternInstance,
    Kind::BreakNoLoop,
    Kind::ContinueNoLoop,
    Kind::ExitInClosureBaseLoop,
    Kind::ExitInOwnClosure,
    Kind::ClosureExitInBaseLoop,
    Kind::NoStart,
    Kind::StartImportedOnly,
    Kind::StartNotFn,
    Kind::StartParams,
    Kind::StartReturns,
];

impl Kind {
    pub fn name(self) -> &'static str {
        match self {
            Kind::MissingField => "init-missing-field",
            Kind::UnknownFieldInit => "init-unknown-field",
            Kind::MissingAndUnknownField => "init-missing+unknown-field",
            Kind::AccessDirect => "access-direct",
            Kind::AccessParam => "access-annotated-param",
            Kind::AccessReturned => "access-returned-value",
            Kind::AccessDeferredParam => "access-deferred-param",
            Kind::AccessDeferredReturn => "access-deferred-return",
            Kind::AccessWrite => "access-field-write",
            Kind::AccessCaptured => "access-captured",
            Kind::VariantConstruct => "variant-construct",
            Kind::VariantMatch => "variant-match-with-else",
            Kind::TotalMissing => "total-case-missing-arm",
            Kind::TotalExtra => "total-case-extra-arm",
            Kind::TotalMissingExtra => "total-case-missing+extra-arm",
            Kind::IndexDirect => "index-direct",
            Kind::IndexDeferredParam => "index-deferred-param",
            Kind::IndexReturned => "index-returned-value",
            Kind::IndexNested => "index-nested",
            Kind::IndexGenericField => "index-generic-field",
            Kind::LenBinop => "length-binop",
            Kind::LenBinopDeferred => "length-binop-deferred",
            Kind::LenAnnotated => "length-annotated-definition",
            Kind::LenAssign => "length-assignment",
            Kind::LenArgument => "length-argument",
            Kind::LenReturn => "length-return",
            Kind::LenList => "length-list-elements",
            Kind::ExternInstance => "externblob-instance",
            Kind::BreakNoLoop => "break-outside-loop",
            Kind::ContinueNoLoop => "continue-outside-loop",
            Kind::ExitInClosureBaseLoop => "exit-in-closure-of-generated-loop",
            Kind::ExitInOwnClosure => "exit-in-planted-closure-in-planted-loop",
            Kind::ClosureExitInBaseLoop => "planted-closure-exit-in-generated-loop",
            Kind::NoStart => "entry-no-start",
            Kind::StartImportedOnly => "entry-start-only-imported",
            Kind::StartNotFn => "entry-start-not-a-function",
            Kind::StartParams => "entry-start-with-parameters",
            Kind::StartReturns => "entry-start-returns-value",
        }
    }
    /// the rule of the property the kind belongs to = the class part of the violation signature
    pub fn group(self) -> &'static str {
        match self {
            Kind::MissingField | Kind::MissingAndUnknownField => "blob-missing-field",
            Kind::UnknownFieldInit => "blob-unknown-field",
            Kind::AccessDirect
            | Kind::AccessParam
            | Kind::AccessReturned
            | Kind::AccessDeferredParam
            | Kind::AccessDeferredReturn
            | Kind::AccessWrite
            | Kind::AccessCaptured => "unknown-field-access",
            Kind::VariantConstruct | Kind::VariantMatch => "unknown-variant",
            Kind::TotalMissing | Kind::TotalExtra | Kind::TotalMissingExtra => "non-total-case",
            Kind::IndexDirect | Kind::IndexDeferredParam | Kind::IndexReturned | Kind::IndexNested | Kind::IndexGenericField => {
                "tuple-index-out-of-range"
            }
            Kind::LenBinop
            | Kind::LenBinopDeferred
            | Kind::LenAnnotated
            | Kind::LenAssign
            | Kind::LenArgument
            | Kind::LenReturn
            | Kind::LenList => "tuple-length-mismatch",
            Kind::ExternInstance => "externblob-instance",
            Kind::BreakNoLoop | Kind::ContinueNoLoop => "loop-exit-outside-loop",
            Kind::ExitInClosureBaseLoop | Kind::ExitInOwnClosure | Kind::ClosureExitInBaseLoop => "loop-exit-in-closure-in-loop",
            Kind::NoStart | Kind::StartImportedOnly => "entry-no-start-in-main",
            Kind::StartNotFn | Kind::StartParams | Kind::StartReturns => "entry-start-wrong-type",
        }
    }
    pub fn is_entry(self) -> bool {
        matches!(self, Kind::NoStart | Kind::StartImportedOnly | Kind::StartNotFn | Kind::StartParams | Kind::StartReturns)
    }
    pub fn is_loop(self) -> bool {
        matches!(
            self,
            Kind::BreakNoLoop | Kind::ContinueNoLoop | Kind::ExitInClosureBaseLoop | Kind::ExitInOwnClosure | Kind::ClosureExitInBaseLoop
        )
    }
    /// kinds that trigger the `inside_loop` leak (avoided for 80 % of the budget)
    pub fn closure_in_loop(self) -> bool {
        matches!(self, Kind::ExitInClosureBaseLoop | Kind::ExitInOwnClosure | Kind::ClosureExitInBaseLoop)
    }
    pub fn impure_only(self) -> bool {
        matches!(self, Kind::AccessWrite | Kind::LenAssign)
    }
    /// TypeError variants (ErrInfo.sub) / error kinds that show the rejection happened for the planted reason
    pub fn expected_reasons(self) -> &'static [&'static str] {
        match self.group() {
            "blob-missing-field" => &["MissingField", "UnknownField"],
            "blob-unknown-field" => &["UnknownField"],
            "unknown-field-access" => &["MissingField"],
            "unknown-variant" => &["UnknownVariant"],
            "non-total-case" => &["MissingVariants", "ExtraVariants", "UnknownVariant"],
            "tuple-index-out-of-range" => &["TupleIndexOutOfRange"],
            "tuple-length-mismatch" => &["TupleLengthMismatch", "BinOp"],
            "externblob-instance" => &["ExternBlobInstance"],
            "loop-exit-outside-loop" | "loop-exit-in-closure-in-loop" => &["Exotic"],
            "entry-no-start-in-main" => &["Compile"],
            _ => &["Mismatch"],
        }
    }
}

#[derive(Clone, Debug, PartialEq, Serialize, Deserialize)]
pub enum FTy {
    T(Ty),
    /// the declaration's type parameter `*T`
    Param,
}

#[derive(Clone, Debug, PartialEq, Serialize, Deserialize)]
pub struct BlobD {
    pub name: String,
    pub generic: bool,
    pub fields: Vec<(String, FTy)>,
    /// false = the declaration is one of the base program's own blobs (already printed there)
    pub emit: bool,
    pub multiline: bool,
}

#[derive(Clone, Debug, PartialEq, Serialize, Deserialize)]
pub struct EnumD {
    pub name: String,
    pub generic: bool,
    pub variants: Vec<(String, Option<FTy>)>,
    pub emit: bool,
}

#[derive(Clone, Debug, PartialEq, Serialize, Deserialize)]
pub struct Decls {
    pub blob: BlobD,
    /// a second blob with at least one field (`zq`) the first does not have
    pub blob2: BlobD,
    pub en: EnumD,
    /// what `*T` is instantiated with at the use sites
    pub targ: Ty,
    /// a variant name that exists in some *other* enum of the program (or in `Maybe`)
    pub other_variant: String,
}

#[derive(Clone, Debug, PartialEq, Serialize, Deserialize)]
pub struct Spec {
    pub kind: Kind,
    /// private choice bytes of the renderer
    pub bytes: Vec<u8>,
    pub decls: Decls,
    /// the site is inside a `pu` function
    pub pure: bool,
    /// Some(type of the replaced expression) = expression site, None = statement site
    pub expr_site: Option<Ty>,
    /// an immutable tuple-typed variable of the base program in scope at the site: (name, length)
    pub scope_tuple: Option<(String, usize)>,
}

pub const SEL_HELPER: &str = "zzsel :: pu zza, zzb -> do\n    zza\nend\n";

/// hash-based chooser: a choice depends only on the bytes and the tag, never on the order of consumption
struct Ch<'a> {
    bytes: &'a [u8],
    zero: bool,
}
impl<'a> Ch<'a> {
    fn new(bytes: &'a [u8]) -> Self {
        Ch { bytes, zero: bytes.iter().all(|b| *b == 0) }
    }
    fn n(&self, tag: &str, n: usize) -> usize {
        if self.zero || n <= 1 {
            return 0;
        }
        let h = vcore::hash64(&(self.bytes, tag));
        // FNV's low bits are weak: fold
        (((h >> 32) ^ h) as u32 as usize) % n
    }
    fn bit(&self, tag: &str) -> bool {
        self.n(tag, 2) == 1
    }
    fn perm(&self, tag: &str, n: usize) -> Vec<usize> {
        let mut v: Vec<usize> = (0..n).collect();
        for i in (1..n).rev() {
            let j = self.n(&format!("{}#{}", tag, i), i + 1);
            v.swap(i, j);
        }
        v
    }
}

pub fn ty_text(t: &Ty) -> String {
    type_text(&Program::default(), t)
}

fn fty_text(t: &FTy) -> String {
    match t {
        FTy::T(t) => ty_text(t),
        FTy::Param => "*T".to_string(),
    }
}

pub fn blob_decl_text(b: &BlobD, keyword: &str) -> String {
    let head = if b.generic { format!("{} :: {}(*T) {{", b.name, keyword) } else { format!("{} :: {} {{", b.name, keyword) };
    if b.fields.is_empty() {
        return format!("{}}}\n", head);
    }
    if b.multiline {
        let mut s = head;
        s.push('\n');
        for (n, t) in &b.fields {
            s.push_str(&format!("    {}: {},\n", n, fty_text(t)));
        }
        s.push_str("}\n");
        s
    } else {
        let parts: Vec<String> = b.fields.iter().map(|(n, t)| format!("{}: {}", n, fty_text(t))).collect();
        format!("{} {} }}\n", head, parts.join(", "))
    }
}

pub fn enum_decl_text(e: &EnumD) -> String {
    let mut s = if e.generic { format!("{} :: enum(*T)\n", e.name) } else { format!("{} :: enum\n", e.name) };
    for (n, p) in &e.variants {
        match p {
            Some(t) => s.push_str(&format!("    {} {},\n", n, fty_text(t))),
            None => s.push_str(&format!("    {},\n", n)),
        }
    }
    s.push_str("end\n");
    s
}

/// the rendered plant
pub struct Planted {
    /// top-level text that goes in front of the program (declarations, helper functions, global set-up)
    pub prelude: String,
    /// statement site: the lines replacing the marker line; expression site: the expression text
    pub site: String,
    /// the violation is only reached through an unannotated parameter / return / type parameter
    pub deferred: bool,
    /// the violating construct sits inside a planted closure
    pub own_closure: bool,
    /// sub-form label for the evidence
    pub form: String,
}

enum Core {
    Expr(String),
    Stmts(Vec<String>),
}

struct Piece {
    /// must be global
    prelude: Vec<String>,
    /// definitions (possibly multi-line) that may be placed at the site or globally
    setup: Vec<String>,
    core: Core,
    deferred: bool,
    form: String,
}

enum InstMode {
    Full,
    Missing,
    Extra,
    Both,
}

struct Cx<'a> {
    s: &'a Spec,
    good: bool,
    c: Ch<'a>,
}

fn indent(lines: &[String]) -> Vec<String> {
    let mut out = Vec::new();
    for l in lines {
        for x in l.lines() {
            out.push(format!("    {}", x));
        }
    }
    out
}

impl<'a> Cx<'a> {
    /// all planted function literals of one case share their purity (a `pu` one may neither call an `fn` one
    /// nor contain mutable definitions / assignments)
    fn pure_mode(&self) -> bool {
        self.s.pure || (self.c.bit("all-pure") && !self.s.kind.impure_only())
    }
    fn kw(&self, _tag: &str) -> &'static str {
        if self.pure_mode() {
            "pu"
        } else {
            "fn"
        }
    }
    fn conc(&self, f: &FTy) -> Ty {
        match f {
            FTy::T(t) => t.clone(),
            FTy::Param => self.s.decls.targ.clone(),
        }
    }
    fn lit(&self, t: &Ty, tag: &str) -> String {
        match t {
            Ty::Int => ["0", "1", "2", "7", "42"][self.c.n(tag, 5)].to_string(),
            Ty::Float => ["1.0", "0.5", "2.5"][self.c.n(tag, 3)].to_string(),
            Ty::Str => ["\"a\"", "\"\"", "\"zz top\""][self.c.n(tag, 3)].to_string(),
            Ty::Bool => ["true", "false"][self.c.n(tag, 2)].to_string(),
            Ty::Tuple(ts) => {
                let parts: Vec<String> = ts.iter().enumerate().map(|(i, t)| self.lit(t, &format!("{}.{}", tag, i))).collect();
                if parts.len() == 1 {
                    format!("({},)", parts[0])
                } else {
                    format!("({})", parts.join(", "))
                }
            }
            Ty::List(t) => {
                let n = 1 + self.c.n(&format!("{}.n", tag), 2);
                let parts: Vec<String> = (0..n).map(|i| self.lit(t, &format!("{}.{}", tag, i))).collect();
                format!("[{}]", parts.join(", "))
            }
            _ => "0".to_string(),
        }
    }
    fn unknown_field(&self, b: &BlobD) -> String {
        let mut cands: Vec<String> = vec!["nope".to_string()];
        for (n, _) in &self.s.decls.blob2.fields {
            cands.push(n.clone());
        }
        for (n, _) in &self.s.decls.blob.fields {
            cands.push(n.clone());
        }
        if let Some((n, _)) = b.fields.first() {
            cands.push(format!("{}x", n));
            cands.push(format!("{}_", n));
        }
        cands.retain(|c| !b.fields.iter().any(|(n, _)| n == c));
        cands[self.c.n("unkf", cands.len())].clone()
    }
    fn unknown_variant(&self, e: &EnumD) -> String {
        let mut cands: Vec<String> = vec!["Nope".to_string(), self.s.decls.other_variant.clone()];
        if let Some((n, _)) = e.variants.first() {
            cands.push(format!("{}x", n));
        }
        cands.retain(|c| !e.variants.iter().any(|(n, _)| n == c));
        cands[self.c.n("unkv", cands.len())].clone()
    }
    fn bann(&self, b: &BlobD) -> String {
        if b.generic && self.c.n("bann", 3) != 0 {
            format!("{}({})", b.name, ty_text(&self.s.decls.targ))
        } else {
            b.name.clone()
        }
    }
    fn eann(&self, e: &EnumD) -> String {
        if e.generic && self.c.n("eann", 3) != 0 {
            format!("{}({})", e.name, ty_text(&self.s.decls.targ))
        } else {
            e.name.clone()
        }
    }
    fn inst(&self, b: &BlobD, mode: InstMode, tag: &str) -> String {
        let n = b.fields.len();
        let order = self.c.perm(&format!("{}.order", tag), n);
        let (drop_some, extra) = match mode {
            InstMode::Full => (false, false),
            InstMode::Missing => (true, false),
            InstMode::Extra => (false, true),
            InstMode::Both => (true, true),
        };
        let mut dropped: Vec<usize> = Vec::new();
        if drop_some && n > 0 {
            let k = 1 + self.c.n(&format!("{}.dropn", tag), n);
            let p = self.c.perm(&format!("{}.drop", tag), n);
            dropped.extend(p.into_iter().take(k));
        }
        let mut parts: Vec<String> = Vec::new();
        for &i in &order {
            if dropped.contains(&i) {
                continue;
            }
            let (name, ft) = &b.fields[i];
            parts.push(format!("{}: {}", name, self.lit(&self.conc(ft), &format!("{}.v{}", tag, i))));
        }
        if extra {
            let pos = self.c.n(&format!("{}.xpos", tag), parts.len() + 1);
            let xt = [Ty::Int, Ty::Str, Ty::Tuple(vec![Ty::Int, Ty::Int])][self.c.n(&format!("{}.xty", tag), 3)].clone();
            parts.insert(pos, format!("{}: {}", self.unknown_field(b), self.lit(&xt, &format!("{}.x", tag))));
        }
        if parts.is_empty() {
            format!("{} {{}}", b.name)
        } else {
            format!("{} {{ {} }}", b.name, parts.join(", "))
        }
    }
    /// a legal value of the enum (not parenthesised)
    fn val(&self, e: &EnumD, tag: &str) -> String {
        let i = self.c.n(&format!("{}.vi", tag), e.variants.len());
        let (n, p) = &e.variants[i];
        match p {
            Some(t) => format!("{}.{} {}", e.name, n, self.lit(&self.conc(t), &format!("{}.p", tag))),
            None => format!("{}.{}", e.name, n),
        }
    }
    fn helper(&self, head: String, body: Vec<String>) -> String {
        let mut s = head;
        s.push('\n');
        for l in indent(&body) {
            s.push_str(&l);
            s.push('\n');
        }
        s.push_str("end");
        s
    }

    // ---------------------------------------------------------------- pieces
    fn piece(&self) -> Piece {
        let d = &self.s.decls;
        let k = self.s.kind;
        let mut prelude: Vec<String> = Vec::new();
        let mut setup: Vec<String> = Vec::new();
        let mut deferred = false;
        let mut form = String::new();
        let core: Core = match k {
            Kind::MissingField | Kind::UnknownFieldInit | Kind::MissingAndUnknownField => {
                let mode = if self.good {
                    InstMode::Full
                } else {
                    match k {
                        Kind::MissingField => InstMode::Missing,
                        Kind::UnknownFieldInit => InstMode::Extra,
                        _ => InstMode::Both,
                    }
                };
                Core::Expr(self.inst(&d.blob, mode, "i"))
            }
            Kind::AccessDirect | Kind::AccessParam | Kind::AccessReturned | Kind::AccessDeferredParam | Kind::AccessDeferredReturn
            | Kind::AccessWrite | Kind::AccessCaptured => {
                let b = &d.blob;
                let inst = self.inst(b, InstMode::Full, "i");
                let gi = self.c.n("goodfield", b.fields.len());
                let gfield = b.fields[gi].0.clone();
                let f = if self.good { gfield.clone() } else { self.unknown_field(b) };
                match k {
                    Kind::AccessDirect => {
                        let mut sub = self.c.n("sub", 5);
                        if sub == 2 && self.pure_mode() {
                            sub = 0;
                        }
                        match sub {
                            4 => {
                                // the blob is an element handed out by the runtime library: its type comes from the
                                // library's signature (`list.get: [*ITEM], int -> Maybe(*ITEM)`)
                                // (`list.last` and `list.find` are impure by their library signatures)
                                let getter = if self.pure_mode() { 0 } else { self.c.n("getter", 3) };
                                form = format!("element-from-library/{}", ["list.get", "list.last", "list.find"][getter]);
                                prelude.push("Zzi :: blob { zzv: int, zzw: str }\n".to_string());
                                let nf = if self.good { ["zzv", "zzw"][self.c.n("nf", 2)] } else { "zznope" };
                                setup.push("zzl :: [Zzi { zzv: 1, zzw: \"a\" }, Zzi { zzv: 2, zzw: \"b\" }]".to_string());
                                let got = match getter {
                                    0 => "list.get(zzl, 0)",
                                    1 => "list.last(zzl)",
                                    _ => "list.find(zzl, pu zzq -> true end)",
                                };
                                let dflt = if nf == "zzw" { "\"\"" } else { "0" };
                                Core::Expr(format!("case {} do\n    Just zze -> zze.{} end\n    else {} end\nend", got, nf, dflt))
                            }
                            0 => {
                                form = "annotated-constant".into();
                                setup.push(format!("zzv: {} : {}", self.bann(b), inst));
                                Core::Expr(format!("zzv.{}", f))
                            }
                            1 => {
                                form = "inferred-constant".into();
                                setup.push(format!("zzv :: {}", inst));
                                Core::Expr(format!("zzv.{}", f))
                            }
                            2 => {
                                form = "annotated-mutable".into();
                                setup.push(format!("zzv: {} = {}", self.bann(b), inst));
                                Core::Expr(format!("zzv.{}", f))
                            }
                            _ => {
                                form = "on-instantiation".into();
                                Core::Expr(format!("{}.{}", inst, f))
                            }
                        }
                    }
                    Kind::AccessParam if self.c.n("nested", 3) == 0 => {
                        // the field of a blob-typed field; the inner blob is declared after (or before) the outer one
                        let later = self.c.n("inner-later", 3) != 0;
                        // how the outer blob mentions the inner one: directly, or inside another type
                        let wrap = self.c.n("wrap", 4);
                        let outer = match wrap {
                            0 => "Zzo :: blob { zzin: Zzi, zzk: int }\n",
                            1 => "Zzo :: blob { zzin: Maybe(Zzi), zzk: int }\n",
                            2 => "Zzbox :: blob(*T) { zzb: *T }\nZzo :: blob { zzin: Zzbox(Zzi), zzk: int }\n",
                            _ => "Zzo :: blob { zzin: (Zzi, int), zzk: int }\n",
                        }
                        .to_string();
                        let inner = "Zzi :: blob { zzv: int, zzw: str }\n".to_string();
                        if later {
                            prelude.push(outer);
                            prelude.push(inner);
                        } else {
                            prelude.push(inner);
                            prelude.push(outer);
                        }
                        let nf = if self.good { ["zzv", "zzw"][self.c.n("nf", 2)] } else { "zznope" };
                        let access: Vec<String> = match wrap {
                            0 => vec![format!("zzp.zzin.{}", nf)],
                            1 => vec!["case zzp.zzin do".to_string(), format!("    Just zze -> zze.{} end", nf), format!("    else {} end", if nf == "zzw" { "\"\"" } else { "0" }), "end".to_string()],
                            2 => vec![format!("zzp.zzin.zzb.{}", nf)],
                            _ => vec![format!("zzp.zzin[0].{}", nf)],
                        };
                        setup.push(self.helper(format!("zzf :: {} zzp: Zzo -> do", self.kw("kw")), access));
                        let called = self.c.n("call", 3) != 0;
                        let via = ["", "/in-maybe", "/in-generic-blob", "/in-tuple"][wrap];
                        form = format!(
                            "nested-blob-declared-{}{}/{}",
                            if later { "later" } else { "earlier" },
                            via,
                            if called { "helper-called" } else { "helper-never-called" }
                        );
                        if called {
                            let iv = "Zzi { zzv: 1, zzw: \"a\" }";
                            let field = match wrap {
                                0 => iv.to_string(),
                                1 => format!("Maybe.Just {}", iv),
                                2 => format!("Zzbox {{ zzb: {} }}", iv),
                                _ => format!("({}, 1)", iv),
                            };
                            Core::Expr(format!("zzf(Zzo {{ zzin: {}, zzk: 2 }})", field))
                        } else {
                            Core::Expr("0".into())
                        }
                    }
                    Kind::AccessParam => {
                        setup.push(self.helper(format!("zzf :: {} zzp: {} -> do", self.kw("kw"), self.bann(b)), vec![format!("zzp.{}", f)]));
                        if self.c.n("call", 4) == 0 {
                            form = "helper-never-called".into();
                            Core::Expr("0".into())
                        } else {
                            form = "helper-called".into();
                            Core::Expr(format!("zzf({})", inst))
                        }
                    }
                    Kind::AccessReturned => {
                        form = "annotated-return".into();
                        setup.push(self.helper(format!("zzmk :: {} -> {} do", self.kw("kw"), self.bann(b)), vec![inst.clone()]));
                        Core::Expr(format!("zzmk().{}", f))
                    }
                    Kind::AccessDeferredParam => {
                        deferred = true;
                        match self.c.n("sub", 3) {
                            0 => {
                                form = "one-level".into();
                                setup.push(self.helper(format!("zzf :: {} zzp -> do", self.kw("kw")), vec![format!("zzp.{}", f)]));
                                Core::Expr(format!("zzf({})", inst))
                            }
                            1 => {
                                form = "two-level".into();
                                setup.push(self.helper(format!("zzf :: {} zzp -> do", self.kw("kw")), vec![format!("zzp.{}", f)]));
                                setup.push(self.helper(format!("zzf2 :: {} zzq -> do", self.kw("kw2")), vec!["zzf(zzq)".to_string()]));
                                Core::Expr(format!("zzf2({})", inst))
                            }
                            _ => {
                                // the helper reads a field only the second blob has; it is first used legally
                                form = "polymorphic-second-use".into();
                                let inst2 = self.inst(&d.blob2, InstMode::Full, "i2");
                                setup.push(self.helper(format!("zzf :: {} zzp -> do", self.kw("kw")), vec!["zzp.zq".to_string()]));
                                setup.push(format!("zzw :: zzf({})", inst2));
                                if self.good {
                                    Core::Expr(format!("zzf({})", self.inst(&d.blob2, InstMode::Full, "i3")))
                                } else {
                                    Core::Expr(format!("zzf({})", inst))
                                }
                            }
                        }
                    }
                    Kind::AccessDeferredReturn => {
                        deferred = true;
                        form = "inferred-return".into();
                        setup.push(self.helper(format!("zzmk :: {} -> do", self.kw("kw")), vec![inst.clone()]));
                        Core::Expr(format!("zzmk().{}", f))
                    }
                    Kind::AccessWrite => {
                        form = if self.c.bit("mut") { "mutable-blob" } else { "constant-blob" }.into();
                        setup.push(format!("zzv {} {}", if self.c.bit("mut") { ":=" } else { "::" }, inst));
                        let v = if self.good { self.lit(&self.conc(&b.fields[gi].1), "w") } else { self.lit(&Ty::Int, "w") };
                        Core::Stmts(vec![format!("zzv.{} = {}", f, v)])
                    }
                    _ => {
                        form = "closure-reads-outer-blob".into();
                        setup.push(format!("zzv :: {}", inst));
                        setup.push(self.helper(format!("zzh :: {} -> do", self.kw("kw")), vec![format!("zzv.{}", f)]));
                        Core::Expr("zzh()".into())
                    }
                }
            }
            Kind::VariantConstruct => {
                let e = &d.en;
                if self.good {
                    Core::Expr(format!("({})", self.val(e, "v")))
                } else {
                    let u = self.unknown_variant(e);
                    if self.c.bit("payload") {
                        form = "with-payload".into();
                        let t = [Ty::Int, Ty::Str, Ty::Tuple(vec![Ty::Int, Ty::Int])][self.c.n("pty", 3)].clone();
                        Core::Expr(format!("({}.{} {})", e.name, u, self.lit(&t, "pl")))
                    } else {
                        form = "no-payload".into();
                        Core::Expr(format!("({}.{})", e.name, u))
                    }
                }
            }
            Kind::VariantMatch | Kind::TotalMissing | Kind::TotalExtra | Kind::TotalMissingExtra => {
                let e = &d.en;
                let n = e.variants.len();
                // arms
                let mut arms: Vec<(String, bool)> = Vec::new(); // (variant name, bind a payload variable)
                let order = self.c.perm("arms", n);
                let bindable = |i: usize| e.variants[i].1.is_some() && self.c.n(&format!("bind{}", i), 3) != 0;
                let unk = self.unknown_variant(e);
                let with_else = k == Kind::VariantMatch;
                if k == Kind::VariantMatch {
                    let extra_known = self.c.n("known-arms", 3).min(n.saturating_sub(1));
                    let first = order[0];
                    if self.good {
                        arms.push((e.variants[first].0.clone(), bindable(first)));
                    } else {
                        arms.push((unk.clone(), self.c.bit("bindunk")));
                    }
                    for &i in order.iter().skip(1).take(extra_known) {
                        arms.push((e.variants[i].0.clone(), bindable(i)));
                    }
                    // the unknown arm is not always the first one
                    if arms.len() > 1 && self.c.bit("rot") {
                        arms.rotate_left(1);
                    }
                } else {
                    let missing = matches!(k, Kind::TotalMissing | Kind::TotalMissingExtra) && !self.good;
                    let extra = matches!(k, Kind::TotalExtra | Kind::TotalMissingExtra) && !self.good;
                    let mut dropn = 0;
                    if missing {
                        // keep at least one arm when the enum has several variants
                        dropn = if n >= 2 { 1 + self.c.n("dropn", n - 1) } else { 1 };
                    }
                    for &i in order.iter().skip(dropn) {
                        arms.push((e.variants[i].0.clone(), bindable(i)));
                    }
                    // the dropped arms may be "replaced" by repetitions of arms that are there (the arm count is that of a
                    // total case, a variant is still unhandled)
                    if missing && k == Kind::TotalMissing && !arms.is_empty() && self.c.n("repeat", 3) == 0 {
                        for r in 0..dropn {
                            let (name, bind) = arms[self.c.n(&format!("rep{}", r), arms.len())].clone();
                            arms.push((name, bind));
                        }
                    }
                    if extra {
                        let pos = self.c.n("xpos", arms.len() + 1);
                        arms.insert(pos, (unk.clone(), self.c.bit("bindunk")));
                    }
                }
                let case_lines = |scrut: &str| -> Vec<String> {
                    let mut ls = vec![format!("case {} do", scrut)];
                    for (i, (name, bind)) in arms.iter().enumerate() {
                        if *bind {
                            ls.push(format!("    {} zzb{} ->", name, i));
                        } else {
                            ls.push(format!("    {} ->", name));
                        }
                        ls.push(format!("        zzk{} :: {}", i, i));
                        ls.push("    end".to_string());
                    }
                    if with_else {
                        ls.push("    else".to_string());
                        ls.push("        zzke :: 0".to_string());
                        ls.push("    end".to_string());
                    }
                    ls.push("end".to_string());
                    ls
                };
                let val = self.val(e, "sv");
                match self.c.n("scrut", 6) {
                    0 => {
                        form = "scrutinee-annotated-constant".into();
                        setup.push(format!("zzs: {} : {}", self.eann(e), val));
                        Core::Stmts(case_lines("zzs"))
                    }
                    1 => {
                        form = "scrutinee-inferred-constant".into();
                        setup.push(format!("zzs :: {}", val));
                        Core::Stmts(case_lines("zzs"))
                    }
                    2 => {
                        form = "scrutinee-inline".into();
                        Core::Stmts(case_lines(&format!("({})", val)))
                    }
                    3 => {
                        form = "scrutinee-returned".into();
                        setup.push(self.helper(format!("zzmk :: {} -> {} do", self.kw("kw"), self.eann(e)), vec![val.clone()]));
                        Core::Stmts(case_lines("zzmk()"))
                    }
                    4 => {
                        let mut body = case_lines("zzp");
                        body.push("0".to_string());
                        setup.push(self.helper(format!("zzf :: {} zzp: {} -> do", self.kw("kw"), self.eann(e)), body));
                        if self.c.n("call", 4) == 0 {
                            form = "scrutinee-annotated-param-never-called".into();
                            Core::Expr("0".into())
                        } else {
                            form = "scrutinee-annotated-param".into();
                            Core::Expr(format!("zzf(({}))", val))
                        }
                    }
                    _ => {
                        deferred = true;
                        form = "scrutinee-deferred-param".into();
                        let mut body = case_lines("zzp");
                        body.push("0".to_string());
                        setup.push(self.helper(format!("zzf :: {} zzp -> do", self.kw("kw")), body));
                        Core::Expr(format!("zzf(({}))", val))
                    }
                }
            }
            Kind::IndexDirect | Kind::IndexDeferredParam | Kind::IndexReturned | Kind::IndexNested | Kind::IndexGenericField => {
                // the tuple
                let n = 1 + self.c.n("tn", 4);
                let scal = [Ty::Int, Ty::Float, Ty::Str, Ty::Bool];
                let tys: Vec<Ty> = (0..n).map(|i| scal[self.c.n(&format!("tt{}", i), 4)].clone()).collect();
                let tt = Ty::Tuple(tys.clone());
                // first index past the end, a little further, and absolute boundary values
                let idx = |len: usize| -> String {
                    if self.good {
                        format!("{}", self.c.n("gidx", len))
                    } else {
                        match self.c.n("bidx", 8) {
                            0 => format!("{}", len),
                            1 => format!("{}", len + 1),
                            2 => format!("{}", len + 7),
                            3 => "255".to_string(),
                            4 => "256".to_string(),
                            5 => "65536".to_string(),
                            6 => "4294967296".to_string(),
                            _ => "9223372036854775807".to_string(),
                        }
                    }
                };
                match k {
                    Kind::IndexDirect => {
                        let mut sub = self.c.n("sub", 5);
                        if sub == 4 && self.s.scope_tuple.is_none() {
                            sub = 0;
                        }
                        if sub == 3 && self.pure_mode() {
                            sub = 1;
                        }
                        match sub {
                            0 => {
                                form = "annotated-constant".into();
                                setup.push(format!("zzt: {} : {}", ty_text(&tt), self.lit(&tt, "t")));
                                Core::Expr(format!("zzt[{}]", idx(n)))
                            }
                            1 => {
                                form = "inferred-constant".into();
                                setup.push(format!("zzt :: {}", self.lit(&tt, "t")));
                                Core::Expr(format!("zzt[{}]", idx(n)))
                            }
                            2 => {
                                form = "tuple-literal".into();
                                Core::Expr(format!("{}[{}]", self.lit(&tt, "t"), idx(n)))
                            }
                            3 => {
                                form = "mutable".into();
                                setup.push(format!("zzt := {}", self.lit(&tt, "t")));
                                Core::Expr(format!("zzt[{}]", idx(n)))
                            }
                            _ => {
                                form = "variable-of-the-generated-program".into();
                                let (name, len) = self.s.scope_tuple.clone().unwrap();
                                Core::Expr(format!("{}[{}]", name, idx(len)))
                            }
                        }
                    }
                    Kind::IndexDeferredParam => {
                        deferred = true;
                        setup.push(self.helper(format!("zzf :: {} zzp -> do", self.kw("kw")), vec![format!("zzp[{}]", idx(n))]));
                        if self.c.bit("two") {
                            form = "two-level".into();
                            setup.push(self.helper(format!("zzf2 :: {} zzq -> do", self.kw("kw2")), vec!["zzf(zzq)".to_string()]));
                            Core::Expr(format!("zzf2({})", self.lit(&tt, "t")))
                        } else {
                            form = "one-level".into();
                            Core::Expr(format!("zzf({})", self.lit(&tt, "t")))
                        }
                    }
                    Kind::IndexReturned => {
                        if self.c.bit("ann") {
                            form = "annotated-return".into();
                            setup.push(self.helper(format!("zzmk :: {} -> {} do", self.kw("kw"), ty_text(&tt)), vec![self.lit(&tt, "t")]));
                        } else {
                            deferred = true;
                            form = "inferred-return".into();
                            setup.push(self.helper(format!("zzmk :: {} -> do", self.kw("kw")), vec![self.lit(&tt, "t")]));
                        }
                        Core::Expr(format!("zzmk()[{}]", idx(n)))
                    }
                    Kind::IndexNested => {
                        let outer = Ty::Tuple(vec![tt.clone(), Ty::Int]);
                        setup.push(format!("zzt :: {}", self.lit(&outer, "t")));
                        if self.c.bit("inner") {
                            form = "inner-tuple".into();
                            Core::Expr(format!("zzt[0][{}]", idx(n)))
                        } else {
                            form = "outer-tuple-then-inner".into();
                            if self.good {
                                Core::Expr(format!("zzt[0][{}]", idx(n)))
                            } else {
                                Core::Expr(format!("zzt[{}][0]", idx(2)))
                            }
                        }
                    }
                    _ => {
                        // the tuple is the instantiation of the blob's type parameter
                        let b = &d.blob;
                        let pf = b.fields.iter().find(|(_, t)| *t == FTy::Param);
                        match (pf, &d.targ) {
                            (Some((fname, _)), Ty::Tuple(ts)) if b.generic => {
                                deferred = true;
                                form = "through-type-parameter".into();
                                setup.push(format!("zzv :: {}", self.inst(b, InstMode::Full, "i")));
                                Core::Expr(format!("zzv.{}[{}]", fname, idx(ts.len())))
                            }
                            _ => {
                                form = "fallback-inferred-constant".into();
                                setup.push(format!("zzt :: {}", self.lit(&tt, "t")));
                                Core::Expr(format!("zzt[{}]", idx(n)))
                            }
                        }
                    }
                }
            }
            Kind::LenBinop | Kind::LenBinopDeferred | Kind::LenAnnotated | Kind::LenAssign | Kind::LenArgument | Kind::LenReturn
            | Kind::LenList => {
                let et = if self.c.bit("float") { Ty::Float } else { Ty::Int };
                let n = 1 + self.c.n("n", 3);
                let mut m = 1 + self.c.n("m", 4);
                if m == n {
                    m = n + 1;
                }
                let tn = Ty::Tuple(vec![et.clone(); n]);
                let tm = if self.good { tn.clone() } else { Ty::Tuple(vec![et.clone(); m]) };
                let a = self.lit(&tn, "a");
                let b = self.lit(&tm, "b");
                let ops = ["+", "-", "*", "==", "!=", "<", ">", "<=", ">="];
                let op = ops[self.c.n("op", ops.len())];
                match k {
                    Kind::LenBinop => match self.c.n("sub", 3) {
                        0 => {
                            form = format!("literals {}", op);
                            Core::Expr(format!("{} {} {}", a, op, b))
                        }
                        1 => {
                            form = format!("annotated-constants {}", op);
                            setup.push(format!("zza: {} : {}", ty_text(&tn), a));
                            setup.push(format!("zzb: {} : {}", ty_text(&tm), b));
                            Core::Expr(format!("zza {} zzb", op))
                        }
                        _ => {
                            form = format!("nested {}", op);
                            Core::Expr(format!("({}, 0) {} ({}, 0)", a, op, b))
                        }
                    },
                    Kind::LenBinopDeferred => {
                        deferred = true;
                        form = format!("unannotated-params {}", op);
                        setup.push(self.helper(format!("zzf :: {} zzp, zzq -> do", self.kw("kw")), vec![format!("zzp {} zzq", op)]));
                        Core::Expr(format!("zzf({}, {})", a, b))
                    }
                    Kind::LenAnnotated => {
                        if self.c.bit("mut") && !self.pure_mode() {
                            form = "mutable".into();
                            setup.push(format!("zzt: {} = {}", ty_text(&tn), b));
                        } else {
                            form = "constant".into();
                            setup.push(format!("zzt: {} : {}", ty_text(&tn), b));
                        }
                        Core::Expr("zzt[0]".into())
                    }
                    Kind::LenAssign => {
                        if self.c.bit("ann") {
                            setup.push(format!("zzt: {} = {}", ty_text(&tn), a));
                        } else {
                            setup.push(format!("zzt := {}", a));
                        }
                        let aop = ["=", "+=", "-=", "*="][self.c.n("aop", 4)];
                        form = format!("assign {}", aop);
                        Core::Stmts(vec![format!("zzt {} {}", aop, b)])
                    }
                    Kind::LenArgument => {
                        form = "annotated-param".into();
                        setup.push(self.helper(format!("zzf :: {} zzp: {} -> do", self.kw("kw"), ty_text(&tn)), vec!["zzp[0]".to_string()]));
                        Core::Expr(format!("zzf({})", b))
                    }
                    Kind::LenReturn => {
                        form = "annotated-return".into();
                        setup.push(self.helper(format!("zzmk :: {} -> {} do", self.kw("kw"), ty_text(&tn)), vec![b.clone()]));
                        Core::Expr("zzmk()".into())
                    }
                    _ => {
                        form = "list-literal".into();
                        if self.c.bit("swap") {
                            Core::Expr(format!("[{}, {}]", b, a))
                        } else {
                            Core::Expr(format!("[{}, {}]", a, b))
                        }
                    }
                }
            }
            Kind::ExternInstance => {
                let mut x = d.blob.clone();
                x.name = "Zx".to_string();
                x.emit = true;
                prelude.push(blob_decl_text(&x, if self.good { "blob" } else { "externblob" }));
                let inst = self.inst(&x, InstMode::Full, "i");
                if self.c.n("sub", 3) == 2 {
                    form = "in-helper-return".into();
                    setup.push(self.helper(format!("zzmk :: {} -> do", self.kw("kw")), vec![inst]));
                    Core::Expr("zzmk()".into())
                } else {
                    form = if x.generic { "generic" } else { "plain" }.into();
                    Core::Expr(inst)
                }
            }
            Kind::BreakNoLoop | Kind::ContinueNoLoop | Kind::ExitInClosureBaseLoop | Kind::ExitInOwnClosure | Kind::ClosureExitInBaseLoop => {
                let exit = match k {
                    Kind::BreakNoLoop => "break",
                    Kind::ContinueNoLoop => "continue",
                    _ => {
                        if self.c.bit("exit") {
                            "continue"
                        } else {
                            "break"
                        }
                    }
                };
                // the exit statement itself (bad) / the same statement inside a loop of its own function (twin)
                let mut x: Vec<String> = if self.good {
                    if exit == "break" {
                        vec!["loop do".into(), "    break".into(), "end".into()]
                    } else {
                        vec!["loop do".into(), "    if false do".into(), "        continue".into(), "    end".into(), "    break".into(), "end".into()]
                    }
                } else {
                    vec![exit.to_string()]
                };
                form = exit.to_string();
                if self.c.bit("in-if") {
                    form.push_str(" in-if");
                    let mut y = vec!["if true do".to_string()];
                    y.extend(indent(&x));
                    y.push("end".into());
                    x = y;
                }
                let csub = if self.pure_mode() { [0usize, 3][self.c.n("cform", 2)] } else { self.c.n("cform", 4) };
                if k.closure_in_loop() && k != Kind::ExitInClosureBaseLoop {
                    match csub {
                        1 => prelude.push("Zm :: blob { f: fn -> void }\n".into()),
                        2 => prelude.push("zzcall :: fn zzf: fn -> void do\n    zzf()\nend\n".into()),
                        _ => {}
                    }
                }
                let closure = |body: Vec<String>| -> Vec<String> {
                    match csub {
                        1 => {
                            // method of a blob literal
                            let mut y = vec!["zzc :: Zm { f: fn do".to_string()];
                            y.extend(indent(&body));
                            y.push("end }".into());
                            y
                        }
                        2 => {
                            // function literal passed as an argument
                            let mut y = vec!["zzcall(fn do".to_string()];
                            y.extend(indent(&body));
                            y.push("end)".into());
                            y
                        }
                        3 => {
                            // closure in a closure
                            let kw = self.kw("ckw");
                            let mut inner = vec![format!("zzh2 :: {} do", kw)];
                            inner.extend(indent(&body));
                            inner.push("end".into());
                            let mut y = vec![format!("zzh :: {} do", kw)];
                            y.extend(indent(&inner));
                            y.push("end".into());
                            y
                        }
                        _ => {
                            let mut y = vec![format!("zzh :: {} do", self.kw("ckw"))];
                            y.extend(indent(&body));
                            y.push("end".into());
                            if self.c.bit("callit") {
                                y.push("zzh()".into());
                            }
                            y
                        }
                    }
                };
                match k {
                    Kind::BreakNoLoop | Kind::ContinueNoLoop | Kind::ExitInClosureBaseLoop => Core::Stmts(x),
                    Kind::ClosureExitInBaseLoop => Core::Stmts(closure(x)),
                    _ => {
                        let mut body = closure(x);
                        let mut y: Vec<String> = Vec::new();
                        if !self.pure_mode() && self.c.bit("counted") {
                            form.push_str(" counted-loop");
                            y.push("zzi := 0".into());
                            y.push("loop zzi < 2 do".into());
                            body.insert(0, "zzi += 1".into());
                        } else {
                            y.push("loop do".into());
                            body.push("break".into());
                        }
                        y.extend(indent(&body));
                        y.push("end".into());
                        Core::Stmts(y)
                    }
                }
            }
            _ => Core::Stmts(Vec::new()),
        };
        Piece { prelude, setup, core, deferred, form }
    }
}

/// whether the kind's plant is an expression (usable at an expression site)
pub fn core_is_expr(spec: &Spec) -> bool {
    let cx = Cx { s: spec, good: true, c: Ch::new(&spec.bytes) };
    matches!(cx.piece().core, Core::Expr(_))
}

pub fn render(spec: &Spec, good: bool) -> Planted {
    let cx = Cx { s: spec, good, c: Ch::new(&spec.bytes) };
    let p = cx.piece();
    let d = &spec.decls;
    let mut prelude = String::new();
    if d.blob.emit {
        prelude.push_str(&blob_decl_text(&d.blob, "blob"));
    }
    if d.blob2.emit {
        prelude.push_str(&blob_decl_text(&d.blob2, "blob"));
    }
    if d.en.emit {
        prelude.push_str(&enum_decl_text(&d.en));
    }
    prelude.push_str(SEL_HELPER);
    for g in &p.prelude {
        prelude.push_str(g);
    }
    let mut own_closure = false;
    let form = p.form.clone();
    match (&spec.expr_site, p.core) {
        (Some(ty), Core::Expr(x)) => {
            for s in &p.setup {
                prelude.push_str(s);
                prelude.push('\n');
            }
            let site = format!("zzsel({}, {})", cx.lit(ty, "sitelit"), x);
            Planted { prelude, site, deferred: p.deferred, own_closure, form }
        }
        (_, core) => {
            // statement site
            let global_setup = !p.setup.is_empty() && cx.c.n("globsetup", 4) == 0;
            let mut lines: Vec<String> = Vec::new();
            let mut outer: Vec<String> = Vec::new();
            if global_setup {
                for s in &p.setup {
                    prelude.push_str(s);
                    prelude.push('\n');
                }
            } else {
                for s in &p.setup {
                    outer.extend(s.lines().map(|l| l.to_string()));
                }
                if !global_setup && p.setup.iter().any(|s| s.contains(" do\n")) {
                    own_closure = true;
                }
            }
            let mut body: Vec<String> = match core {
                Core::Stmts(ls) => ls,
                Core::Expr(x) => match cx.c.n("emb", 5) {
                    0 => vec![format!("zzr :: {}", x)],
                    1 => vec![x],
                    2 => vec![format!("zzr :: zzsel(0, {})", x)],
                    3 => vec![format!("if zzsel(true, {}) do", x), "    zzq :: 0".into(), "end".into()],
                    _ => vec![format!("zzl :: [{}]", x)],
                },
            };
            body.push("zzend :: 0".into());
            // planted nesting (not for the loop kinds: they bring their own structure)
            if !spec.kind.is_loop() {
                let layers = [0usize, 0, 1, 1, 2][cx.c.n("layers", 5)];
                // set-up outside, violating construct inside the nesting (captured variables) or all inside
                let setup_inside = cx.c.bit("setup-inside");
                if layers > 0 && setup_inside {
                    let mut b = std::mem::take(&mut outer);
                    b.extend(body);
                    body = b;
                }
                for li in 0..layers {
                    let w = cx.c.n(&format!("layer{}", li), 4);
                    let mut y: Vec<String> = Vec::new();
                    match w {
                        0 | 1 => {
                            own_closure = true;
                            y.push(format!("zzw{} :: {} do", li, cx.kw(&format!("wkw{}", li))));
                            y.extend(indent(&body));
                            y.push("end".into());
                            if w == 1 {
                                y.push(format!("zzw{}()", li));
                            }
                        }
                        2 => {
                            y.push("if true do".into());
                            y.extend(indent(&body));
                            y.push("end".into());
                        }
                        _ => {
                            y.push("loop do".into());
                            y.extend(indent(&body));
                            y.push("    break".into());
                            y.push("end".into());
                        }
                    }
                    y.push(format!("zzend{} :: 0", li));
                    body = y;
                }
            }
            lines.extend(outer);
            lines.extend(body);
            Planted { prelude, site: lines.join("\n"), deferred: p.deferred, own_closure, form }
        }
    }
}

/// entry-point kinds: text appended to the program whose `start` was renamed to `zzstart`, or the main file
/// of a two-file project whose library is the unchanged program
pub struct Entry {
    pub two_file: bool,
    pub text: String,
    pub form: String,
}

pub fn render_entry(spec: &Spec, good: bool) -> Entry {
    let c = Ch::new(&spec.bytes);
    let proper = "start :: fn do\n    zzstart()\nend\n";
    let proper2 = "use lib\nstart :: fn do\n    lib.start()\nend\n";
    match spec.kind {
        Kind::NoStart => {
            let sub = c.n("sub", 5);
            let form = ["nothing", "other-name", "only-a-local-start", "start-is-a-blob-field", "prefixed-name"][sub];
            let text = if good {
                proper.to_string()
            } else {
                match sub {
                    0 => String::new(),
                    1 => "starts :: fn do\n    zzstart()\nend\n".to_string(),
                    2 => "zzmain :: fn do\n    start :: fn do\n        zzstart()\n    end\n    start()\nend\n".to_string(),
                    3 => "Zs :: blob { start: fn -> void }\nzzs :: Zs { start: fn do\n    zzstart()\nend }\n".to_string(),
                    _ => "zzzstart :: fn do\n    zzstart()\nend\n".to_string(),
                }
            };
            Entry { two_file: false, text, form: form.into() }
        }
        Kind::StartImportedOnly => {
            let sub = c.n("sub", 2);
            let form = ["main-calls-lib-start", "main-only-imports"][sub];
            let text = if good {
                proper2.to_string()
            } else if sub == 0 {
                "use lib\nzzrun :: fn do\n    lib.start()\nend\n".to_string()
            } else {
                "use lib\nzzone :: 1\n".to_string()
            };
            Entry { two_file: true, text, form: form.into() }
        }
        Kind::StartNotFn => {
            let vals = ["1", "\"s\"", "(1, 2)", "[1]", "true", "1.5"];
            let sub = c.n("sub", vals.len());
            let mutable = c.bit("mut");
            let text = if good { proper.to_string() } else { format!("start {} {}\n", if mutable { ":=" } else { "::" }, vals[sub]) };
            Entry { two_file: false, text, form: format!("value {}", vals[sub]) }
        }
        Kind::StartParams => {
            let heads = ["zza: int", "zza", "zza: int, zzb: str", "zza: fn -> void", "zza: (int, int)"];
            let sub = c.n("sub", heads.len());
            let kw = if c.bit("pu") { "pu" } else { "fn" };
            let two = c.n("two", 4) == 0;
            let text = if good {
                if two { proper2.to_string() } else { proper.to_string() }
            } else if two {
                format!("use lib\nstart :: {} {} do\n    zzq :: 0\nend\n", kw, heads[sub])
            } else {
                format!("start :: {} {} do\n    zzq :: 0\nend\n", kw, heads[sub])
            };
            Entry { two_file: two, text, form: format!("{} {}{}", kw, heads[sub], if two { " +imported-proper-start" } else { "" }) }
        }
        _ => {
            let rets = [
                ("-> int do\n    1\nend", "int"),
                ("-> str do\n    \"s\"\nend", "str"),
                ("-> do\n    1\nend", "inferred-int"),
                ("-> do\n    ret (1, 2)\nend", "inferred-tuple-ret"),
                ("-> bool do\n    zzstart()\n    true\nend", "bool-after-call"),
                ("-> (fn -> void) do\n    zzstart\nend", "function"),
            ];
            let two = c.n("two", 4) == 0;
            let sub = c.n("sub", if two { 4 } else { rets.len() });
            let text = if good {
                if two { proper2.to_string() } else { proper.to_string() }
            } else if two {
                format!("use lib\nstart :: fn {}\n", rets[sub].0)
            } else {
                format!("start :: fn {}\n", rets[sub].0)
            };
            Entry { two_file: two, text, form: format!("returns {}{}", rets[sub].1, if two { " +imported-proper-start" } else { "" }) }
        }
    }
}

/// the literal that stands at an expression site in the unplanted program
pub fn site_literal(spec: &Spec) -> String {
    let cx = Cx { s: spec, good: true, c: Ch::new(&spec.bytes) };
    match &spec.expr_site {
        Some(t) => cx.lit(t, "sitelit"),
        None => "0".to_string(),
    }
}
