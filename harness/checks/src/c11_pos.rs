//! C11 — "single-mention" programs: a global that is mentioned by its user at exactly one syntactic position
//! (or twice within one construct: condition and body of one loop, both operands of one operator, ...).
//! The dependency analysis walks every construct of the language; a construct whose mentions it loses puts
//! the user before the global in some order of the source. Every position of the catalogue is one construct.
use vcore::Tape;

/// (id, body of `fn -> int` with `{g}` = an int global, `{o}` = a blob global (field `a: int`), writes `{g}`?)
pub const POSITIONS: &[(&str, &str, bool)] = &[
    ("value", "{g}", false),
    ("ret", "ret {g}", false),
    ("bin-left", "{g} + 1", false),
    ("bin-right", "1 + {g}", false),
    ("bin-both", "{g} * {g}", false),
    ("neg", "-{g}", false),
    ("paren", "({g})", false),
    ("if-cond", "if {g} > 1 do\n    1\nelse\n    2\nend", false),
    ("elif-cond", "if false do\n    1\nelif {g} > 1 do\n    2\nelse\n    3\nend", false),
    ("if-body", "if true do\n    {g}\nelse\n    2\nend", false),
    ("else-body", "if false do\n    1\nelse\n    {g}\nend", false),
    ("if-cond-and-body", "if {g} > 1 do\n    {g}\nelse\n    2\nend", false),
    ("and-both", "if {g} > 1 and {g} < 9 do\n    1\nelse\n    2\nend", false),
    ("not", "if not ({g} > 1) do\n    1\nelse\n    2\nend", false),
    ("case-scrutinee", "case Maybe.Just {g} do\n    Just zx ->\n        zx\n    end\n    else\n        0\n    end\nend", false),
    ("case-arm", "case Maybe.Just 1 do\n    Just zx ->\n        zx + {g}\n    end\n    else\n        0\n    end\nend", false),
    ("case-else", "case zpnone() do\n    Just zx ->\n        zx\n    end\n    else\n        {g}\n    end\nend", false),
    ("case-scrutinee-and-arm", "case Maybe.Just {g} do\n    Just zx ->\n        zx + {g}\n    end\n    else\n        {g}\n    end\nend", false),
    ("call-arg", "zpid({g})", false),
    ("call-arg-twice", "zpadd({g}, {g})", false),
    ("std-call-arg", "list.len([{g}, {g}])", false),
    ("arrow-call", "{g} -> zpid()", false),
    ("prime-call", "zpid' {g}", false),
    ("tuple", "({g}, 1)[0]", false),
    ("list-literal", "list.len([{g}])", false),
    ("blob-literal", "Zpb { a: {g} }.a", false),
    ("blob-field-read", "{o}.a", false),
    ("definition", "zv :: {g}\nzv", false),
    ("definition-annotated", "zv: int = {g}\nzv", false),
    ("block", "zr := 0\ndo\n    zr = {g}\nend\nzr", false),
    ("lambda-body-called", "zh :: fn -> int do\n    {g}\nend\nzh()", false),
    ("lambda-applied", "(fn -> int do\n    {g}\nend)()", false),
    ("nested-lambda", "zh :: fn -> int do\n    zk :: fn -> int do\n        {g}\n    end\n    zk()\nend\nzh()", false),
    ("lambda-arg", "zpapply(fn -> int do\n    {g}\nend)", false),
    ("assert", "{g} <=> {g}\n1", false),
    ("loop-cond", "zi := 0\nloop {g} > zi do\n    zi += 1\nend\nzi", false),
    ("loop-body", "zi := 0\nzr := 0\nloop zi < 2 do\n    zr += {g}\n    zi += 1\nend\nzr", false),
    ("loop-cond-and-body", "zr := 0\nloop {g} > zr do\n    zr += {g}\nend\nzr", false),
    ("loop-cond-and-body-store", "loop {g} < 6 do\n    {g} += 1\nend\n1", true),
    ("store", "{g} = 7\n1", true),
    ("compound-store", "{g} += 2\n1", true),
    ("store-twice", "{g} = {g} + 1\n1", true),
    ("store-in-branch", "if true do\n    {g} = 8\nend\n1", true),
    ("store-in-loop", "zi := 0\nloop zi < 2 do\n    {g} += 1\n    zi += 1\nend\n1", true),
    ("store-in-case-else", "case zpnone() do\n    Just zx ->\n        zx\n    end\n    else\n        {g} = 9\n        1\n    end\nend", true),
    ("store-in-lambda", "zh :: fn do\n    {g} = 4\nend\nzh()\n1", true),
    ("field-store", "{o}.a = 5\n1", false),
    ("field-compound-store", "{o}.a += 5\n1", false),
    ("field-store-value", "{o}.a = {g}\n1", false),
];

/// Items of one stand-alone program. Two (function, global) pairs; `start` (last item) calls the functions and prints
/// every global afterwards. With `via_init` the first function is called from a global initialiser instead.
pub fn build(t: &mut Tape) -> (Vec<String>, Vec<String>) {
    let mut items: Vec<String> = vec![
        "Zpb :: blob { a: int }".into(),
        "zpid :: fn zx: int -> int do\n    zx\nend".into(),
        "zpadd :: fn zx: int, zy: int -> int do\n    zx + zy\nend".into(),
        "zpnone :: fn -> Maybe(int) do\n    Maybe.None\nend".into(),
        "zpapply :: fn zf: fn -> int -> int do\n    zf()\nend".into(),
    ];
    let mut ids = Vec::new();
    let mut start = String::from("start :: fn do\n");
    let via_init = t.chance(1, 3);
    for k in 0..2 {
        let (id, body, writes) = *t.pick(POSITIONS);
        ids.push(id.to_string());
        let g = format!("zpg{}", k);
        let o = format!("zpo{}", k);
        let f = format!("zpf{}", k);
        let init = 3 + k as i64;
        let mutable = writes || t.bool();
        // the global is a literal, or (1 in 3) itself computed by a call
        if t.chance(1, 3) {
            items.push(format!("{} {} zpid({})", g, if mutable { ":=" } else { "::" }, init));
        } else {
            items.push(format!("{} {} {}", g, if mutable { ":=" } else { "::" }, init));
        }
        items.push(format!("{} := Zpb {{ a: {} }}", o, 10 + k));
        let text = body.replace("{g}", &g).replace("{o}", &o);
        let indented: Vec<String> = text.lines().map(|l| format!("    {}", l)).collect();
        items.push(format!("{} :: fn -> int do\n{}\nend", f, indented.join("\n")));
        // (1 in 3) the function is reached through a second function
        let callee = if t.chance(1, 3) {
            items.push(format!("zpk{} :: fn -> int do\n    {}() + 100\nend", k, f));
            format!("zpk{}", k)
        } else {
            f.clone()
        };
        if k == 0 && via_init {
            items.push(format!("zpv :: {}()", callee));
            start.push_str("    print(zpv)\n");
        } else {
            start.push_str(&format!("    print({}())\n", callee));
        }
        start.push_str(&format!("    print({})\n    print({}.a)\n", g, o));
    }
    // two definitions that do not depend on each other and instantiate one generic type at different arguments, one of
    // them naming the type bare (without type arguments) in an annotation: neither may fix the type for the other
    if t.chance(1, 2) {
        const GENERIC_USES: &[(&str, &str, &str, &str)] = &[
            // (id, declaration, first user (int), second user (str))
            (
                "generic-blob-bare",
                "Zpx :: blob(*T) {\n    v: *T,\n}",
                "zpt0 :: fn -> int do\n    zb: Zpx = Zpx { v: 1 }\n    zb.v + 1\nend",
                "zpt1 :: fn -> str do\n    zb :: Zpx { v: \"one\" }\n    zb.v\nend",
            ),
            (
                "generic-blob-bare-param",
                "Zpx :: blob(*T) {\n    v: *T,\n}",
                "zpt0 :: fn -> int do\n    zh :: fn zq: Zpx -> int do\n        zq.v + 1\n    end\n    zh(Zpx { v: 1 })\nend",
                "zpt1 :: fn -> str do\n    zb: Zpx(str) : Zpx { v: \"one\" }\n    zb.v\nend",
            ),
            (
                "generic-enum-bare",
                "Zpx :: enum(*T)\n    Zfull *T,\n    Zempty,\nend",
                "zpt0 :: fn -> int do\n    zb: Zpx = Zpx.Zfull 1\n    case zb do\n        Zfull zx ->\n            zx + 1\n        end\n        else\n            0\n        end\n    end\nend",
                "zpt1 :: fn -> str do\n    zb :: Zpx.Zfull \"one\"\n    case zb do\n        Zfull zx ->\n            zx\n        end\n        else\n            \"\"\n        end\n    end\nend",
            ),
            (
                "std-maybe-bare",
                "zpunused :: 0",
                "zpt0 :: fn -> int do\n    zb: Maybe = Maybe.Just 1\n    case zb do\n        Just zx ->\n            zx + 1\n        end\n        else\n            0\n        end\n    end\nend",
                "zpt1 :: fn -> str do\n    zb :: Maybe.Just \"one\"\n    case zb do\n        Just zx ->\n            zx\n        end\n        else\n            \"\"\n        end\n    end\nend",
            ),
            (
                "generic-blob-bare-global",
                "Zpx :: blob(*T) {\n    v: *T,\n}",
                "zpw0: Zpx : Zpx { v: 1 }\nzpt0 :: fn -> int do\n    zpw0.v + 1\nend",
                "zpw1 :: Zpx { v: \"one\" }\nzpt1 :: fn -> str do\n    zpw1.v\nend",
            ),
        ];
        let (id, decl, a, b) = *t.pick(GENERIC_USES);
        ids.push(id.to_string());
        items.push(decl.to_string());
        // (an entry may hold two top-level items, one per line group: split at lines that start in column 0 after an `end`)
        for part in [a, b] {
            let mut cur = String::new();
            for line in part.lines() {
                let starts_item = !line.starts_with(' ') && !line.starts_with("end") && !cur.is_empty() && !cur.ends_with("do") && (cur.lines().count() == 1 || cur.ends_with("end"));
                if starts_item {
                    items.push(std::mem::take(&mut cur));
                }
                if !cur.is_empty() {
                    cur.push('\n');
                }
                cur.push_str(line);
            }
            if !cur.is_empty() {
                items.push(cur);
            }
        }
        start.push_str("    print(zpt0())\n    print(zpt1())\n");
    }
    // a type that is mentioned only in a function's signature, and a call that relies on that annotation: the mismatching call
    // (ids starting with "invalid:") is rejected in every order, the matching one accepted in every order
    if t.chance(1, 3) {
        let (decl, good, bad) = match t.below(3) {
            0 => ("Zpshade :: enum\n    Zdark,\n    Zlight int,\nend", "Zpshade.Zdark", "3"),
            1 => ("Zpshade :: blob {\n    zv: int,\n}", "Zpshade { zv: 1 }", "3"),
            _ => ("Zpshade :: enum\n    Zdark,\n    Zlight int,\nend", "Zpshade.Zlight 2", "\"s\""),
        };
        let invalid = t.bool();
        let how = t.below(3);
        ids.push(format!("{}signature-only-type-{}", if invalid { "invalid:" } else { "" }, how));
        items.push(decl.to_string());
        match how {
            0 => items.push("zpweight :: fn zs: Zpshade -> int do\n    1\nend".to_string()),
            1 => items.push("zpweight :: fn zn: int, zs: Zpshade -> int do\n    zn\nend".to_string()),
            _ => items.push("zpweight :: fn zs: [Zpshade] -> int do\n    1\nend".to_string()),
        }
        let arg = if invalid { bad } else { good };
        let call = match how {
            0 => format!("zpweight({})", arg),
            1 => format!("zpweight(1, {})", arg),
            _ => format!("zpweight([{}])", arg),
        };
        items.push(format!("zpuse :: fn -> int do\n    {}\nend", call));
        start.push_str("    print(zpuse())\n");
    }
    start.push_str("end");
    items.push(start);
    (items, ids)
}
